#!/bin/bash
# dev helper: apply a seeded patch to /repo, run the given checks, always restore /repo
# usage: tools_seed.sh <patch.diff> <Cxx> [Cyy ...]
P=$1; shift
cd /repo || exit 9
if ! git diff --quiet; then echo "/repo has uncommitted changes; refusing"; exit 9; fi
git apply "$P" || { echo "PATCH DOES NOT APPLY"; exit 8; }
trap 'git -C /repo checkout -- . ' EXIT
cd /verif
for c in "$@"; do
  out=$(bin/check $c 2>&1); rc=$?
  echo "== $c exit=$rc"; echo "$out" | grep -E "^VIOLATION|^UNDECIDED|OK —|FAILED" | cut -c1-260 | head -8
done
