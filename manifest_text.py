HOOKS = {
  'guard': 'cargo feature `verif` (default off) in laythe_core / laythe_vm / laythe_lib',
  'enable': 'Kani harness crates under /verif/kx depend on /repo crates by path with features=["verif"] where a private item must be reached; the Verus engine reads source text and needs no hook',
  'baseline_off_cmd': 'cd /repo && cargo nextest run --workspace --no-fail-fast --test-threads 8 --offline',
  'source_commits': ['2f4e2ee', '649a94f', '0a5a8b0', 'e0d401d', '6a0a964', 'c8f2384'],
  'add_only': True,
}
ENGINES = [
  {'name': 'vx', 'path': '/verif/vx', 'serves_properties': ['C01', 'C03', 'C04', 'C06', 'C07', 'C09', 'C11', 'C12', 'C13', 'C15', 'C16', 'C17', 'C18'],
   'kind_free_text': 'Verus 0.2026.09.13 on functions extracted mechanically from /repo on every run (byte-for-byte item text + listed rewrites), contracts spliced from units/<unit>/contracts.vrs'},
  {'name': 'kx', 'path': '/verif/kx', 'serves_properties': ['C01', 'C05', 'C09', 'C10', 'C11', 'C14', 'C20'],
   'kind_free_text': 'Kani 0.68 / CBMC 6.11 harness crates calling the real crates in /repo through path dependencies; loop-free full-domain harnesses are complete proofs, #[kani::unwind] harnesses are labelled bounded'},
]
NOTES = ('Contract-based deductive verification of the real code (see DESIGN.md). exit 0 = all obligations discharged; '
         'exit 1 + VIOLATION line = an obligation failed; exit 2 = UNDECIDED (lost anchor, unsupported construct, rlimit) — never an alarm.')

NOT_APPLICABLE = {
  'C02': 'capture protocol spans resolver + three compiler emission paths + box/capture ops over unbounded program shapes; the carrier functions use iterator chains over arena tables, an unsafe parent pointer, transmute and raw stack pointers that neither Verus nor Kani can take; no contract within reach expresses it',
  'C08': 'liveness over whole scheduling histories (fairness, deadlock iff nothing runnable): needs a protocol-level inductive invariant over fiber_queue, every waiter list and every fiber; contracts decide one call; Kani cannot construct a Vm',
  'C19': 'a property of Vm::repl / Vm::compile state across prompt entries; those functions call parser, resolver and compiler and can be neither extracted for Verus nor driven by Kani',
}
for _p in []:
  NOT_APPLICABLE.setdefault(_p, 'planned (DESIGN.md section 4) but no check is registered yet in this commit; not claimed until its obligations are discharged on the unchanged tree')

CHECKS = {
  'C02': dict(
    engine='vx',
    technique='Verus contracts on the real box / capture op handlers and op_closure over a ghost heap of box cells (the VM half of the capture protocol only)',
    design_ref='DESIGN.md §10.8',
    level_text=('Partial scope, unbounded proof on the extracted real handlers: op_box replaces a frame slot by a FRESH box cell holding the old value, op_empty_box / op_fill_box create and initialise a fresh cell; op_get_box / op_set_box and op_get_capture / op_set_capture read and write the cell (not a copy); '
                'op_closure builds a closure whose j-th capture IS the same cell as the enclosing frame slot (Local operand) or the enclosing closure capture (Enclosing operand) — so the declaring scope and every closure made from it observe each other\'s writes, and two executions of a declaration (two op_box / op_empty_box) give two distinct cells. '
                'What is NOT decided is the larger half of the property: the resolver marking variables as captured, the compiler choosing operands and placing Box / EmptyBox per iteration, and name resolution.'),
    level_note=('Trusted: the ghost box heap and frame-base model of the ops prelude (A-fiber), A-enc (operand decode), A-shape preconditions. The claim is deliberately limited to the handlers listed; resolver.rs and Compiler are outside reach of both tools.'),
  ),
  'C05': dict(
    engine='vx',
    technique='Verus contracts GENERATED from the real struct definitions on the real trace bodies (ghost trace log threaded through, R15), hand-written contracts on the mark-guarded handles and the kind dispatch; Kani bounded function-contract harnesses on the real dispatch and the real Allocator sweep',
    design_ref='DESIGN.md §4 C05, §10.4, §13',
    level_text=('Unbounded proof (Verus) on the extracted real functions: each of the 26 field-wise `trace` bodies (LyBox, Method, Closure, Channel, ChannelQueue, Native, NativeMeta, Class, instance Header, Instance, List, Tuple, Map, Fun, FunBuilder, Enumerator, Chunk, Module, Package, Import, Captures, Parameter, NativeSignature, UniqueVector, CallFrame, Fiber) '
                'issues a trace for EVERY field whose type can hold a GC reference — the obligation is regenerated from the struct definition on every run, so a new untraced field fails as well as a dropped call; '
                'ObjRef / Ref / Array / RawUniqueVector / RawSharedVector trace header and elements of an object met for the first time and follow list forwarding; ObjectRef::trace sends each of the 13 kinds to its own kind. '
                'Bounded (Kani): the real dispatch per kind and the real Allocator sweep with one object (rooted object retained intact, mark cleared, temporary roots survive).'),
    level_note=('Trusted: the model of field types (Leaf / KvLeaf / Plain classification table in vx/units/gctrace/unit.py; an unclassified type is UNDECIDED), R15 rewrites of for / for_each loops into one stub call with flags, A-alias (Class.init). '
                'NOT decided: root sets of Vm/Compiler/Fiber stack slices, natives\' push_root discipline, the whole-heap tri-colour induction, output equality across schedules.'),
  ),
  'C09': dict(
    engine='vx',
    technique='Verus contracts on the real Allocator::manage_str / has_str / sweep_intern_cache over an abstract map keyed by string content; two bounded Kani harnesses on the real Allocator in the thorough tier',
    design_ref='DESIGN.md §4 C09, §10',
    level_text=('Unbounded proof on the extracted real functions: the intern table invariant (every key is the content of its own value) is preserved; manage_str returns the very same object when the content is already interned and otherwise a fresh object entered under its own content; '
                'has_str is lookup by content; sweep_intern_cache leaves exactly the marked strings (no dangling key, no lost live string). Interning twice / create-drop-collect-recreate follow from these contracts. '
                'Thorough tier adds two bounded CBMC runs on the real Allocator (eviction of an unrooted string, retention of a rooted one across a full collection).'),
    level_note=('Trusted: hashbrown HashMap<&str, LyStr> behaves as a mathematical map keyed by content (stub InternMap), allocate_obj returns a fresh string with the given content, the raw-pointer key cast yields the string\'s own bytes. '
                'Not decided: that every string-producing operation goes through manage_str.'),
  ),
  'C10': dict(
    engine='kx',
    technique='Kani bounded harnesses on the real List / RawSharedVector forwarding representation (Allocator::manage_obj stubbed by its contract for the growth harnesses)',
    design_ref='DESIGN.md §4 C10, §11',
    level_text=('Bounded checks only: a push beyond capacity forwards the old handle, every alias sees the new element and the old contents, List == List follows the forwarding chain; two lists that never grew are equal as values exactly to themselves. '
                'The property-level obligation that two handles of ONE list stay the same Value across growth FAILS (known finding D11, witness replay/c10.lay).'),
    level_note=('category other: bounded (one list, len 1 cap 1, one push). Not decided: which aliases scan_roots rewrites; other mutable objects never relocate.'),
  ),
  'C11': dict(
    engine='kx',
    technique='Kani loop-free harness over every f64 for index normalisation; Kani bounded harnesses of List pop/remove/insert against a sequence model; Verus proof of the native signature gate',
    design_ref='DESIGN.md §4 C11, §10',
    level_text=('Complete over all 2^64 index bit patterns (receiver length 0..8): determine_index returns Ok(i) iff the index is a finite integer in [-len, len), with i = idx or len+idx, always < len. '
                'Bounded: real List::pop (quick), remove and insert (thorough) agree with the sequence model for lists up to 3 elements and every index 0..4, receiver unchanged on OutOfBounds. '
                'Unbounded (Verus): Native::check_if_valid_call admits exactly the calls its declared signature admits, so a native body only runs on arguments of the declared kinds.'),
    level_note=('category other because most obligations are bounded. Not decided: iterator adaptors, string and map natives, the bodies of the list/tuple natives themselves (callbacks, Hooks, str). determine_index runs with --no-overflow-checks because CBMC\'s NaN check flags inf.fract().'),
  ),
  'C17': dict(
    engine='vx',
    technique='Verus contracts on the real Module symbol/export operations over abstract map/set views, and on the real op_import / op_import_symbol / op_export handlers against those contracts',
    design_ref='DESIGN.md §4 C17, §10',
    level_text=('Unbounded proof on the extracted real functions: get_exported_symbol_by_name yields Some(v) iff the name is exported, and then v is the symbol\'s current value; export_symbol of an unknown or already exported name is an error and changes nothing, otherwise adds exactly that name (and the import object\'s field); '
                'set_symbol_by_name/by_slot write exactly one slot or fail without change; insert_symbol gives a new name the next dense slot. '
                'The import handlers: a cached or freshly loaded module yields EXACTLY get_exported_symbol_by_name(name) (a value iff exported, else an ImportError, also on the cache-hit path) or its import object; a loaded module enters the cache under its resolved path; '
                'a compiled-but-not-run module is handed to a new fiber, the importer sleeps and re-executes the same instruction (ip rewound to the opcode); export errors surface as ExportError.'),
    level_note=('Trusted: hashbrown map/set as mathematical map/set, UniqueVector as Vec (vx/units/module/prelude.rs), rewrites R4/R6. Not decided: import_module / load_missing_module (file system, compile) — the answer of the loader is uninterpreted, so that the body runs exactly once is NOT concluded; path resolution (cache-key collisions), module_instance construction.'),
  ),
  'C01': dict(
    engine='vx',
    technique='Verus contracts on the real operator/control-flow op handlers of vm/ops.rs against source-level operator rules; Kani for falsiness and number equality on the real Value',
    design_ref='DESIGN.md §4 C01',
    level_text=('Unbounded proofs that the real op_add/sub/mul/div, op_less/.../greater_equal, op_equal/not_equal, op_not, op_negate, op_and/or, op_jump/loop/jump_if_false, literals, drops and constants do what the source rules say: '
                'operands taken in source order (left is the deeper one), number x number gives the named IEEE operator on (left, right), string x string concatenation / content order with <= and >= true on equal strings, '
                'any other combination raises the runtime error and pushes no value; and/or keep exactly the deciding operand; jump_if_false pops on both edges. Only these leaf rules are decided.'),
    level_note=('Trusted: the interpreter model in vx/units/ops/prelude.rs (A-fiber stack as a Vec, A-heap value predicates, A-float named operators), rewrites R7,R8,R9,R12,R14. Not decided: parser, compiler lowering, call protocol.'),
  ),
  'C03': dict(
    engine='vx',
    technique='Verus contracts on the real property/invoke/super handlers over an abstract class heap, with the slow path as the specification',
    design_ref='DESIGN.md §4 C03',
    level_text=('Unbounded proofs on the real op_invoke/invoke/invoke_from_class, op_super_invoke/op_get_super, op_get_prop_by_name/op_set_prop_by_name, op_get_prop/op_set_prop, bind_method, call_method: a field holding a callable shadows a method (the field value is called and takes the receiver slot), '
                'otherwise the method the receiver\'s class table gives; super looks up in the popped parent class; a method read as a value is bound to its receiver; only declared fields of instances are settable; an undeclared property is a PropertyError (D9 found and fixed here). The peephole fusion of get+call is C12.'),
    level_note=('Trusted: abstract heap functions field_index/method_of/class_of_value (A-heap), axiom that non-instance classes declare no fields, resolve_call as a recording stub. Not decided: class construction, inheritance tables, field numbering by the compiler.'),
  ),
  'C13': dict(
    engine='vx',
    technique='Verus contracts on the real InlineCache (cache.rs) plus a cache-coherence invariant carried through the four cached handlers, whose postcondition is the uncached slow path',
    design_ref='DESIGN.md §4 C13',
    level_text=('Unbounded proofs: get_*_cache hits iff the entry holds the same class; set/clear change exactly one slot; with coherent(cache) as pre- and postcondition, op_get_prop_by_name, op_set_prop_by_name, op_invoke and op_super_invoke return exactly what the slow path (which never consults the cache) returns — '
                'first execution, repeated, alternating classes and shadowing fields are all covered because the postcondition does not depend on the cache contents.'),
    level_note=('Assumes A-slot (slot operands index this module\'s cache and belong to one site with one name; false for REPL entries) and A-classid (no class address reuse while cached: the GC part of the property is NOT decided).'),
  ),
  'C16': dict(
    engine='vx',
    technique='Verus: internal_error has precondition false and every unchecked stack access has a depth precondition, so each covered real handler is proved never to reach a host panic',
    design_ref='DESIGN.md §4 C16',
    level_text=('For the ~45 real op handlers under contract: given the stack-shape precondition that C06 supplies, no path reaches internal_error (a host panic), an out-of-range peek/pop, or to_num/to_obj/to_str on a value of the wrong kind; wrong operand kinds end in the documented runtime error. Only these handlers are decided.'),
    level_note=('Not decided: native bodies and signature gate, call_native, resolve_call/call/call_closure and the frame limit, recursion through callbacks, errors while handling. Trusted as for C01/C03.'),
  ),
  'C20': dict(
    engine='kx',
    technique='Kani on the real laythe_core: loop-free full-domain harnesses for the layout arithmetic; bounded harnesses for allocate/size/release per kind and for Allocator accounting',
    design_ref='DESIGN.md §4 C20',
    level_text=('Complete (all usize lengths): make_array_layout / make_vector_layout / make_obj_layout sizes are exactly offset + len*size_of::<T>(), element areas aligned, alignment covers header/len/T, at the (H,T) pairs the runtime uses. '
                'Bounded (listed as bounded_checks, not counted as discharged): for strings/tuples up to 3 elements, boxes and methods, the handle reports the allocated size and is released with the allocation layout (Kani dealloc model; D6 found and fixed); '
                'on the real Allocator with one object, after a full and after a nursery collection allocated() equals the bytes owned, next_gc is twice that, exactly the rooted object is kept, marks are cleared, temp roots survive (D10 found and fixed).'),
    level_note=('Trusted: CBMC/Kani memory model; in the Allocator harnesses ObjectHandle::drop and ObjectRef::trace are stubbed (A-stub: release proved per kind in kx/heap, tracing in kx/trace). Hooks: laythe_core feature verif (re-exports, verif_stats, verif_set_gc_count). Bounds: see bounded_checks.'),
  ),
  'C06': dict(
    engine='vx',
    technique='Verus contracts on the real SymbolicByteCode::len/stack_effect, compute_label_offsets, apply_stack_effects, ByteCodeEncoder::encode and helpers against ISA spec tables',
    design_ref='DESIGN.md §4 C06',
    level_text=('Unbounded deductive proofs on the real compiler back half: len() and every encoder arm emit exactly enc_len(instr) bytes (table written from the VM decode side); '
                'compute_label_offsets stores the exact prefix byte offset of every label; encode writes for every jump/loop/handler the exact distance to that offset (so jumps land on instruction boundaries, lemma_jump_lands_on_boundary) and returns Ok only when every distance fits u16; '
                'stack_effect() equals the interpreter effect table; apply_stack_effects computes exactly the linear simulation, rewrites only handler depth operands, and max_slots covers every simulated depth. '
                'The property-level obligations that the linear simulation equals the live depth on every CFG path are stated separately and FAIL: known findings D1/D2/D4.'),
    level_note=('Trusted: Verus/Z3/vstd, stubs A-enc (to_ne_bytes, transmute leaves, cache id emitter) in bytecode/prelude.rs, A-shape (labels dense/unique, jump direction), A-mem, rewrites R1,R3,R5,R6,R7,R10,R11,R13,R13z. '
                'Not decided: index ranges of constants/locals/captures/cache slots (Compiler), Fiber stack reservation (raw pointers), eff table vs handlers beyond the ops unit.'),
  ),
  'C15': dict(
    engine='vx',
    technique='Verus panic-freedom and termination obligations (index bounds, overflow, debug_assert!, decreases) on the real peephole pass, label resolution and encoder',
    design_ref='DESIGN.md §4 C15',
    level_text=('Only the compiler back half is decided: for every instruction vector, peephole_optimize and each rewrite, label_count, compute_label_offsets and ByteCodeEncoder::encode terminate and cannot index out of bounds, overflow or trip a debug_assert! (under the stated shape preconditions). '
                'apply_stack_effects is total only under the residual precondition; without it the obligation fails: known finding D4 (debug build panics). D7 (u8 drop counter overflow) was found here and fixed.'),
    level_note=('Scanner, parser, resolver and Compiler totality and the REPL are NOT decided (unbounded AST, arena tables, unsafe parent pointers: outside both tools). Trusted as for C06/C12.'),
  ),
  'C18': dict(
    engine='vx',
    technique='Verus contracts along the line-attribution chain: LineOffsets::offset_line, ByteCodeEncoder::encode (one line per byte), peephole lines lock-step, Chunk::get_line',
    design_ref='DESIGN.md §4 C18',
    level_text=('Unbounded proofs that offset_line returns the last line start <= offset (binary_search under its std contract), that encode writes the instruction\'s line once per encoded byte, '
                'that the peephole pass keeps each emitted line attached to the window it came from, and that get_line(off) is lines[off] (last entry at off == len). Only this chain is decided.'),
    level_note=('Not decided: traceback/backtrace assembly from frames and saved ips, exit-status mapping, exit(n), Compiler::emit_byte. Trusted: wrapper contract for binary_search (A-std), Array->Vec substitution in Chunk (R6).'),
  ),
  'C04': dict(
    engine='vx',
    technique='Verus contracts on handler depth (apply_stack_effects) and handler jump encoding (PushHandler/CheckHandler arms of encode); property-level depth obligation kept as a listed finding',
    design_ref='DESIGN.md §4 C04',
    level_text=('Decided part: every PushHandler records exactly the linear-simulation depth at its try and its catch offset is the exact byte offset of the catch label (width 5), CheckHandler likewise (width 3). '
                'The property obligation that this recorded depth is the live depth (parameters included, on every path) FAILS: known finding D1-D2 with .lay witnesses; D3 (Send effect) was found here and fixed.'),
    level_note=('Not decided: PopHandler emission on every exit path, Fiber::stack_unwind/finish_unwind, op_* handler semantics (ops unit pending), native-callback boundary.'),
  ),
  'C12': dict(
    engine='vx',
    technique='Verus contracts on the real peephole.rs: per-rule window preconditions, semantic-equivalence postconditions over an abstract stack machine, dispatcher loop invariant',
    design_ref='DESIGN.md §4 C12',
    level_text=('Unbounded deductive proof that the real peephole_optimize and each real rewrite (drop, load_multiple, eliminate_drop, invoke, invoke_super, '
                'remove_dead_code, delimiter removal) return code that is equiv_prog to the input: same labels in order, same run() from the entry and from every label, '
                'for every start state of an abstract stack machine (Drop/DropN/Dup/Get*/Set* interpreted, everything else an uninterpreted deterministic step); '
                'line vectors stay in lock step and every emitted line is the line of the window it was rewritten from; termination and absence of index/overflow panics are proved too.'),
    level_note=('Trusted: Verus/Z3/vstd; axioms A-invoke (meaning of the fused Invoke/SuperInvoke forms) in prelude.rs; A-delim (compiler emits ArgumentDelimiter before Call(n>0)); '
                'A-raw (variables are a store separate from the operand stack); rewrites R1, R2 (slice-pattern match desugaring), R7, R10, R11, R13 with diffs in evidence.'),
  ),
  'C07': dict(
    engine='vx',
    technique='Verus function contracts on the real ChannelQueue code (abstract view Seq<Value>, wf invariant), discharged by Z3',
    design_ref='DESIGN.md §4 C07',
    level_text=('Unbounded deductive proof, for every queue state and argument, that the real ChannelQueue::send/receive/close/... '
                'meet sequential-specification contracts taken from the property: a value is appended exactly once iff the answer is Ok/FullBlock, '
                'receive returns the oldest buffered value exactly once (also after close), nothing is invented, len <= capacity is an invariant, '
                'Closed iff closed. Because fibers are coroutines each op execution is atomic, so histories reduce to sequences of these calls.'),
    level_note=('Trusted: Verus/Z3, vstd VecDeque specs, the stubs in vx/units/chanq/prelude.rs (Value, Ref<ChannelWaiter>::is_runnable, VecDeque::is_empty), '
                'rewrites R4/R7/R11 (diffs in evidence). Not decided: scheduler resumption of blocked senders (C08).'),
  ),
  'C14': dict(
    engine='kx',
    technique='Kani loop-free harnesses over all 2^64 (pairs: 2^128) number bit patterns on the real Value type, built twice (enum and nan_boxing)',
    design_ref='DESIGN.md §4 C14',
    level_text=('Complete (loop-free, full-domain symbolic) proofs on the real laythe_core::value::Value in both build configurations: every number round-trips bit for bit '
                'and is only a number; Value equality on numbers is IEEE equality for all pairs; equal values feed identical input to a Hasher; '
                'bool/nil/undefined round-trip and the kind predicates partition; falsiness is nil/false only.'),
    level_note=('Trusted: CBMC bit-precise float model, Kani. Assumes A-nan: numbers reaching a Value never have all QNAN tag bits set (hardware NaNs do not). '
                'Not decided: whole-program output equality between the two builds.'),
  ),
}


# ---- later additions to the texts above (applied as checked substitutions so that a stale sentence cannot survive silently) ----
def _patch(pid, field, old, new):
  v = CHECKS[pid][field]
  assert old in v, (pid, field, old[:50])
  CHECKS[pid][field] = v.replace(old, new)

_patch('C03', 'level_text', 'an undeclared property is a PropertyError (D9 found and fixed here).',
       'an undeclared property is a PropertyError (D9 found and fixed here). Class tables (klass unit): a declared field keeps its slot, slots are dense, a subclass starts with exactly its parent fields and methods, get_field_index/get_method are lookups; op_inherit accepts a class or a boxed class and raises otherwise; call_class puts a fresh instance in the callee slot and calls init with the same argument count (or checks zero arguments).')
_patch('C03', 'level_note', 'Not decided: class construction, inheritance tables, field numbering by the compiler.',
       'Not decided: field numbering by the compiler vs run-time Field order, meta classes, is_subclass (pointer recursion), the class-body handlers record WHICH table update they make (op_method adds the closure on top under the name constant to the class below it, op_static_method to its meta class, op_field the name); their effect on the tables is the klass contracts.')
_patch('C04', 'level_text', 'CheckHandler likewise (width 3).',
       'CheckHandler likewise (width 3). The run-time half: the six exception op handlers (ops unit); the real Fiber::stack_unwind resumes the innermost handler at its frame, catch offset and slot depth, and a nested interpreter run (native callback) only resumes handlers of frames it pushed itself, otherwise the error travels through the native (D17, a use after free on the pinned tree, found and fixed here); pause_unwind / finish_unwind / handler push and pop keep handler and frame stacks consistent; run_fun / run_method fix that boundary as the frame count before the callee frame.')
_patch('C04', 'level_note', 'Not decided: PopHandler emission on every exit path, Fiber::stack_unwind/finish_unwind, op_* handler semantics (ops unit pending), native-callback boundary.',
       'Not decided: PopHandler emission on every exit path (Compiler), the A-hist precondition of pause_unwind, the raw-pointer stores of stack_unwind (one stub).')
CHECKS['C04']['technique'] = 'Verus contracts on handler depth (apply_stack_effects), handler jump encoding (encode), the exception op handlers, the real Fiber handler search (stack_unwind, pause_unwind, finish_unwind) and the native-callback hooks; property-level depth obligation kept as a listed finding'
_patch('C06', 'level_text', 'and max_slots covers every simulated depth. ',
       'and max_slots covers every simulated depth; the glue function peephole_compile is verified against exactly these callee contracts (pipeline unit: every call-site precondition, slice bound and the final length assertion), with compiler-output shape assumed once by name at the composition point; 68 real op handlers are tied to the effect table entry of their opcode (O-06.7). ')
_patch('C12', 'level_text', 'termination and absence of index/overflow panics are proved too.',
       'termination and absence of index/overflow panics are proved too. The abstract machine meaning of Get/Set Local, Box, Capture is what the real handlers do (ops unit), and peephole_compile builds the function from the optimised program (pipeline unit).')
_patch('C15', 'level_text', 'D7 (u8 drop counter overflow) was found here and fixed.',
       'D7 (u8 drop counter overflow), D15 (u16 line overflow in emit_byte: a file of any length now compiles) and D16 (todo!() for more than 65535 labels in peephole_compile) were found here and fixed; peephole_compile itself is total under the named shape assumptions.')
_patch('C16', 'level_text', 'Only these handlers are decided.',
       'Calls: anything that is not callable raises; call / call_closure push no frame at or above MAX_FRAME_SIZE whatever the history (D12 fixed); call_native runs a native body only behind Native::check_if_valid_call, which admits exactly what the declared signature admits; op_inherit, chan(n) for every n (D14 fixed), exit() inside native callbacks (D18 fixed), string interpolation of values whose str() is not a string (D19 fixed) and errors leaving native callbacks (D17 fixed: memory safety) are decided.')
_patch('C16', 'level_text', 'For the ~45 real op handlers', 'For the 68 real op handlers')
_patch('C16', 'level_note', 'Not decided: native bodies and signature gate, call_native, resolve_call/call/call_closure and the frame limit, recursion through callbacks, errors while handling.',
       'Not decided: the ~150 native bodies themselves (that each assumes no more than its declared signature), the front end (C15), debug-only assert_roots accounting. One float lemma used by op_buffered_channel is discharged by a complete Kani harness over all f64.')
CHECKS['C16']['technique'] = 'Verus: internal_error / todo! have precondition false and every unchecked access has a precondition, so each covered real function is proved never to reach a host panic; contracts on the real call dispatcher, frame limit, native gate, handler search and native-callback hooks'
_patch('C18', 'level_text', 'Only this chain is decided.',
       'Compiler::emit_byte records the 1-based line of the node offset, saturated at 65535 (D15 fixed); during unwinding pause_unwind collects exactly one instruction pointer per frame, innermost first, down to the handler frame (what the traceback is printed from). Only this chain is decided.')
_patch('C18', 'level_note', 'Not decided: traceback/backtrace assembly from frames and saved ips, exit-status mapping, exit(n), Compiler::emit_byte.',
       'Not decided: the text of the traceback (frame_line strings), exit-status mapping in Vm::run, scanner line counting.')
_patch('C20', 'level_text', 'for strings/tuples up to 3 elements, boxes and methods, the handle reports',
       'for strings/tuples/instance blocks up to 3 elements, lists with spare capacity, boxes and methods, and the handles of the runtime vectors and arrays, the handle reports')
_patch('C10', 'level_text', 'two lists that never grew are equal as values exactly to themselves.',
       'two lists that never grew are equal as values exactly to themselves; pop, index assignment (quick), push, remove and insert (thorough) through a STALE alias of a relocated list act on the relocated list and leave the forwarding intact; RawSharedVector::trace follows forwarding (Verus, gctrace unit).')
_patch('C11', 'level_text', 'so a native body only runs on arguments of the declared kinds.',
       'and the real call_native runs a native body only after that gate accepted exactly the top-of-stack arguments, so a native body only runs on arguments of the declared kinds.')

CHECKS['C10']['engine'] = 'vx'
CHECKS['C10']['technique'] = 'Verus contracts on the real List operations over an explicit heap of list vectors threaded through the calls (R16), against a sequence model seen through ANY handle; Kani bounded harnesses on the real raw vector representation'
_patch('C10', 'level_text', 'Bounded checks only: a push beyond capacity',
       'Unbounded proof (Verus, listops unit) on the extracted real List::{push, pop, insert, remove, len, cap, state, ensure_capacity, grow} and RawSharedVector::{len, cap, is_empty}: after every operation EVERY handle of the list — the one used, any alias, stale handles of vectors the list has grown out of, the relocated vector itself — denotes the same new sequence, every other list is untouched, handles of one list stay handles of one list; growth allocates a fresh vector holding the same elements and forwards the old one to it; forwarding chains are finite. Bounded (Kani) on the real raw representation: a push beyond capacity')
_patch('C10', 'level_note', 'category other: bounded (one list, len 1 cap 1, one push).',
       'Trusted (A-listheap): the raw primitives of RawSharedVector (header reads and writes, element reads and writes through item_mut which follows forwarding, the memmove, the allocation of the grown copy) are stubs over the explicit heap; their real bodies are exercised by the bounded Kani harnesses (one list, lengths up to 3).')
CHECKS['C11']['engine'] = 'vx'
CHECKS['C11']['technique'] = 'Verus proof of the real List push / pop / insert / remove against the sequence model; Kani loop-free harness over every f64 for index normalisation; Verus proof of the native signature gate and of call_native'
_patch('C11', 'level_text', 'Bounded: real List::pop (quick), remove and insert (thorough) agree with the sequence model for lists up to 3 elements and every index 0..4, receiver unchanged on OutOfBounds.',
       'Unbounded (Verus, listops unit): the real List::pop / remove / insert / push agree with Seq::drop_last / remove / insert / push for every list, index and capacity (growth included); an empty pop is None, an index outside the list is OutOfBounds, and in both cases nothing changes. Bounded (Kani, raw representation): pop (quick), remove and insert (thorough) for lists up to 3 elements.')
_patch('C11', 'level_note', 'category other because most obligations are bounded.', 'The bounded harnesses exercise the raw primitives the Verus unit stubs.')

_patch('C05', 'level_text', 'Unbounded proof (Verus) on the extracted real functions:',
       'Unbounded proof (Verus) on the extracted real functions: the interpreter ROOT SET (impl TraceRoot for Vm) reaches every GC-typed field of the Vm struct — contract generated from the struct; this obligation failed on the pinned tree for `inline_cache` (D21: stale inline-cache hit after a collection, found and fixed) —;')
_patch('C05', 'level_note', 'NOT decided: root sets of Vm/Compiler/Fiber stack slices,', 'NOT decided: the root set of a running compilation (Compiler), Fiber stack slices beyond Fiber::trace,')
_patch('C13', 'level_note', 'and A-classid (no class address reuse while cached: the GC part of the property is NOT decided).', 'and A-classid (no class address reuse while cached): true since the caches are GC roots (fix ae3a806, D21; the obligation that the root set reaches the caches is checked under C05).')

_patch('C05', 'level_text', 'the interpreter ROOT SET (impl TraceRoot for Vm) reaches every GC-typed field of the Vm struct',
       'the interpreter ROOT SET (impl TraceRoot for Vm) and the root set of a running compilation (impl TraceRoot for Compiler, ClassAttributes) reach every GC-typed field of their structs')
_patch('C05', 'level_note', 'NOT decided: the root set of a running compilation (Compiler), Fiber stack slices beyond Fiber::trace,', 'Exempted fields, each with its alias reason listed as an assumption: Vm.builtin / global_module / current_fun, Compiler.chunk / root_trace (outermost compiler only: stated as an extra clause), ClassAttributes.name, Class.init. NOT decided:')

# ---- front-end units (parserd / resolverd / compilerd / catchd / scannerd) and print_error ---------------------------------------------
_patch('C15', 'level_text', 'Only the compiler back half is decided:',
       'Front end, stub-and-log extraction of the real functions: the scanner (scannerd unit: scan_token, string, number, identifier, instance_access, skip_white_space, line_offsets, match_char, character classes) makes progress — every token other than Eof reads at least one character and Eof only comes at the end of the text, every scanner loop terminates —, its interpolation stack never underflows, overflows or pops when empty, and a Number token always has the shape D+[.D+][(e|E)[+-]D+] that the compiler can parse; the parser keeps its loop depth balanced over every path of loop_ / function / lambda / fun_body and break / continue outside a loop are diagnostics, not panics (D23 fixed); the resolver visits every sub-expression of map / call / ternary / binary / unary / index and resolves a for loop in the order the compiler declares it (D24 fixed). Compiler back half:')
_patch('C15', 'level_note', 'Scanner, parser, resolver and Compiler totality and the REPL are NOT decided (unbounded AST, arena tables, unsafe parent pointers: outside both tools).',
       'NOT decided: the rest of the parser (recursive descent over the token stream, its recursion depth), the rest of the resolver and Compiler (arena tables, unsafe parent pointers), the scanner keyword trie and constructor, the REPL. In the front-end units everything the extracted functions call is a stub that leaves the bookkeeping state alone and appends to a ghost log (A-scanner / A-parser / A-resolver).')
CHECKS['C15']['technique'] = 'Verus panic-freedom, progress and termination obligations on the real scanner, on the parser loop-depth bookkeeping, on the resolver visitors, and on the real peephole pass, label resolution and encoder'
_patch('C18', 'level_text', 'Only this chain is decided.',
       'The scanner keeps the line table exact: line_offsets holds the position after every line break read so far, whichever path read it (white space, inside a string literal, the final drain), up to the first Error token of a string literal (scannerd unit). Fiber::print_error prints every frame collected for the error, innermost first, once (D22 fixed). Only this chain is decided.')
_patch('C18', 'level_note', 'exit-status mapping in Vm::run, scanner line counting.', 'exit-status mapping in Vm::run, exit(n). After an Error token inside a string literal (a line break right after a backslash or inside \\u{..}) the line table misses that break; only later diagnostics of the same failed compilation are affected (observation, DESIGN §11).')
CHECKS['C18']['technique'] = 'Verus contracts along the line-attribution chain: the scanner line table, LineOffsets::offset_line, Compiler::emit_byte, ByteCodeEncoder::encode (one line per byte), peephole lines lock-step, Chunk::get_line, pause_unwind / print_error'
_patch('C04', 'level_text', 'run_fun / run_method fix that boundary as the frame count before the callee frame.',
       'run_fun / run_method fix that boundary as the frame count before the callee frame; Vm::runtime_error builds the error through the same hooks (D20 fixed). The compiler half (compilerd / catchd units, stub-and-log extraction of the real Compiler::try_ / catch / return_ / break_ / continue_ / emit_return / loop_scope): a try block pushes one handler and pops it on its normal exit, every catch clause is compiled at the depth outside the try, and return / break / continue emit one PopHandler for every try block they leave (D25 fixed) and none for those they stay in.')
_patch('C04', 'level_note', 'Not decided: PopHandler emission on every exit path (Compiler), ', 'Not decided: that every statement is compiled at the try depth of its enclosing try blocks is the composition of the compilerd contracts over the AST (each step checked, the induction over the tree not), ')
_patch('C02', 'level_text', 'What is NOT decided is the larger half of the property:',
       'Front-end pieces (stub-and-log extraction): the run-time capture table (captures unit: Captures::get_capture / get_capture_value / set_capture_value read and write the cell itself, bit for bit, D19 fixed); Resolver::for_ resolves the iterable BEFORE the loop variables ($iter and the item variable, ONE variable for the whole loop) are declared, as the compiler evaluates it before declaring them (resolverd, D24 fixed); Compiler::catch declares the error variable in the catch scope (catchd). What is NOT decided is the larger half of the property:')

# ---- gcglue unit (C05 / C20 / C09) -------------------------------------------------------------------------------------------------------
_patch('C05', 'level_text', 'Bounded (Kani): the real dispatch per kind',
       'The allocator glue (gcglue unit, real Allocator::collect_garbage / collect_garbage_with_value / allocate / allocate_obj / manage / manage_obj / push_root / pop_roots over ghost heaps and an explicit mark set): a collection marks the context and EVERY temporary root before anything is swept, nothing owned and reachable from them is released, and an allocation that triggers a collection roots the object being allocated for exactly that collection, so it is owned afterwards. Bounded (Kani): the real dispatch per kind')
_patch('C05', 'level_note', 'NOT decided: natives', 'In the gcglue unit the three sweeps and tracing are stubs with stated contracts (A-gcglue; the sweep bodies are the bounded Kani harnesses), default feature set only (R3c). NOT decided: natives')
_patch('C20', 'level_text', 'Complete (all usize lengths):',
       'Unbounded (Verus, gcglue unit) on the real Allocator::collect_garbage / collect_garbage_with_value / sweep_obj_heap / allocate / allocate_obj over the stated contracts of the three sweeps: after a collection bytes_allocated is the sum of the sizes of what the three heaps still hold and next_gc is twice that; the boxed heap holds exactly its reachable part and, at least every 10th collection, so do both object generations (otherwise the old generation may stay); no mark is left on anything owned; between collections bytes_allocated is the sum of the sizes of everything allocated; an allocation adds the new object and nothing else. Complete (all usize lengths):')
_patch('C20', 'level_note', 'Trusted: CBMC/Kani memory model;', 'Trusted: the contracts of sweep_obj_full / sweep_obj_nursery / sweep_heap assumed by the gcglue unit (A-gcglue; their bodies are what the bounded Allocator harnesses run), bytes_allocated < usize::MAX / 2 (A-mem), default feature set (gc_stress and gc_log_* builds not extracted); CBMC/Kani memory model;')
CHECKS['C20']['technique'] = 'Verus contracts on the real allocator glue (accounting, threshold, exactly-the-reachable) over ghost heaps; Kani on the real laythe_core: loop-free full-domain harnesses for the layout arithmetic, bounded harnesses for allocate/size/release per kind and for the sweeps'
CHECKS['C20']['engine'] = 'vx'
_patch('C09', 'level_text', 'Interning twice / create-drop-collect-recreate follow from these contracts.',
       'Interning twice / create-drop-collect-recreate follow from these contracts. In the real collect_garbage the cache is swept after every root has been traced and before any sweep clears a mark, so it keeps exactly the entries whose string was reached (gcglue unit).')
for _e in ENGINES:
  if _e['name'] == 'vx':
    for _p in ('C02', 'C05', 'C10', 'C20'):
      if _p not in _e['serves_properties']: _e['serves_properties'].append(_p)
    _e['serves_properties'].sort()

# ---- propcomp / cachetrace units (C03 / C13 / C05) ---------------------------------------------------------------------------------------
_patch('C03', 'level_note', 'Not decided: field numbering by the compiler vs run-time Field order,', 'Decided for the compiler (propcomp unit, stub-and-log extraction of the real Compiler::assign / send / assign_binary / access / property_get / property_set / atom / apply_atom / apply_trailers): a fixed-slot GetProp / SetProp is emitted only when the receiver is self itself, the field is known to the class being compiled and that class has no explicit superclass; every other access goes by name (D26 found and fixed here: the write of `o.b += v`). Not decided: field numbering by the compiler vs run-time Field order,')
_patch('C13', 'level_note', 'and A-classid (no class address reuse while cached): true since the caches are GC roots', 'and A-classid (no class address reuse while cached): true since the caches are GC roots and InlineCache::trace reaches the class of every filled entry and every cached method (cachetrace unit)')

# ---- natargs / iterops (C16 / C11 / C06 / C01) ----------------------------------------------------------------------------------------------
_patch('C16', 'level_note', 'Not decided: the ~150 native bodies themselves (that each assumes no more than its declared signature),',
       'Native bodies: for 128 of the 131 natives of laythe_lib a GENERATED obligation says that the argument indexings and unwraps the body performs unconditionally are covered by what the gate admits for its own declared signature (natargs unit; D27 — List.collect / Tuple.collect / iter.zip / iter.chain cast Object-kind arguments to enumerators unchecked —, D28 print() and D29 isA? found and fixed). Not decided: unwraps reached only conditionally (dropped from the slice: they may be guarded), results of callbacks (print(A()) with a non-string str()), Sin / Cos / Rand (declared through another macro),')
_patch('C11', 'level_text', 'so a native body only runs on arguments of the declared kinds.', 'so a native body only runs on arguments of the declared kinds; and the unconditional argument unwraps of 128 native bodies are covered by their own declared signatures (natargs unit, generated).')

# ---- narrowc / parserd limits / importpath / iterops ------------------------------------------------------------------------------------------
_patch('C15', 'level_text', 'the parser keeps its loop depth balanced', 'an argument, item or parameter list that reaches its maximum is a diagnostic and its loop ends (parserd: fewer than 255 arguments / parameters, fewer than 65535 items), so the counts Compiler::call / list / tuple / map narrow to u8 / u16 are exact (narrowc unit); the parser keeps its loop depth balanced')
_patch('C18', 'level_text', 'Fiber::print_error prints every frame', 'A call expression ends at its own closing parenthesis (parserd: Parser::call), which is where the line of its Call instruction is looked up; Fiber::print_error looks each line up at the byte BEFORE the saved instruction pointer and prints every frame')
_patch('C12', 'level_note', 'A-delim', 'A-delim (discharged for Compiler::call in the narrowc unit: every argument is followed by its delimiter and Call(n) comes right after the last one)')
_patch('C06', 'level_text', '68 real op handlers are tied to the effect table entry of their opcode (O-06.7). ', '70 real op handlers are tied to the effect table entry of their opcode (O-06.7), among them both paths of IterNext / IterCurrent (iterops unit: exactly the two operand bytes are consumed); the count operands of Call / List / Tuple / Map are exactly the number of compiled arguments (narrowc unit). ')
_patch('C17', 'level_text', 'a loaded module enters the cache under its resolved path;', 'a loaded module enters the cache under its resolved path, which is every segment of the import path in order joined by "/" (importpath unit: the real Vm::full_import_path over character sequences);')
_patch('C17', 'level_note', 'path resolution (cache-key collisions),', 'path resolution beyond the cache key (the file-system lookup),')
_patch('C15', 'level_text', 'the parser keeps its loop depth balanced', 'the compiler limits are diagnostics (limitsc unit: make_constant / emit_constant / add_capture return an index that names exactly the constant or capture asked for, or record a diagnostic; the u8 capture counter cannot wrap); the parser keeps its loop depth balanced')
_patch('C18', 'level_text', 'Fiber::print_error looks each line up', 'e.backTrace (the real Fiber::error_backtrace / finish_unwind, iterator chain rewritten to its loop, R13c) has one line per frame from the raise down to the catching frame, innermost first, each computed from the ip pause_unwind saved, at the byte before it; Fiber::print_error looks each line up')
_patch('C18', 'level_note', 'Not decided: the text of the traceback (frame_line strings)', 'Not decided: the text of each line (frame_line / writeln! formatting: which frame, ip and code offset it is computed from IS decided)')
_patch('C02', 'level_text', 'Front-end pieces (stub-and-log extraction):', 'Name resolution (resolvevar unit, the real Resolver::resolve_variable / define_variable / begin_scope / end_scope and the real Symbol state machine, nested mutable borrows into the table stack as written): a name refers to the last symbol of that name in the innermost scope that declares it (shadowing), an initialised local read from a function nested in the one that declared it is marked captured and nothing else changes, a read in its own initialiser and an undeclared name are diagnostics. Compiler::add_capture returns the position of exactly the capture asked for or records a diagnostic (limitsc). Front-end pieces (stub-and-log extraction):')
_patch('C02', 'level_text', 'Compiler::add_capture returns the position', 'The compile half of an access (varcomp unit, real Compiler::variable_get / variable_set / resolve_local): the innermost local of the name, in its exact slot; a plain local by slot, a captured one through its box with the same slot for read and write, a variable of an enclosing function through the capture table, a module symbol by its module slot — under the resolver guarantees stated as a named precondition. Compiler::add_capture returns the position')
_patch('C18', 'level_text', 'Only this chain is decided.', 'Exit status (exitpath unit): the main fiber returning from its last frame is the Exit signal with the exit code untouched (Vm::pop_frame), and the status match of Vm::run maps Exit(n) to status n (Ok only for 0) and a runtime or compile error to a failing status. Only these chains are decided.')
_patch('C18', 'level_note', 'exit-status mapping in Vm::run, exit(n).', 'the Exit native narrowing its argument to u16 (exit(70000), exit(-1)), process::exit in main.rs.')
_patch('C11', 'level_text', 'and the unconditional argument unwraps of 128 native bodies', 'a Number argument narrowed to an index at the top level of a native body has passed an integrality test (generated I_ obligations; D31 list.insert / list.remove with a fractional or NaN index found and fixed); and the unconditional argument unwraps of 128 native bodies')
_patch('C06', 'level_text', 'among them both paths of IterNext / IterCurrent', 'among them Launch (launchops unit; D30 found and fixed: the result of a callee that completes at once stayed on the stack), Map, Return and both paths of IterNext / IterCurrent')
_patch('C03', 'level_note', 'Not decided: field numbering by the compiler vs run-time Field order,', 'Field numbering: the initialiser is compiled before the Field instructions and the methods after them (classc unit: Compiler::class), the Field instructions are emitted in the order find_known_field numbers the fields (fieldsc unit), op_field / add_field hand out slots in arrival order (ops, klass). Not decided:')
_patch('C02', 'level_text', 'Compiler::add_capture returns the position', 'Compiler::function (funcc unit) hands the captures the child compiler collected to the Closure instruction as one CaptureIndex operand each, in the child order, which is the order op_closure reads them in. Compiler::add_capture returns the position')
_patch('C06', 'level_note', 'A-shape', 'A-shape (discharged at the source for while / if: compilerd unit, Compiler::while_ and Compiler::if_ emit every label they jump to exactly once, exit jumps forward, Loop backward)')
_patch('C01', 'level_text', 'Unbounded proof', 'The compile scheme of the control flow and operators (compilerd / forc / funcc units, stub-and-log extraction of the real Compiler::binary / unary / ternary / if_ / while_ / for_ / function): operands in source order with the instruction of their operator, and / or jumping forward over the right operand, exactly one ternary or if branch, while and for loops with the condition (the iterator step) at the start label, a forward exit and a backward Loop, an expression-bodied function returning its value. Unbounded proof')
_patch('C20', 'level_text', 'Complete (all usize lengths):', 'The native-call boundary keeps the temporary-root stack at its entry height on every path, including natives that fail through a `?` past their own pop_roots (ncall unit, Vm::call_native / release_native_roots; D34 found and fixed: such natives leaked roots without bound). Complete (all usize lengths):')
_patch('C13', 'level_note', 'A-slot', 'A-slot (the part "the cache of module m is at index m.id()" is now an obligation: cacheidx unit, D35 found and fixed)')
_patch('C01', 'level_text', 'Unbounded proof', 'Operator precedence and associativity (prattloop / prattops units): the real Parser::parse_precedence keeps the Pratt invariant (at binding power p one prefix action, then infix actions only for operators binding at least as tightly as p, each applied to the expression built so far, returning exactly when the next token binds more loosely; assignable only from the loosest level), and the real binary / and / or / unary / ternary / expr / prefix / infix hand it the right level: a binary operator parses its right operand exactly one level tighter (left associative), and / or at their own level or one tighter, a prefix operator at Unary, ternary branches as whole expressions; each builds the node its token spells. The order of the levels is generated from the declaration of enum Precedence, the binding power AND the parse action of each token are what the Kani table harnesses prove (loop-free over all 69 token kinds: Parser::binary is reached exactly for the ten binary operator tokens, Parser::unary exactly for -, ! and <-). Unbounded proof')
_patch('C01', 'level_note', 'Not decided: parser, compiler lowering, call protocol.', 'Not decided: the statement and primary-expression parsers, termination of the Pratt loop, scope-exit drops, call protocol.')
_patch('C01', 'level_text', 'Unbounded proof', 'Calls (calls unit, the real Vm::op_call / resolve_call / call / call_closure / check_arity): a callee that does not accept the argument count raises the runtime error and pushes no frame, an accepted call pushes exactly one frame of that function with its captures and argument count, recursion beyond the frame limit is a catchable runtime error, a value that is not callable raises. Unbounded proof')
_patch('C01', 'level_note', 'scope-exit drops, call protocol.', 'scope-exit drops, the frame layout behind push_frame / pop_frame.')
_patch('C01', 'level_text', 'Unbounded proof', 'Block scopes (scopec unit, the real Compiler::scope / begin_scope / end_scope / drop_locals / drop_local_count / push_local / declare_local_variable / define_local_variable / declare_variable / define_variable / let_): a let is declare, initialiser (nil without one), define, in that order, a stack local only below module level; a declared local is exactly one new entry at the current depth (its slot is the old local count; a captured one gets its box), and leaving a block emits one Drop for every local the block declared, no more and no fewer, removes exactly those entries and pops the block table, so a block leaves the locals of its surroundings as they were. Unbounded proof')
_patch('C01', 'level_note', 'scope-exit drops, the frame layout', 'module-level declarations (declare_module_variable / define_module_variable are stubs), the frame layout')
_patch('C16', 'level_note', 'Native bodies: for 128 of the 131 natives', 'The kind test of the gate itself (sigkind unit: the real ParameterKind::is_valid admits exactly the values of the declared kind, Enumerator included). Native bodies: for 128 of the 131 natives')
_patch('C07', 'level_text', 'Unbounded deductive proof,', 'A launched fiber starts with exactly the callee slot and the arguments of the call it was split from, in order (splitcopy unit: the stack-filling statements of the real Fiber::split; D38 found and fixed: slot 0 was the function, so launching a bound method or a class with an initialiser panicked the host). Unbounded deductive proof,')
_patch('C01', 'level_text', 'Unbounded proof', 'Implicit returns (parserblk / parserd units, the real Parser::block / expr_stmt / method / function / lambda / fun_body): the statements of a block are parsed in the mode the block was given, a nested block hands the enclosing mode back, every function, lambda and method body (static or not) may end in an implicit return except an initialiser, and an expression without a semicolon is one exactly where allowed; an explicit return (parserret unit, the real Parser::return_) carries the expression after the keyword, none for `return;`, and is refused outside functions and, with a value, in an initialiser; an if statement is condition, block and, only after `else`, the next block or a whole if statement (Parser::if_); an assignment operator after a target builds the assignment / send / compound assignment its token spells with the one whole expression after it (parserasg unit, Parser::assign); while and for statements take condition / loop variable, iterable and body in source order (parserloop unit, the closure bodies of Parser::while_ / for_); a let has the value parsed after `=` and none without one (Parser::let_). Unbounded proof')
_patch('C11', 'level_text', 'so a native body only runs on arguments of the declared kinds', 'the length of a string is the number of its characters, not of its bytes, and s[i] is the one-character string of the i-th character (negative i from the end; fractional, NaN, infinite and out-of-range indices raise) (strlen unit: the real bodies of String.len and of string indexing); so a native body only runs on arguments of the declared kinds')
_patch('C04', 'level_text', 'The compiler half (compilerd / catchd units', 'The parser half (parsertry unit, the real Parser::try_block): the protected block and every catch clause in source order with its variable, its class filter only where one is written, and its block; at least one catch. The compiler half (compilerd / catchd units')
