#!/usr/bin/env python3
"""writes seeded/<id>/meta.json from the table below (what each seeded change breaks, what it needs, what was run, which
check catches it).  The table is filled in by hand from the runs recorded in DESIGN.md §11."""
import json, os
HERE = os.path.dirname(os.path.abspath(__file__))
T = {
 # id: (property, needs, caught_by (None = not caught), note)
 'c07-1': ('C07', 'close() while the buffer is non-empty, then a send before the buffer drains', 'chanq/ChannelQueue::send/post', ''),
 'c07-2': ('C07', 'receive on an empty buffered channel while two producers are parked (eager Option::or pops and forgets a waiter)', 'ops/Vm::op_receive/post (waiter conservation `woken`)', 'caught after the ops unit gained op_send/op_receive contracts'),
 'c07-3': ('C07', 'receiver parked on a buffered channel that is then closed while empty', 'chanq/ChannelQueue::runnable_waiter/post', 'caught after runnable_waiter got soundness+completeness clauses'),
 'c12-1': ('C12', 'SetCapture(i);Drop;GetBox(i) window (mixed kinds with equal index)', 'peephole/peephole_optimize/pre (eliminate_drop window precondition)', ''),
 'c12-2': ('C12', 'a run of more than 255 Drop instructions', 'peephole/drop/invariant', ''),
 'c12-3': ('C12', 'SetCapture(a);Drop;GetCapture(b), a != b, after an earlier shortening rewrite in the same function', 'peephole/peephole_optimize/assert+invariant', ''),
 'c14-1': ('C14', 'enum build: -0.0 as a map key in a map with more than 112 entries', 'kani:value/o14_4_num_eq_hash', 'counterexample replayed natively'),
 'c14-2': ('C14', 'nan_boxing build: two NaNs with identical bits', 'kani:value[nan_boxing]/o14_3_num_eq_ieee', 'counterexample replayed natively'),
 'c14-3': ('C14', 'nan_boxing build: -0.0 (or a signalling NaN) passed through Value::from', 'kani:value[nan_boxing]/o14_1_num_roundtrip', 'counterexample replayed natively'),
 'c06-1': ('C06', 'super.m(arg) followed by a try/catch with a local in the same method', 'peephole/SymbolicByteCode::stack_effect/post', ''),
 'c06-2': ('C06', 'a function whose operand depth reaches 256 (max_slot truncated to u8)', 'peephole/FunBuilder::build/post', 'caught after FunBuilder::build / Fun::max_slots came under contract'),
 'c06-3': ('C06', 'a try body of more than 64 KiB of bytecode (PushHandler distance not range-checked)', 'bytecode/ByteCodeEncoder::encode/pre (lemma_encode_step: jump_emitted)', ''),
 'c06-4': ('C06', 'more than 256 constants and a jump spanning a ConstantLong', 'peephole+bytecode/SymbolicByteCode::len/post', ''),
 'c18-1': ('C18', 'an instruction emitted at a node offset that is exactly a line start', 'lines/Compiler::emit_byte/post', 'caught after Compiler::emit_byte was extracted into the lines unit'),
 'c18-2': ('C18', 'a multi-line string literal earlier in the file (scanner stops counting newlines inside literals)', None, 'scanner.rs is outside reach (str/char iteration): NOT decided'),
 'c18-3': ('C18', 'zero-argument method call used directly as an argument (invoke() swallows the trailing ArgumentDelimiter on one cursor)', 'peephole/invoke/assert (lockstep)', ''),
 'c18-4': ('C18', 'inner typed catch declines, outer frame catches (backtrace skip/take swapped in Fiber::pause_unwind)', 'unwind/Fiber::pause_unwind/post', 'missed until the unwind unit (Fiber::stack_unwind / pause_unwind under contract) was built'),
 'c01-1': ('C01', 'a NaN operand of >=', 'ops/Vm::op_greater_equal/post', ''),
 'c01-2': ('C01', '<= on two equal strings', 'ops/Vm::op_less_equal/post', ''),
 'c01-3': ('C01', '!= mixed with == or a comparison in one unparenthesised expression', 'kani:front/o01_p_infix_table', 'caught after the parser_verif hook + front harness; counterexample = token kind index'),
 'c01-4': ('C01', 'native method with defaulted parameters called with exactly one argument too many', 'native/Native::check_if_valid_call/post', 'caught after the native unit was added'),
 'c03-1': ('C03', 'un-fused super access (super.m(args) / super.m as a value) from a class two levels above the receiver', 'ops/Vm::op_get_super/post', 'first run was UNDECIDED (stub lacked ClassRef::super_class); caught after the stub API was completed'),
 'c03-2': ('C03', 'callable field invoked twice from one site with different callables', 'ops/Vm::op_invoke/post (coherent)', ''),
 'c03-3': ('C03', 'subclass init re-assigns an inherited field and adds a new one (Class::add_field renumbers)', 'klass/Class::add_field/post', 'missed until the klass unit (class tables over abstract maps, the technique used for Module and the intern table) was built'),
 'c03-4': ('C03', 'chained read self.a.x inside a class without explicit parent (compiler apply_trailers)', None, 'Compiler is outside reach: NOT decided'),
 'c04-1': ('C04', 'an earlier catch clause declines and a later clause of the same try matches', 'ops/Vm::op_check_handler/post', 'missed on the first run only because registry.py did not list the ops unit under C04'),
 'c04-2': ('C04', 'user error hierarchy two or more levels deep', 'ops/Vm::op_check_handler/post', 'first run UNDECIDED (ClassRef ==, Option::map_or unsupported in the stub model); caught after stub completion'),
 'c04-3': ('C04', 'loop nested inside a try executes continue (extra PopHandler)', None, 'Compiler::continue_ is outside reach: NOT decided'),
 'c04-4': ('C04', 'error raised in a callback run by native code with the try in the native\'s caller', 'unwind/Fiber::stack_unwind/post', 'missed until the unwind unit was built; building it exposed that the PINNED code already had this defect for stack-less natives (D17, fixed 71ddc0d); patch.diff is the seed rebased onto the fixed tree, the original is patch.before-fix-71ddc0d.diff'),
 'c13-1': ('C13', 'property site sees class A, then B, then B again with the field at different indices', 'ops/InlineCache::set_property_cache/post', 'first run UNDECIDED (get_unchecked_mut in a new place); caught after the R6 unchecked-index rewrite was generalised'),
 'c13-2': ('C13', 'callable field invoked twice from one site with different callables', 'ops/Vm::op_invoke/post', ''),
 'c13-3': ('C13', 'class factory applied twice in one inheritance chain (super site keyed by receiver class)', 'ops/Vm::op_super_invoke/post', ''),
 'c13-4': ('C13', 'invoke site sees a base-class instance first, then an overriding subclass', 'ops/InlineCache::get_invoke_cache/post', ''),
 'c20-1': ('C20', 'a full sweep that retains an already promoted object', 'kani:gc/o20_4p_promoted_then_full_exact', 'caught after the promoted-then-full harness was added'),
 'c20-2': ('C20', 'a live list with len != cap (ObjectHandle::size from len)', 'kani:heap/o20_1_alloc_drop_list', 'caught after the list alloc/drop harness was added'),
 'c20-3': ('C20', 'an Instance being freed (dealloc with ObjHeader layout)', 'kani:heap/o20_1_alloc_drop_instance_block', 'missed while the harness built a real Class (hashbrown: CBMC out of memory); caught after the instance block was built class-free (the header only stores the class pointer)'),
 'c20-4': ('C20', 'a unique vector with spare capacity (size from len)', 'kani:heap/o20_3_unique_vector_handle', 'caught after the handle harness + RawUniqueVectorHandle re-export were added'),
 # ---- third wave -------------------------------------------------------------------------------------------------------
 'c17-1': ('C17', 'selected-symbol import from a module with a private declaration before the exported one', 'module/Module::get_exported_symbol_by_name/post', 'first run UNDECIDED (exact-text R4 rewrite, ModClass stub lacked get_field_index); caught after R4g (generic Option-combinator rewrite) and the stub method'),
 'c17-2': ('C17', 'a write to the first undeclared module slot (slot == len)', 'module/Module::set_symbol_by_slot/post+pre', ''),
 'c17-3': ('C17', 'a private name imported by name from a module that is already cached', 'imports/Vm::op_import_symbol/post', 'missed by the first run (op_import_symbol not under contract); caught after the imports unit'),
 'c17-4': ('C17', 'two modules whose paths differ only in the package segment', None, 'full_import_path (string building) is outside reach: NOT decided'),
 'c10-1': ('C10', 'clear()/pop through a stale alias of a list that grew', 'kani:coll/o10_stale_pop', 'missed by the first run (harnesses only used un-forwarded lists); caught after the allocator-free forwarded-list constructor and the stale-alias harnesses'),
 'c10-2': ('C10', 'insert through a stale alias (forwarding pointer clobbered / list splits)', 'kani:coll/o10_stale_insert (thorough)', 'caught after the stale-alias harnesses'),
 'c10-3': ('C11', 'remove(0) on an empty list', 'kani:coll/o11_remove (thorough; counterexample replayed natively)', ''),
 'c10-4': ('C11', 'a NaN or infinite list index', 'kani:lib/o11_list_determine_index (counterexample replayed natively)', 'missed by the first run (only the tuple variant was harnessed); caught after the list variant was added'),
 'c10-5': ('C10', 'index assignment through a stale alias', 'kani:coll/o10_stale_index_set', 'caught after the stale-alias harnesses'),
 'c05-1': ('C05', 'a threshold collection triggered by a non-object allocation (the in-flight value is not rooted)', 'kani:gc/o05_5_inflight_alloc_survives (added; see DESIGN.md §12)', 'missed by the first run'),
 'c05-2': ('C09', 'a promoted live string, a nursery collection, then the same characters rebuilt', 'kani:gc/o09_intern_promoted_survives_nursery (thorough tier, bounded, about 17 min)', 'missed by the quick tier (the call ORDER inside the sweeps is not under a Verus contract); caught by the bounded harness added for it: two nursery collections of one rooted string'),
 'c05-3': ('C05', 'a captured local whose only reference is the stack slot holding the box', 'gctrace/Trace for ObjectRef::trace/post and kani:trace/o05_2_dispatch_lybox', ''),
 'c05-4': ('C05', 'an instance that is the only reference to its class', 'gctrace/Trace for Array::trace/post', 'missed by the first run (per-kind trace bodies were not decided); caught after the gctrace unit'),
 'c05-5': ('C05', 'a fiber blocked on a receive during a collection', 'gctrace/Trace for ChannelQueue::trace/post', 'missed by the first run; caught after the gctrace unit (generated contract: every GC-typed field is traced)'),
 'c15-1': ('C15', 'a run of 256 or more Drop instructions', 'peephole/drop/overflow', ''),
 'c15-2': ('C15', 'a try body of more than 65535 bytes', 'bytecode/ByteCodeEncoder::encode/pre', ''),
 'c15-3': ('C15', 'the token `1e` (scientific notation without digits)', None, 'scanner.rs is outside reach: NOT decided'),
 'c15-4': ('C15', 'a map-literal key that is the sole reference to an enclosing local', None, 'resolver.rs is outside reach: NOT decided'),
 'c16-1': ('C16', 'a default-arity native method called with exactly max+1 arguments', 'native/Native::check_if_valid_call/post', ''),
 'c16-2': ('C16', 'a closure call at exactly 255 live frames', 'calls/Vm::call_closure/post', 'the original patch (== to >) no longer applies after fix ebf4d1a (D12, found while processing this wave); patch.diff is the same change rebased (>= to >), the original is kept as patch.before-fix-ebf4d1a.diff'),
 'c16-3': ('C16', 'class declared inside a function inheriting from a boxed non-class', 'calls/Vm::op_inherit/pre (to_obj / to_class preconditions)', 'missed by the first run (op_inherit not under contract); caught after it was added'),
 # ---- fourth wave ------------------------------------------------------------------------------------------------------
 'c02-1': ('C02', 'a variable reached through two or more function levels and written after the inner closure was created (op_closure copies the parent capture into a fresh box)', 'ops/Vm::op_closure/invariant', 'first run UNDECIDED (exact-text rewrite of the Enclosing arm); caught after the capture / box rewrites were made generic'),
 'c02-2': ('C02', 'a captured local read by its declaring function while it holds nil', 'ops/Vm::op_get_box/post', 'first run UNDECIDED (exact-text rewrite of the comparison); caught after the rewrite took any VALUE_ constant'),
 'c02-3': ('C02', 'a write of -0 over 0 (or the reverse) through a capture', 'captures/Captures::set_capture_value/post', 'missed until the captures unit (captures.rs accessors) was built'),
 'c02-4': ('C02', 'a function with two or more parameters where a non-last one is captured (op_box boxes the stack top)', 'ops/Vm::op_box/post', 'first run UNDECIDED (one exact-text rewrite of three statements); caught after the rewrite was decomposed'),
 'c02-5': ('C02', 'a = ..; directly followed by a load of a different captured variable', 'peephole/peephole_optimize/pre (C12)', 'the C02 check does not see it (peephole is not part of the C02 claim); the C12 check does'),
 'c02-6': ('C02', 'a closure capturing a catch variable', None, 'Compiler::catch is outside reach: NOT decided'),
 'c04b-1': ('C04', 'an error is caught and the fiber later blocks on a channel (finish_unwind leaves the fiber Unwinding)', 'unwind/Fiber::finish_unwind/post', ''),
 'c04b-2': ('C04', 'an earlier catch clause does not match and a later one does', 'ops/Vm::op_check_handler/post', ''),
 'c04b-3': ('C04', 'an error leaves a native callback on a launched fiber (to_call_result reads the main fiber error)', 'hooks/Vm::to_call_result/post', 'first run UNDECIDED (model Vm had no main_fiber field) and then not reported (the function was tagged C16 only); caught after both were corrected'),
 'c04b-4': ('C04', 'return <expr> inside a try where evaluating <expr> raises', None, 'Compiler::return_ is outside reach: NOT decided'),
 'c04b-5': ('C04', 'an error offered to a non-matching try in a callee frame, then caught in a shallower frame (pause_unwind without skip)', 'unwind/Fiber::pause_unwind/assert', 'first run UNDECIDED (the rewrite knew only the skip+take and take+skip chains); caught after one-adaptor and no-adaptor chains were added'),
 'c16-4': ('C16', 'max(1, 7, "3"): a native whose declared parameter kind is weaker than what its body unwraps', None, 'the ~150 native bodies are not under contract (only the gate in front of them): NOT decided'),
}
for sid, (prop, needs, caught, note) in T.items():
  d = os.path.join(HERE, 'seeded', sid)
  if not os.path.isdir(d): continue
  demo = [f for f in os.listdir(d) if f.startswith('demo')]
  meta = {'id': sid, 'breaks_property': prop, 'needs_to_manifest': needs, 'patch': 'patch.diff', 'demonstration': demo,
          'confirmed': 'patch applied to /repo (git apply), bin/check %s run, patch reverted (git checkout -- .); the sub-agent confirmed the demo fails with / passes without the patch and that the pinned suite still passes (592/597, the 5 baseline failures) — see notes.txt' % prop,
          'caught_by': caught, 'detected': caught is not None, 'note': note}
  json.dump(meta, open(os.path.join(d, 'meta.json'), 'w'), indent=1)
print('meta written for', len(T))
