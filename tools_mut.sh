#!/bin/bash
# dev helper: apply a sed expression to a file in a scratch copy of /repo and run one vx unit on it
# usage: tools_mut.sh <unit> <relative file> <sed expr>
set -e
S=/root/scratch/repo
rsync -a --delete --exclude target --exclude .git /repo/ $S/
sed -i "$3" $S/$2
if diff -q /repo/$2 $S/$2 >/dev/null; then echo "MUTATION DID NOT APPLY"; exit 3; fi
cd /verif && VERIF_REPO=$S python3 vx/engine.py $1 2>&1 | grep -v "^$" | cut -c1-220 | head -${MUT_LINES:-6}
