// ---- trusted model of the resolver around Resolver::for_ (A-resolver): every callee is a stub that LOGS what it was asked to do ----------
#[derive(Clone, Copy, PartialEq, Eq, Structural)]
pub enum TokenKind { Identifier }
pub enum Lexeme { Slice(&'static str) }
pub const ITER_VAR: &'static str = "$iter";
/// a token: identity only
pub struct Token { pub id: int }
impl Token {
  #[verifier::external_body] pub fn new(kind: TokenKind, lexeme: Lexeme, start: u32, end: u32) -> (r: Token) ensures r.id == hidden_iter_token() { unimplemented!() }
}
pub uninterp spec fn hidden_iter_token() -> int;
pub struct SymbolTable { pub p: usize }
pub struct Expr { pub id: int }
impl Expr {
  #[verifier::external_body] pub fn start(&self) -> u32 { 0 }
  #[verifier::external_body] pub fn end(&self) -> u32 { 0 }
}
pub struct Block { pub id: int, pub symbols: SymbolTable }
pub struct For { pub symbols: SymbolTable, pub item: Token, pub iter: Expr, pub body: Block }
pub struct While { pub cond: Expr, pub body: Block }
pub enum Ev { Begin, End, Declare(int), Define(int), ResolveExpr(int), ResolveBlock(int), ResolveAtom(int) }
pub struct Resolver { pub log: Ghost<Seq<Ev>> }
pub struct ScopeBody { }
impl ScopeBody { #[verifier::external_body] pub fn verif_run(self, r: &mut Resolver) { } }
impl Resolver {
  #[verifier::external_body] pub fn begin_scope(&mut self) ensures final(self).log@ == old(self).log@.push(Ev::Begin) { }
  #[verifier::external_body] pub fn end_scope(&mut self) -> (r: SymbolTable) ensures final(self).log@ == old(self).log@.push(Ev::End) { SymbolTable { p: 0 } }
  #[verifier::external_body] pub fn declare_variable(&mut self, t: &Token) ensures final(self).log@ == old(self).log@.push(Ev::Declare(t.id)) { }
  #[verifier::external_body] pub fn define_variable(&mut self, t: &Token) ensures final(self).log@ == old(self).log@.push(Ev::Define(t.id)) { }
  #[verifier::external_body] pub fn expr(&mut self, e: &Expr) ensures final(self).log@ == old(self).log@.push(Ev::ResolveExpr(e.id)) { }
  #[verifier::external_body] pub fn atom(&mut self, a: &Atom) ensures final(self).log@ == old(self).log@.push(Ev::ResolveAtom(a.id)) { }
  #[verifier::external_body] pub fn block(&mut self, b: &Block) ensures final(self).log@ == old(self).log@.push(Ev::ResolveBlock(b.id)) { }
}

pub struct Map { pub entries: Vec<(Expr, Expr)> }
pub struct Call { pub args: Vec<Expr> }
pub struct Ternary { pub cond: Expr, pub then: Expr, pub else_: Expr }
pub struct Binary { pub lhs: Expr, pub rhs: Expr }
pub struct Unary { pub expr: Expr }
pub struct Index { pub index: Expr }
pub struct Atom { pub id: int }
pub struct Assign { pub lhs: Atom, pub rhs: Expr }
pub struct Send { pub lhs: Atom, pub rhs: Expr }
pub struct AssignBinary { pub lhs: Atom, pub rhs: Expr }
pub struct Launch { pub closure: Expr }
pub struct Return { pub value: Option<Expr> }
pub struct Raise { pub error: Expr }
pub enum Else { If(Box<If>), Block(Block) }
pub struct If { pub cond: Expr, pub body: Block, pub else_: Option<Else> }
/// what resolving an if statement logs: condition, then the body in a scope of its own, then the else part likewise
pub open spec fn if_evs(i: If) -> Seq<Ev> decreases i {
  seq![Ev::ResolveExpr(i.cond.id), Ev::Begin, Ev::ResolveBlock(i.body.id), Ev::End]
    + (match i.else_ { None => Seq::<Ev>::empty(), Some(Else::Block(b)) => seq![Ev::Begin, Ev::ResolveBlock(b.id), Ev::End], Some(Else::If(n)) => if_evs(*n) })
}
pub struct Collection { pub items: Vec<Expr> }
pub enum StringSegments { Token(int), Expr(Expr) }
pub struct Interpolation { pub segments: Vec<StringSegments> }
pub struct Channel { pub expr: Option<Expr> }
/// the expressions among the first n segments of an interpolated string, in order
pub open spec fn seg_evs(s: Seq<StringSegments>, n: int) -> Seq<Ev> decreases n {
  if n <= 0 { Seq::<Ev>::empty() } else { seg_evs(s, n - 1) + (match s[n - 1] { StringSegments::Expr(e) => seq![Ev::ResolveExpr(e.id)], _ => Seq::<Ev>::empty() }) }
}
