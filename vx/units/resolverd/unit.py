"""C02 / C15: the resolver's treatment of a for loop (Resolver::for_, with Resolver::scope inlined per its definition):
the iterable is resolved BEFORE the loop's own variables are declared, as the compiler evaluates it before declaring them."""
UNIT = dict(
  name='resolverd',
  properties=['C02', 'C15'],
  items=[('laythe_vm/src/compiler/resolver.rs', [("impl<'a, 'src> Resolver<'a, 'src>", ['scope', 'for_', 'while_', 'map', 'call', 'ternary', 'binary', 'unary', 'index', 'assign', 'send', 'assign_binary', 'launch', 'return_', 'raise', 'if_', 'collection', 'interpolation', 'channel'])])],
  rewrites=[
    ('R5', 'kind:implhdr', dict(pat=r"^impl<'a, 'src> Resolver<'a, 'src> \{", rep='impl Resolver {', regex=True, count=1)),
    ('R5', 'Resolver::*', dict(pat=r"<'src>", rep='', regex=True, optional=True)),
    ('R5', 'Resolver::*', dict(pat='ast::', rep='', optional=True)),
    ('R7', 'Resolver::*', dict(pat=r'^(\s*(?:///?[^\n]*\n\s*)*)fn ', rep=r'\1pub fn ', regex=True, optional=True)),
    # Resolver::scope itself: the callback takes `&mut Self`; it is kept only so that the engine can CHECK its definition is the
    # three statements R17 inlines (contract: external, see contracts.vrs)
    ('R4', 'Resolver::scope', dict(pat='pub fn scope(&mut self, cb: impl FnOnce(&mut Self)) -> SymbolTable {\n    self.begin_scope();\n    cb(self);\n    self.end_scope()\n  }',
                                   rep='pub fn scope(&mut self, cb: ScopeBody) -> SymbolTable {\n    self.begin_scope();\n    cb.verif_run(self);\n    self.end_scope()\n  }', count=1)),
    ('R17', 'Resolver::for_'), ('R17', 'Resolver::while_'), ('R17', 'Resolver::if_'), ('R17', 'Resolver::if_'),
    # the resolver annotates the AST in place (`&mut`); the model's stubs only log the node's identity and take `&`
    ('R6', 'Resolver::*', dict(pat=r'self\.(expr|block|atom)\(&mut ', rep=r'self.\1(&', regex=True, optional=True)),
    ('R6', 'Resolver::return_', dict(pat='if let Some(v) = &mut return_.value {', rep='if let Some(v) = &return_.value {', count=1)),
    ('R6', 'Resolver::if_', dict(pat='if let Some(else_) = &mut if_.else_ {', rep='if let Some(else_) = &mut if_.else_ {', count=1)),
    # R13: loops over the children of a node -> index loops
    ('R13', 'Resolver::map', dict(pat=r'for \((\w+), (\w+)\) in map\.entries\.iter_mut\(\) \{', rep=r'let mut verif_i: usize = 0;\n    while verif_i < map.entries.len() {\n      let \1 = &map.entries[verif_i].0;\n      let \2 = &map.entries[verif_i].1;', regex=True, count=1)),
    ('R13', 'Resolver::map', dict(pat=r'(self\.expr\(value\);\s*)\}', rep=r'\1  verif_i += 1;\n    }', regex=True, optional=True)),
    ('R13', 'Resolver::call', dict(pat=r'for (\w+) in &mut call\.args \{', rep=r'let mut verif_i: usize = 0;\n    while verif_i < call.args.len() {\n      let \1 = &call.args[verif_i];', regex=True, count=1)),
    ('R13', 'Resolver::call', dict(pat=r'(self\.expr\(expr\);\s*)\}', rep=r'\1  verif_i += 1;\n    }', regex=True, count=1)),
    ('R13', 'Resolver::collection', dict(pat=r'for (\w+) in list\.items\.iter_mut\(\) \{', rep=r'let mut verif_i: usize = 0;\n    while verif_i < list.items.len() {\n      let \1 = &list.items[verif_i];', regex=True, count=1)),
    ('R13', 'Resolver::collection', dict(pat=r'(self\.expr\(item\);\s*)\}', rep=r'\1  verif_i += 1;\n    }', regex=True, count=1)),
    ('R13', 'Resolver::interpolation', dict(pat=r'for (\w+) in interpolation\.segments\.iter_mut\(\) \{', rep=r'let mut verif_i: usize = 0;\n    while verif_i < interpolation.segments.len() {\n      let \1 = &interpolation.segments[verif_i];', regex=True, count=1)),
    ('R13', 'Resolver::interpolation', dict(pat=r'(?s)(let segment = &interpolation\.segments\[verif_i\];.*?)(\n    \})', rep=r'\1\n      verif_i += 1;\2', regex=True, count=1)),
    ('R6', 'Resolver::channel', dict(pat='if let Some(expr) = &mut channel.expr {', rep='if let Some(expr) = &channel.expr {', count=1)),
  ],
  assumption_ids=['A-resolver'],
)
