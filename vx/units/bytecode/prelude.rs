// ---- trusted base of the bytecode unit (A-enc) ---------------------------------------------------------------
/// codespan Diagnostic<VmFileId> — opaque
#[verifier::external_body]
pub struct Diag { _p: u8 }

#[verifier::external_body]
pub fn verif_diag() -> Diag { Diag { _p: 0 } }

/// Rc<RefCell<CacheIdEmitter>> — the encoder only draws fresh ids from it
#[verifier::external_body]
pub struct CacheIdRc { _p: u8 }
impl CacheIdRc {
  #[verifier::external_body]
  pub fn emit_invoke(&mut self) -> u32 { 0 }
  #[verifier::external_body]
  pub fn emit_property(&mut self) -> u32 { 0 }
}

pub uninterp spec fn byte_of(b: ByteCode) -> u8;
pub uninterp spec fn u16_ne(x: u16) -> Seq<u8>;
pub uninterp spec fn u32_ne(x: u32) -> Seq<u8>;
pub uninterp spec fn capture_ne(x: CaptureIndex) -> Seq<u8>;

impl ByteCode {
  /// real body: `unsafe { mem::transmute(self) }` on a fieldless enum (one byte)
  #[verifier::external_body]
  fn to_byte(self) -> (r: u8) ensures r == byte_of(self) { unsafe { std::mem::transmute(self) } }
}

/// u16::to_ne_bytes — two bytes
#[verifier::external_body]
pub fn verif_u16_ne_bytes(x: u16) -> (r: [u8; 2]) ensures r@ == u16_ne(x), r@.len() == 2 { x.to_ne_bytes() }
/// u32::to_ne_bytes — four bytes
#[verifier::external_body]
pub fn verif_u32_ne_bytes(x: u32) -> (r: [u8; 4]) ensures r@ == u32_ne(x), r@.len() == 4 { x.to_ne_bytes() }
/// transmute::<CaptureIndex, u16>(..).to_ne_bytes() — two bytes
#[verifier::external_body]
pub fn verif_capture_bytes(x: CaptureIndex) -> (r: [u8; 2]) ensures r@ == capture_ne(x), r@.len() == 2 { [0, 0] }
