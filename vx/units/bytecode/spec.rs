// =====================================================================================================
// bytecode unit — specification of the encoder (C06 jumps land on instruction boundaries, C18 one line per byte)
// =====================================================================================================
impl ByteCodeEncoder {
  pub open spec fn wf(&self) -> bool { self.encoded_lines@.len() == self.encoded_code@.len() }
}

/// `n` is `o` with exactly `cnt` more bytes, every one of them attributed to `line`; diagnostics only accumulate
pub open spec fn emitted(o: &ByteCodeEncoder, n: &ByteCodeEncoder, cnt: int, line: u16) -> bool {
  &&& n.encoded_code@.len() == o.encoded_code@.len() + cnt
  &&& n.encoded_code@.subrange(0, o.encoded_code@.len() as int) =~= o.encoded_code@
  &&& n.encoded_lines@ =~= o.encoded_lines@ + Seq::new(cnt as nat, |j: int| line)
  &&& n.errors@.len() >= o.errors@.len()
}

/// the two operand bytes at `off` past the old end encode `jump`; a distance that does not fit is diagnosed
pub open spec fn jump_emitted(o: &ByteCodeEncoder, n: &ByteCodeEncoder, off: int, jump: int) -> bool {
  &&& n.encoded_code@.subrange(o.encoded_code@.len() + off, o.encoded_code@.len() + off + 2) =~= u16_ne(jump as u16)
  &&& (jump > 65535 ==> n.errors@.len() > 0)
}

pub open spec fn jump_target(i: SymbolicByteCode) -> Option<Label> {
  match i {
    SymbolicByteCode::And(l) | SymbolicByteCode::Or(l) | SymbolicByteCode::JumpIfFalse(l) | SymbolicByteCode::Jump(l)
    | SymbolicByteCode::CheckHandler(l) | SymbolicByteCode::Loop(l) => Some(l),
    SymbolicByteCode::PushHandler(p) => Some(p.1),
    _ => None,
  }
}

/// where the interpreter's ip stands after it has read the jump operand of instruction k
pub open spec fn after_operand(code: Seq<SymbolicByteCode>, k: int) -> int { prefix_len(code, k) + enc_len(code[k]) }

/// the distance the encoder must write for instruction k (backwards for Loop)
pub open spec fn jump_dist(code: Seq<SymbolicByteCode>, lo: Seq<usize>, k: int) -> int {
  match jump_target(code[k]) {
    Some(l) => if code[k] is Loop { after_operand(code, k) - lo[l.0 as int] } else { lo[l.0 as int] - after_operand(code, k) },
    None => 0,
  }
}

/// offset of the jump operand inside the instruction (PushHandler carries the depth operand first)
pub open spec fn operand_off(i: SymbolicByteCode) -> int { if i is PushHandler { 3 } else { 1 } }

/// A-shape, as the encoder needs it: targets are in the table, forward jumps point forward, loops backward
pub open spec fn jumps_shaped(code: Seq<SymbolicByteCode>, lo: Seq<usize>) -> bool {
  forall|k: int| 0 <= k < code.len() ==> (#[trigger] jump_target(code[k]) matches Some(l) ==>
    (l.0 as int) < lo.len() && jump_dist(code, lo, k) >= 0 && (code[k] is Loop ==> lo[l.0 as int] <= prefix_len(code, k)))
}

pub open spec fn lines_ok_upto(enc_lines: Seq<u16>, code: Seq<SymbolicByteCode>, lines: Seq<u16>, i: int) -> bool {
  forall|k: int, b: int| 0 <= k < i && prefix_len(code, k) <= b < prefix_len(code, k + 1) ==> #[trigger] enc_lines[b] == #[trigger] lines[k]
}

pub open spec fn jumps_ok_upto(enc: Seq<u8>, errs: int, code: Seq<SymbolicByteCode>, lo: Seq<usize>, i: int) -> bool {
  forall|k: int| 0 <= k < i ==> (#[trigger] jump_target(code[k]) is Some ==> {
    let at = prefix_len(code, k) + operand_off(code[k]);
    &&& enc.subrange(at, at + 2) =~= u16_ne(jump_dist(code, lo, k) as u16)
    &&& (errs == 0 ==> jump_dist(code, lo, k) <= 65535)
  })
}

pub proof fn lemma_encode_step(e0: &ByteCodeEncoder, e1: &ByteCodeEncoder, code: Seq<SymbolicByteCode>, lines: Seq<u16>, lo: Seq<usize>, i: int)
  requires
    0 <= i < code.len(), i < lines.len(),
    e0.encoded_code@.len() == prefix_len(code, i), e0.wf(),
    lines_ok_upto(e0.encoded_lines@, code, lines, i),
    jumps_ok_upto(e0.encoded_code@, e0.errors@.len() as int, code, lo, i),
    emitted(e0, e1, enc_len(code[i]), lines[i]),
    jump_target(code[i]) is Some ==> jump_emitted(e0, e1, operand_off(code[i]), jump_dist(code, lo, i)),
  ensures
    e1.encoded_code@.len() == prefix_len(code, i + 1), e1.wf(),
    lines_ok_upto(e1.encoded_lines@, code, lines, i + 1),
    jumps_ok_upto(e1.encoded_code@, e1.errors@.len() as int, code, lo, i + 1),
{
  let n0 = e0.encoded_code@.len() as int;
  assert forall|k: int, b: int| 0 <= k < i + 1 && prefix_len(code, k) <= b < prefix_len(code, k + 1) implies #[trigger] e1.encoded_lines@[b] == #[trigger] lines[k] by {
    lemma_prefix_len_bound(code, k);
    if k < i {
      lemma_prefix_len_mono(code, k + 1, i);
      assert(e0.encoded_lines@[b] == lines[k]);
    }
  }
  assert forall|k: int| 0 <= k < i + 1 implies (#[trigger] jump_target(code[k]) is Some ==> {
    let at = prefix_len(code, k) + operand_off(code[k]);
    &&& e1.encoded_code@.subrange(at, at + 2) =~= u16_ne(jump_dist(code, lo, k) as u16)
    &&& (e1.errors@.len() == 0 ==> jump_dist(code, lo, k) <= 65535)
  }) by {
    if k < i && jump_target(code[k]) is Some {
      lemma_prefix_len_mono(code, k + 1, i);
      let at = prefix_len(code, k) + operand_off(code[k]);
      lemma_prefix_len_bound(code, k);
      assert(enc_len(code[k]) >= operand_off(code[k]) + 2);
      assert(prefix_len(code, k + 1) == prefix_len(code, k) + enc_len(code[k]));
      assert(at + 2 <= prefix_len(code, k + 1));
      assert(prefix_len(code, k + 1) <= n0);
      assert(e1.encoded_code@.subrange(at, at + 2) =~= e0.encoded_code@.subrange(at, at + 2)) by {
        assert(e1.encoded_code@.subrange(0, n0)[at] == e0.encoded_code@[at]);
        assert(e1.encoded_code@.subrange(0, n0)[at + 1] == e0.encoded_code@[at + 1]);
      }
    }
  }
}

/// O-06.4: with the label table computed by compute_label_offsets, every encoded jump lands exactly on the
/// first byte of the instruction that follows its label, i.e. on an instruction boundary inside the function
pub proof fn lemma_jump_lands_on_boundary(code: Seq<SymbolicByteCode>, lo: Seq<usize>, k: int, pos: int)
  requires
    0 <= k < code.len(), 0 <= pos < code.len(),
    jump_target(code[k]) matches Some(l) && code[pos] == SymbolicByteCode::Label(l) && lo[l.0 as int] == prefix_len(code, pos),
    jump_dist(code, lo, k) >= 0,
  ensures
    // ip after reading the operand, moved by the encoded distance (subtracted for Loop), is the label's offset
    (if code[k] is Loop { after_operand(code, k) - jump_dist(code, lo, k) } else { after_operand(code, k) + jump_dist(code, lo, k) }) == prefix_len(code, pos),
    0 <= prefix_len(code, pos) <= prefix_len(code, code.len() as int),
{
  lemma_prefix_len_bound(code, pos);
  lemma_prefix_len_mono(code, pos, code.len() as int);
}
