"""C01 / C07 (small expression forms as compiled): Compiler::{channel, index, emit_known_invoke, true_, false_, nil}, extracted as they are.
`chan(n)` compiles n and then BufferedChannel, `chan()` is Channel; `a[i]` compiles i and then invokes the method named "[]" with one argument
(Invoke + its cache slot); the three literals are their own instructions.  expr / identifier_constant / emit_byte are stubs that log."""
UNIT = dict(
  name='literalc',
  properties=['C01', 'C07'],
  items=[
    ('laythe_vm/src/byte_code.rs', ['struct Label', 'enum CaptureIndex', 'enum SymbolicByteCode']),
    ('laythe_vm/src/compiler/mod.rs', [("impl<'a, 'src: 'a> Compiler<'a, 'src>", ['channel', 'index', 'emit_known_invoke', 'true_', 'false_', 'nil'])]),
  ],
  rewrites=[
    ('R7f', 'struct Label'),
    ('R11', 'struct Label', dict(drop=['Debug', 'Default', 'VariantCount'], add=['Structural'])),
    ('R11', 'enum CaptureIndex', dict(drop=['Debug', 'Default', 'VariantCount'], add=['Structural'])),
    ('R11', 'enum SymbolicByteCode', dict(drop=['Debug', 'Default', 'VariantCount'], add=['Structural'])),
    ('R11', 'enum SymbolicByteCode', dict(pat='  #[default]\n', rep='', count=1)),
    ('R11', 'enum SymbolicByteCode', dict(pat='  #[allow(dead_code)]\n', rep='', count=1)),
    ('R5', 'kind:implhdr', dict(pat=r"impl<'a, 'src: 'a> Compiler<'a, 'src> \{", rep='impl Compiler {', regex=True, optional=True)),
    ('R5', 'Compiler::*', dict(pat=r"&'a ast::(\w+)<'src>", rep=r'&\1', regex=True, optional=True)),
    ('R7', 'Compiler::*', dict(pat=r'^(\s*(?:///?[^\n]*\n\s*)*)fn ', rep=r'\1pub fn ', regex=True, optional=True)),
  ],
  assumption_ids=['A-compiler'],
)
