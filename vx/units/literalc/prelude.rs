// ---- trusted model (A-compiler): every other compiler method is a stub that logs --------------------------------------------------------------
pub const INDEX_GET: &'static str = "[]";
pub struct Token { pub id: int }
impl Token { #[verifier::external_body] pub fn end(&self) -> u32 { 0 } }
pub struct Expr { pub id: int }
pub struct Channel { pub expr: Option<Expr> }
impl Channel { #[verifier::external_body] pub fn end(&self) -> u32 { 0 } }
pub struct Index { pub index: Expr }
impl Index { #[verifier::external_body] pub fn end(&self) -> u32 { 0 } }
pub uninterp spec fn name_const(name: Seq<char>) -> u16;
pub enum Ev { Emit(SymbolicByteCode), Expr(int), Const(Seq<char>) }
pub struct Compiler { pub log: Ghost<Seq<Ev>> }
impl Compiler {
  #[verifier::external_body] pub fn emit_byte(&mut self, op: SymbolicByteCode, offset: u32) ensures final(self).log@ == old(self).log@.push(Ev::Emit(op)) { }
  #[verifier::external_body] pub fn expr(&mut self, e: &Expr) ensures final(self).log@ == old(self).log@.push(Ev::Expr(e.id)) { }
  #[verifier::external_body] pub fn identifier_constant(&mut self, name: &str) -> (r: u16)
    ensures final(self).log@ == old(self).log@.push(Ev::Const(name@)), r == name_const(name@) { 0 }
}
