// ---- the intended code for a property access ------------------------------------------------------------------------------------------------
pub open spec fn by_name(name: int, get: bool) -> Seq<Ev> {
  seq![Ev::Const(name), Ev::Emit(if get { SymbolicByteCode::GetPropByName(const_of(name)) } else { SymbolicByteCode::SetPropByName(const_of(name)) }), Ev::Emit(SymbolicByteCode::PropertySlot)]
}
/// a fixed slot needs: a class (the receiver is self), a field that class is known to have, and no explicit superclass (whose fields come first)
pub open spec fn prop_evs(fields: Seq<int>, name: int, cls: Option<ClassRef>, get: bool) -> Seq<Ev> {
  if cls is Some && !cls.unwrap().has_explicit_super_class && known(fields, name) is Some {
    seq![Ev::Emit(if get { SymbolicByteCode::GetProp(known(fields, name).unwrap() as u16) } else { SymbolicByteCode::SetProp(known(fields, name).unwrap() as u16) })]
  } else { by_name(name, get) }
}
/// C03 / C13: the class is only handed over when the receiver IS self
pub open spec fn cls_if(attrs: Option<ClassRef>, on_self: bool) -> Option<ClassRef> { if on_self { attrs } else { None } }
pub open spec fn one_trailer(fields: Seq<int>, attrs: Option<ClassRef>, t: Trailer, on_self: bool) -> Seq<Ev> {
  match t {
    Trailer::Call(call) => seq![Ev::Call(call.id)],
    Trailer::Index(ix) => seq![Ev::Index(ix.id)],
    Trailer::Access(a) => prop_evs(fields, a.prop.id, cls_if(attrs, on_self), true),
  }
}
/// the first n trailers applied to a primary: only the FIRST one can have self as its receiver
pub open spec fn trailer_evs(fields: Seq<int>, attrs: Option<ClassRef>, first_self: bool, ts: Seq<Trailer>, n: int) -> Seq<Ev> decreases n {
  if n <= 0 { Seq::<Ev>::empty() } else { trailer_evs(fields, attrs, first_self, ts, n - 1) + one_trailer(fields, attrs, ts[n - 1], first_self && n == 1) }
}
pub open spec fn atom_evs(fields: Seq<int>, attrs: Option<ClassRef>, p: &Primary, ts: Seq<Trailer>) -> Seq<Ev> {
  seq![Ev::Primary(p.pid())] + trailer_evs(fields, attrs, p.is_self_spec(), ts, ts.len() as int)
}
/// an assignment target as the parser builds it: a variable, `@x`, or something ending in an index or an access
pub open spec fn target_ok(a: &Atom) -> bool {
  if a.trailers@.len() == 0 { a.primary is Ident || a.primary is InstanceAccess } else { !(a.trailers@[a.trailers@.len() - 1] is Call) }
}
pub open spec fn record_evs(kind: FunKind, name: int, on_self: bool) -> Seq<Ev> { if on_self && kind == FunKind::Initializer { seq![Ev::RecordField(name)] } else { Seq::<Ev>::empty() } }
pub open spec fn fields_after(fields: Seq<int>, kind: FunKind, name: int, on_self: bool) -> Seq<int> {
  if on_self && kind == FunKind::Initializer && !fields.contains(name) { fields.push(name) } else { fields }
}
