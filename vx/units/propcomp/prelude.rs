// ---- trusted model of the AST and of the compiler around property access (A-compiler): every other method is a stub that logs ----------------
pub uninterp spec fn name_id(s: &str) -> int;
pub uninterp spec fn const_of(name: int) -> u16;
pub const INDEX_GET: &'static str = "[]";
pub const INDEX_SET: &'static str = "[]=";
pub struct Token { pub id: int }
impl Token {
  #[verifier::external_body] pub fn str(&self) -> (r: &str) ensures name_id(r) == self.id { "" }
  #[verifier::external_body] pub fn end(&self) -> u32 { 0 }
}
pub struct Expr { pub id: int }
impl Expr { #[verifier::external_body] pub fn start(&self) -> u32 { 0 } #[verifier::external_body] pub fn end(&self) -> u32 { 0 } }
pub struct Call { pub id: int }
pub struct Index { pub id: int, pub index: Expr }
impl Index { #[verifier::external_body] pub fn end(&self) -> u32 { 0 } }
pub struct Access { pub prop: Token }
impl Access { #[verifier::external_body] pub fn end(&self) -> u32 { 0 } }
pub enum Trailer { Call(Call), Index(Index), Access(Access) }
pub struct InstanceAccess { pub id: int, pub prop: int }
impl InstanceAccess {
  #[verifier::external_body] pub fn property(&self) -> (r: &str) ensures name_id(r) == self.prop { "" }
  #[verifier::external_body] pub fn end(&self) -> u32 { 0 }
}
/// the sixteen primaries: only what the extracted functions distinguish
pub enum Primary { Ident(Token), InstanceAccess(InstanceAccess), Self_(Token), Other(int) }
impl Primary {
  pub open spec fn is_self_spec(&self) -> bool { self is Self_ }
  /// matches!(*self, Self::Self_(_))
  #[verifier::external_body] pub fn is_self(&self) -> (r: bool) ensures r == self.is_self_spec() { true }
  pub uninterp spec fn pid(&self) -> int;
}
pub struct Atom { pub primary: Primary, pub trailers: Vec<Trailer> }
impl Atom { #[verifier::external_body] pub fn end(&self) -> u32 { 0 } }
pub struct Assign { pub lhs: Atom, pub rhs: Expr }
pub struct Send { pub lhs: Atom, pub rhs: Expr }
#[derive(Clone, Copy, PartialEq, Eq, Structural)]
pub enum AssignBinaryOp { Add, Sub, Mul, Div }
pub struct AssignBinary { pub lhs: Atom, pub op: AssignBinaryOp, pub rhs: Expr }
#[verifier::external_body] pub fn verif_last(t: &[Trailer]) -> (r: Option<&Trailer>)
  ensures t@.len() == 0 ==> r is None, t@.len() > 0 ==> r == Some(&t@[t@.len() - 1]) { None }
#[verifier::external_body] pub fn verif_init(t: &[Trailer]) -> (r: &[Trailer])
  requires t@.len() > 0 ensures r@ == t@.drop_last() { t }
/// unreachable!(..): never reached
#[verifier::external_body] pub fn verif_unreachable() requires false { }

/// Ref<ClassAttributes> as far as these functions look at it
#[derive(Clone, Copy)]
pub struct ClassRef { pub id: int, pub has_explicit_super_class: bool }
/// what the compiler was asked to do, in order
pub enum Ev { Emit(SymbolicByteCode), Expr(int), Primary(int), Call(int), Index(int), Const(int), RecordField(int), VarGet(int), VarSet(int), SelfAccess(int), KnownInvoke(int, u8) }
pub struct Compiler {
  pub class_attributes: Option<ClassRef>,
  pub fun_kind: FunKind,
  /// the fields recorded so far for the class being compiled (ClassAttributes.fields behind the Ref)
  pub fields: Ghost<Seq<int>>,
  pub log: Ghost<Seq<Ev>>,
}
pub open spec fn quiet(o: &Compiler, n: &Compiler) -> bool { n.class_attributes == o.class_attributes && n.fun_kind == o.fun_kind && n.fields == o.fields }
pub open spec fn known(fields: Seq<int>, name: int) -> Option<usize> {
  if fields.contains(name) { Some(fields.index_of(name) as usize) } else { None }
}
impl Compiler {
  #[verifier::external_body] pub fn emit_byte(&mut self, op: SymbolicByteCode, offset: u32) ensures quiet(old(self), final(self)), final(self).log@ == old(self).log@.push(Ev::Emit(op)) { }
  #[verifier::external_body] pub fn expr(&mut self, e: &Expr) ensures quiet(old(self), final(self)), final(self).log@ == old(self).log@.push(Ev::Expr(e.id)) { }
  /// compiles the primary; answers whether it is `self`
  #[verifier::external_body] pub fn primary(&mut self, p: &Primary) -> (r: bool) ensures quiet(old(self), final(self)), r == p.is_self_spec(), final(self).log@ == old(self).log@.push(Ev::Primary(p.pid())) { true }
  #[verifier::external_body] pub fn call(&mut self, c: &Call) ensures quiet(old(self), final(self)), final(self).log@ == old(self).log@.push(Ev::Call(c.id)) { }
  #[verifier::external_body] pub fn index(&mut self, i: &Index) ensures quiet(old(self), final(self)), final(self).log@ == old(self).log@.push(Ev::Index(i.id)) { }
  #[verifier::external_body] pub fn identifier_constant(&mut self, name: &str) -> (r: u16) ensures quiet(old(self), final(self)), r == const_of(name_id(name)), final(self).log@ == old(self).log@.push(Ev::Const(name_id(name))) { 0 }
  #[verifier::external_body] pub fn emit_known_invoke(&mut self, name: &str, args: u8, offset: u32) ensures quiet(old(self), final(self)), final(self).log@ == old(self).log@.push(Ev::KnownInvoke(name_id(name), args)) { }
  #[verifier::external_body] pub fn variable_get(&mut self, name: &Token) ensures quiet(old(self), final(self)), final(self).log@ == old(self).log@.push(Ev::VarGet(name.id)) { }
  #[verifier::external_body] pub fn variable_set(&mut self, name: &Token) ensures quiet(old(self), final(self)), final(self).log@ == old(self).log@.push(Ev::VarSet(name.id)) { }
  /// `@x`: loads self
  #[verifier::external_body] pub fn instance_access_self(&mut self, ia: &InstanceAccess) -> (r: bool) ensures quiet(old(self), final(self)), final(self).log@ == old(self).log@.push(Ev::SelfAccess(ia.id)) { true }
  /// a field first assigned in the initialiser is added to the class being compiled
  #[verifier::external_body] pub fn record_field(&mut self, field: &str)
    requires old(self).class_attributes is Some
    ensures final(self).class_attributes == old(self).class_attributes, final(self).fun_kind == old(self).fun_kind,
      final(self).fields@ == (if old(self).fields@.contains(name_id(field)) { old(self).fields@ } else { old(self).fields@.push(name_id(field)) }),
      final(self).log@ == old(self).log@.push(Ev::RecordField(name_id(field))) { }
  /// class.fields.iter().position(|f| f == field)
  #[verifier::external_body] pub fn find_known_field(&mut self, field: &str, class: ClassRef) -> (r: Option<usize>)
    ensures *final(self) == *old(self), r == known(old(self).fields@, name_id(field)) { None }
}
