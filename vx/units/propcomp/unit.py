"""C03 / C13: which property accesses the compiler turns into FIXED-SLOT instructions (GetProp(n) / SetProp(n), no name lookup, no class check
at run time).  A fixed slot is only sound when the receiver is `self` itself (the atom `self` with the access as its only trailer, or `@x`), the
field is known to the class being compiled and that class has no explicit superclass.  Real text: Compiler::{assign, send, assign_binary, access,
property_get, property_set, atom, apply_atom, apply_trailers}; everything they call is a stub that logs (stub-and-log extraction, DESIGN 10.10);
the contract of each is the exact logged sequence, in which the class handed to property_get / property_set is `class_attributes` exactly when
the receiver is self."""
_M = ['assign', 'send', 'assign_binary', 'access', 'property_get', 'property_set', 'atom', 'apply_atom', 'apply_trailers']
UNIT = dict(
  name='propcomp',
  properties=['C03', 'C13'],
  items=[
    ('laythe_vm/src/byte_code.rs', ['struct Label', 'enum CaptureIndex', 'enum SymbolicByteCode']),
    ('laythe_core/src/object/fun.rs', ['enum FunKind']),
    ('laythe_vm/src/compiler/mod.rs', [("impl<'a, 'src: 'a> Compiler<'a, 'src>", _M)]),
  ],
  rewrites=[
    ('R7f', 'struct Label'),
    ('R11', 'struct Label', dict(drop=['Debug', 'Default', 'VariantCount'], add=['Structural'])),
    ('R11', 'enum CaptureIndex', dict(drop=['Debug', 'Default', 'VariantCount'], add=['Structural'])),
    ('R11', 'enum SymbolicByteCode', dict(drop=['Debug', 'Default', 'VariantCount'], add=['Structural'])),
    ('R11', 'enum SymbolicByteCode', dict(pat='  #[default]\n', rep='', count=1)),
    ('R11', 'enum SymbolicByteCode', dict(pat='  #[allow(dead_code)]\n', rep='', count=1)),
    ('R11', 'enum FunKind', dict(drop=['Debug'], add=['Structural'])),
    ('R5', 'kind:implhdr', dict(pat=r"impl<'a, 'src: 'a> Compiler<'a, 'src> \{", rep='impl Compiler {', regex=True, optional=True)),
    ('R5', 'Compiler::*', dict(pat=r"&'a ast::(\w+)<'src>", rep=r'&\1', regex=True, optional=True)),
    ('R5', 'Compiler::*', dict(pat=r"&ast::(\w+)\b(?!<)", rep=r'&\1', regex=True, optional=True)),
    ('R5', 'Compiler::*', dict(pat=r"&'a \[Trailer<'src>\]", rep='&[Trailer]', regex=True, optional=True)),
    ('R5', 'Compiler::*', dict(pat=r"ast::AssignBinaryOp::", rep='AssignBinaryOp::', regex=True, optional=True)),
    ('R5', 'Compiler::*', dict(pat=r"Option<Ref<ClassAttributes>>", rep='Option<ClassRef>', regex=True, optional=True)),
    ('R7', 'Compiler::*', dict(pat=r'^(\s*(?:///?[^\n]*\n\s*)*)fn ', rep=r'\1pub fn ', regex=True, optional=True)),
    # R6: slice views of the trailer vector
    ('R6', 'Compiler::*', dict(pat=r'let trailers = &\*(\w+)\.lhs\.trailers;', rep=r'let trailers = \1.lhs.trailers.as_slice();', regex=True, optional=True)),
    ('R6', 'Compiler::*', dict(pat=r'match trailers\.last\(\) \{', rep='match verif_last(trailers) {', regex=True, optional=True)),
    ('R6', 'Compiler::*', dict(pat=r'&trailers\[\.\.trailers\.len\(\) - 1\]', rep='verif_init(trailers)', regex=True, optional=True)),
    ('R6', 'Compiler::assign_binary', dict(pat=r'&atom\.trailers\[\.\.atom\.trailers\.len\(\) - 1\]', rep='verif_init(atom.trailers.as_slice())', regex=True, optional=True)),
    ('R6', 'Compiler::atom', dict(pat='&atom.trailers', rep='atom.trailers.as_slice()', count=1)),
    # R3: parser-guaranteed shapes of an assignment target: the messages are dropped, the unreachable arms stay obligations
    ('R3', 'Compiler::*', dict(pat=r'unreachable!\("[^"]*"\)', rep='verif_unreachable()', regex=True, optional=True)),
    ('R13', 'Compiler::apply_trailers', dict(pat=r'for trailer in trailers\.iter\(\) \{', rep='let mut verif_i: usize = 0;\n    while verif_i < trailers.len() {\n      let trailer = &trailers[verif_i];', regex=True, count=1)),
    ('R13', 'Compiler::apply_trailers', dict(pat=r'\s*\}\s*\}\s*$', rep=';\n      verif_i += 1;\n    }\n  }\n', regex=True, count=1)),
  ],
  assumption_ids=['A-compiler'],
)
