"""C04: exception-handler bookkeeping of the compiler: every way of LEAVING try blocks (return, break, continue) pops exactly the handlers of the
try blocks it leaves; a try block compiles its body one level deeper; a loop remembers the try depth it started at.
Compiler::{try_depth, emit_return, return_, continue_, break_, loop_scope, try_} with every other compiler method a stub that LOGS what it is
asked to emit / compile (and at which try depth)."""
UNIT = dict(
  name='compilerd',
  properties=['C04'],
  prelude_files=['prelude.rs', 'prelude_catch_stub.rs', 'prelude_stmt_stub.rs'],
  items=[
    ('laythe_vm/src/byte_code.rs', ['struct Label', ('impl Label', ['new', 'val']), 'enum CaptureIndex', 'enum SymbolicByteCode']),
    ('laythe_core/src/object/fun.rs', ['enum FunKind']),
    ('laythe_vm/src/compiler/ir/ast.rs', ['enum BinaryOp', 'enum UnaryOp']),
    ('laythe_vm/src/compiler/ir/symbol_table.rs', ['enum SymbolState']),
    ('laythe_vm/src/compiler/mod.rs', ['struct TryAttributes', 'struct LoopAttributes',
       ("impl<'a, 'src: 'a> Compiler<'a, 'src>", ['child', 'try_depth', 'emit_return', 'return_', 'continue_', 'break_', 'loop_scope', 'try_', 'while_', 'if_', 'binary', 'unary', 'ternary', 'stmt'])]),
  ],
  rewrites=[
    ('R7f', 'struct Label'), ('R7f', 'struct TryAttributes'), ('R7f', 'struct LoopAttributes'),
    ('R11', 'struct Label', dict(drop=['Debug', 'Default', 'VariantCount'], add=['Structural'])),
    ('R11', 'enum CaptureIndex', dict(drop=['Debug', 'Default', 'VariantCount'], add=['Structural'])),
    ('R11', 'enum SymbolicByteCode', dict(drop=['Debug', 'Default', 'VariantCount'], add=['Structural'])),
    ('R11', 'enum SymbolicByteCode', dict(pat='  #[default]\n', rep='', count=1)),
    ('R11', 'enum SymbolicByteCode', dict(pat='  #[allow(dead_code)]\n', rep='', count=1)),
    ('R11', 'enum FunKind', dict(drop=['Debug'], add=['Structural'])),
    ('R11', 'enum SymbolState', dict(drop=['Debug', 'Default'], add=['Structural'])),
    ('R11', 'enum SymbolState', dict(pat='  #[default]\n', rep='', count=1)),
    ('R11', 'struct TryAttributes', dict(drop=['Debug'])), ('R11', 'struct LoopAttributes', dict(drop=['Debug'])),
    ('R5', 'kind:implhdr', dict(pat=r"impl<'a, 'src: 'a> Compiler<'a, 'src> \{", rep='impl Compiler {', regex=True, optional=True)),
    ('R5', 'Compiler::*', dict(pat=r"&'a ast::(\w+)<'src>", rep=r'&\1', regex=True, optional=True)),
    ('R5', 'Compiler::*', dict(pat=r"&'a SymbolTable<'src>", rep='&SymbolTable', regex=True, optional=True)),
    ('R7', 'Compiler::*', dict(pat=r'^(\s*(?:///?[^\n]*\n\s*)*)fn ', rep=r'\1pub fn ', regex=True, optional=True)),
    # Compiler::child: the constructor of the compiler of a nested function. R3c: default features; R5: lifetimes; R10l: the struct literal is
    # projected onto the fields the model keeps (the bookkeeping under contract), the lets that only feed dropped fields go with them
    ('R3c', 'Compiler::child', dict(features=[])),
    ('R5', 'Compiler::child', dict(pat=r"fn child<'b>\(", rep='fn child(', regex=True, count=1)),
    ('R5', 'Compiler::child', dict(pat=r"Compiler<'b, 'src>", rep='Compiler', regex=True, count=2)),
    ('R10l', 'Compiler::child', dict(name='Compiler', keep=['try_attributes', 'loop_attributes', 'scope_depth', 'fun_kind', 'label_emitter'], extra='log: Ghost(Seq::empty()),')),
    # loop_scope: the callback takes `&mut Self`
    ('R4', 'Compiler::loop_scope', dict(pat='cb: impl FnOnce(&mut Self),', rep='cb: BodyCb,', count=1)),
    ('R4', 'Compiler::loop_scope', dict(pat='self.scope(end_line, table, cb);', rep='self.begin_scope(table);\n    cb.verif_run(self);\n    self.end_scope(end_line);', count=1)),
    ('R17', 'Compiler::try_'),
    ('R5', 'Compiler::stmt', dict(pat=r"&'a Stmt<'src>", rep='&Stmt', regex=True, count=1)),
    ('R5', 'Compiler::*', dict(pat=r'ast::(BinaryOp|UnaryOp)::', rep=r'\1::', regex=True, optional=True)),
    # while_ / if_ (C01 / C06: jumps and labels): the loop body callback is the BodyCb the real loop_scope runs; the two scopes of if_ are inlined
    ('R4', 'Compiler::while_', dict(pat=r'\|self_\| \{\s*self_\.block\(&while_\.body\);\s*\},', rep='BodyCb { },', regex=True, count=1)),
    ('R5', 'Compiler::if_', dict(pat='ast::Else::', rep='Else::', optional=True)),
    ('R17', 'Compiler::if_', dict(pat=r'Else::Block\(block\) => (self\.scope\(block\.end\(\), &block\.symbols, \|self_\| \{\s*self_\.block\(block\);\s*\}\)),', rep=r'Else::Block(block) => { \1; },', regex=True, count=1)),
    ('R17', 'Compiler::if_'),
    ('R13r', 'Compiler::emit_return'), ('R13r', 'Compiler::return_'), ('R13r', 'Compiler::continue_'), ('R13r', 'Compiler::break_'),
    ('R6', 'Compiler::continue_', dict(pat=r'let loop_attributes = self\s*\.loop_attributes\s*\.expect\("[^"]*"\);', rep='let loop_attributes = self.loop_attributes.unwrap();', regex=True, count=1)),
    ('R6', 'Compiler::break_', dict(pat=r'let loop_attributes = self\s*\.loop_attributes\s*\.expect\("[^"]*"\);', rep='let loop_attributes = self.loop_attributes.unwrap();', regex=True, count=1)),
    ('R6', 'Compiler::try_', dict(pat='let catch = try_.catches.first().expect("Expected catch block");', rep='let catch = &try_.catches[0];', count=1)),
    ('R13', 'Compiler::try_', dict(pat=r'for catch in &try_\.catches \{\s*self\.catch\(catch, try_end_label\);\s*\}', rep='let mut verif_c: usize = 0;\n    while verif_c < try_.catches.len() {\n      let verif_catch = &try_.catches[verif_c];\n      self.catch(verif_catch, try_end_label);\n      verif_c += 1;\n    }', regex=True, count=1)),
  ],
  assumption_ids=['A-compiler'],
)
