/// how many try blocks of the function being compiled are active
pub open spec fn try_depth_of(t: Option<TryAttributes>) -> nat { match t { Some(a) => a.depth as nat, None => 0 } }
pub open spec fn loop_try_depth_of(l: Option<LoopAttributes>) -> nat { match l { Some(a) => a.try_depth as nat, None => 0 } }
/// n PopHandler instructions
pub open spec fn pops(n: nat) -> Seq<Ev> { Seq::new(n, |i: int| Ev::Emit(SymbolicByteCode::PopHandler)) }

// ---- if / while: jumps and labels (C01, and the shape the pipeline assumes: every jump forward to a label emitted later, Loop backward) ----------
/// what an if statement emits with first fresh label n and try depth d, and the next fresh label afterwards
pub open spec fn if_evs(i: If, n: int, d: nat) -> (Seq<Ev>, int) decreases i {
  let head = seq![Ev::Expr(i.cond.id), Ev::Emit(SymbolicByteCode::JumpIfFalse(Label(n as u32))), Ev::BeginScope, Ev::Block(i.body.id, d), Ev::EndScope];
  match i.else_ {
    None => (head.push(Ev::Emit(SymbolicByteCode::Label(Label(n as u32)))), n + 1),
    Some(Else::Block(b)) => (head + seq![Ev::Emit(SymbolicByteCode::Jump(Label((n + 1) as u32))), Ev::Emit(SymbolicByteCode::Label(Label(n as u32))),
                                        Ev::BeginScope, Ev::Block(b.id, d), Ev::EndScope, Ev::Emit(SymbolicByteCode::Label(Label((n + 1) as u32)))], n + 2),
    Some(Else::If(inner)) => {
      let (rest, m) = if_evs(*inner, n + 2, d);
      (head + seq![Ev::Emit(SymbolicByteCode::Jump(Label((n + 1) as u32))), Ev::Emit(SymbolicByteCode::Label(Label(n as u32)))] + rest + seq![Ev::Emit(SymbolicByteCode::Label(Label((n + 1) as u32)))], m)
    },
  }
}

pub open spec fn while_evs(cond: int, n: int, d: nat) -> Seq<Ev> {
  let s = Label(n as u32); let e = Label((n + 1) as u32);
  seq![Ev::Emit(SymbolicByteCode::Label(s)), Ev::Expr(cond), Ev::Emit(SymbolicByteCode::JumpIfFalse(e)), Ev::BeginScope, Ev::Body(d, d), Ev::EndScope, Ev::Emit(SymbolicByteCode::Loop(s)), Ev::Emit(SymbolicByteCode::Label(e))]
}

/// how many labels an if statement needs (2 per else-if level)
pub open spec fn if_labels(i: If) -> nat decreases i {
  match i.else_ { None => 1, Some(Else::Block(_)) => 2, Some(Else::If(inner)) => 2 + if_labels(*inner) }
}

// ---- operators (C01): operands in source order, the instruction of the operator, short circuit for and / or ---------------------------------------
pub open spec fn binop_code(op: BinaryOp) -> SymbolicByteCode {
  match op {
    BinaryOp::Add => SymbolicByteCode::Add, BinaryOp::Sub => SymbolicByteCode::Subtract, BinaryOp::Mul => SymbolicByteCode::Multiply, BinaryOp::Div => SymbolicByteCode::Divide,
    BinaryOp::Lt => SymbolicByteCode::Less, BinaryOp::LtEq => SymbolicByteCode::LessEqual, BinaryOp::Gt => SymbolicByteCode::Greater, BinaryOp::GtEq => SymbolicByteCode::GreaterEqual,
    BinaryOp::Eq => SymbolicByteCode::Equal, BinaryOp::Ne => SymbolicByteCode::NotEqual,
    BinaryOp::And => SymbolicByteCode::Nil, BinaryOp::Or => SymbolicByteCode::Nil,
  }
}
pub open spec fn binary_evs(b: &Binary, n: int) -> Seq<Ev> {
  match b.op {
    // short circuit: the right operand is only evaluated behind And / Or, which jump FORWARD over it with the left operand as the result
    BinaryOp::And => seq![Ev::Expr(b.lhs.id), Ev::Emit(SymbolicByteCode::And(Label(n as u32))), Ev::Expr(b.rhs.id), Ev::Emit(SymbolicByteCode::Label(Label(n as u32)))],
    BinaryOp::Or => seq![Ev::Expr(b.lhs.id), Ev::Emit(SymbolicByteCode::Or(Label(n as u32))), Ev::Expr(b.rhs.id), Ev::Emit(SymbolicByteCode::Label(Label(n as u32)))],
    // everything else: left operand, right operand, the operator
    _ => seq![Ev::Expr(b.lhs.id), Ev::Expr(b.rhs.id), Ev::Emit(binop_code(b.op))],
  }
}
pub open spec fn ternary_evs(t: &Ternary, n: int) -> Seq<Ev> {
  seq![Ev::Expr(t.cond.id), Ev::Emit(SymbolicByteCode::JumpIfFalse(Label(n as u32))), Ev::Expr(t.then.id), Ev::Emit(SymbolicByteCode::Jump(Label((n + 1) as u32))),
       Ev::Emit(SymbolicByteCode::Label(Label(n as u32))), Ev::Expr(t.else_.id), Ev::Emit(SymbolicByteCode::Label(Label((n + 1) as u32)))]
}

/// what a function returns when it says nothing: an initialiser its receiver (read the way slot 0 must be read), anything else nil
pub open spec fn ret_value(c: &Compiler) -> SymbolicByteCode {
  if c.fun_kind == FunKind::Initializer { if recv_state() == SymbolState::LocalCaptured { SymbolicByteCode::GetBox(0) } else { SymbolicByteCode::GetLocal(0) } } else { SymbolicByteCode::Nil }
}
