/// how many try blocks of the function being compiled are active
pub open spec fn try_depth_of(t: Option<TryAttributes>) -> nat { match t { Some(a) => a.depth as nat, None => 0 } }
pub open spec fn loop_try_depth_of(l: Option<LoopAttributes>) -> nat { match l { Some(a) => a.try_depth as nat, None => 0 } }
/// n PopHandler instructions
pub open spec fn pops(n: nat) -> Seq<Ev> { Seq::new(n, |i: int| Ev::Emit(SymbolicByteCode::PopHandler)) }
