// statements whose compilers are not part of this unit (for_ is the forc unit): as stmt sees them
impl Compiler {
  #[verifier::external_body] pub fn import(&mut self, i: &Import) ensures quiet(old(self), final(self)), final(self).log@ == old(self).log@.push(Ev::Expr(i.id)) { }
  #[verifier::external_body] pub fn for_(&mut self, f: &ForS) ensures quiet(old(self), final(self)), final(self).log@ == old(self).log@.push(Ev::Expr(f.id)) { }
  #[verifier::external_body] pub fn launch(&mut self, l: &Launch) ensures quiet(old(self), final(self)), final(self).log@ == old(self).log@.push(Ev::Expr(l.id)) { }
  #[verifier::external_body] pub fn raise(&mut self, r: &Raise) ensures quiet(old(self), final(self)), final(self).log@ == old(self).log@.push(Ev::Expr(r.id)) { }
}
