// the catch clause compiler as try_ sees it (its own contract: catchd unit)
impl Compiler {
  #[verifier::external_body] pub fn catch(&mut self, c: &Catch, try_end_label: Label) ensures quiet(old(self), final(self)), final(self).log@ == old(self).log@.push(Ev::Catch(c.id, try_depth_of(old(self).try_attributes))) { }
}
