// ---- trusted model of the compiler around its handler bookkeeping (A-compiler): every other method is a stub that logs ------------------------
pub struct SymbolTable { pub p: usize }
pub struct Token { pub id: int }
impl Token { #[verifier::external_body] pub fn start(&self) -> u32 { 0 } #[verifier::external_body] pub fn end(&self) -> u32 { 0 } }
pub struct Expr { pub id: int }
impl Expr { #[verifier::external_body] pub fn end(&self) -> u32 { 0 } #[verifier::external_body] pub fn start(&self) -> u32 { 0 } }
pub struct Block { pub id: int, pub symbols: SymbolTable }
impl Block { #[verifier::external_body] pub fn start(&self) -> u32 { 0 } #[verifier::external_body] pub fn end(&self) -> u32 { 0 } }
pub struct Catch { pub id: int, pub name: Token, pub class: Option<Token>, pub block: Block, pub symbols: SymbolTable }
impl Catch { #[verifier::external_body] pub fn start(&self) -> u32 { 0 } #[verifier::external_body] pub fn end(&self) -> u32 { 0 } }
pub struct Import { pub id: int } pub struct ForS { pub id: int } pub struct Launch { pub id: int } pub struct Raise { pub id: int }
pub enum Stmt { Expr(Expr), ImplicitReturn(Expr), Import(Import), For(ForS), If(If), Return(Return), Launch(Launch), Break(Token), Continue(Token), While(While), Try(Try), Raise(Raise) }
pub struct Binary { pub op: BinaryOp, pub lhs: Expr, pub rhs: Expr }
pub struct Unary { pub op: UnaryOp, pub expr: Expr }
pub struct Ternary { pub cond: Expr, pub then: Expr, pub else_: Expr }
pub struct While { pub cond: Expr, pub body: Block }
impl While { #[verifier::external_body] pub fn end(&self) -> u32 { 0 } }
pub enum Else { If(Box<If>), Block(Block) }
pub struct If { pub cond: Expr, pub body: Block, pub else_: Option<Else> }
pub struct Return { pub value: Option<Expr>, pub t: Token }
impl Return { #[verifier::external_body] pub fn start(&self) -> u32 { 0 } }
pub struct Try { pub block: Block, pub catches: Vec<Catch> }
pub struct LyStr { pub p: usize }
pub struct Arity { pub p: usize }
pub struct LabelEmitter { pub next: u32 }
impl LabelEmitter {
  #[verifier::external_body] pub fn default() -> (r: LabelEmitter) ensures r.next == 0 { LabelEmitter { next: 0 } }
  #[verifier::external_body] pub fn emit(&mut self) -> (r: Label) ensures r.0 == old(self).next, final(self).next == old(self).next + 1 { Label(0) }
}
/// what the compiler was asked to do, in order; statements carry the try depth at which they were compiled
pub enum Ev { Emit(SymbolicByteCode), Expr(int), Block(int, nat), BeginScope, EndScope, DropLocals, Catch(int, nat), Body(nat, nat), VarGet(int), Declare(int), Define(int, nat) }
pub struct Compiler {
  pub try_attributes: Option<TryAttributes>,
  pub loop_attributes: Option<LoopAttributes>,
  pub scope_depth: usize,
  pub fun_kind: FunKind,
  pub label_emitter: LabelEmitter,
  pub log: Ghost<Seq<Ev>>,
}
pub open spec fn quiet(o: &Compiler, n: &Compiler) -> bool {
  n.try_attributes == o.try_attributes && n.loop_attributes == o.loop_attributes && n.scope_depth == o.scope_depth && n.fun_kind == o.fun_kind && n.label_emitter == o.label_emitter
}
/// the body of a loop as handed to loop_scope
pub struct BodyCb { }
impl BodyCb {
  /// the loop body is compiled with the loop and try attributes in force at that moment (logged), and leaves them as they were
  #[verifier::external_body]
  pub fn verif_run(self, c: &mut Compiler)
    ensures quiet(old(c), final(c)), final(c).log@ == old(c).log@.push(Ev::Body(try_depth_of(old(c).try_attributes), loop_try_depth_of(old(c).loop_attributes)))
  { }
}
pub const SELF: &'static str = "self";
pub uninterp spec fn name_id(s: &str) -> int;
/// the slot and state a name resolves to in the function being compiled (the locals as the resolver and the declarations left them: A-resolver;
/// the general resolve_local is the varcomp unit)
pub uninterp spec fn local_of(name: int) -> (u8, SymbolState);
/// the state of the receiver slot (captured by a closure or not)
pub open spec fn recv_state() -> SymbolState { local_of(name_id(SELF)).1 }
impl Compiler {
  #[verifier::external_body] pub fn resolve_local(&mut self, name: &str) -> (r: Option<(u8, SymbolState)>)
    ensures quiet(old(self), final(self)), final(self).log == old(self).log, r == Some(local_of(name_id(name))),
      // in a method or initialiser the receiver is slot 0, an initialised local (possibly captured)
      name_id(name) == name_id(SELF) ==> local_of(name_id(name)).0 == 0 && (recv_state() == SymbolState::LocalInitialized || recv_state() == SymbolState::LocalCaptured) { None }
  /// varcomp unit: a plain local is read / written in its slot, a captured one through its box
  #[verifier::external_body] pub fn emit_local_get(&mut self, state: SymbolState, index: u8, end: u32)
    ensures quiet(old(self), final(self)), final(self).log@ == old(self).log@.push(Ev::Emit(if state == SymbolState::LocalCaptured { SymbolicByteCode::GetBox(index) } else { SymbolicByteCode::GetLocal(index) })) { }
  #[verifier::external_body] pub fn emit_local_set(&mut self, state: SymbolState, index: u8, end: u32)
    ensures quiet(old(self), final(self)), final(self).log@ == old(self).log@.push(Ev::Emit(if state == SymbolState::LocalCaptured { SymbolicByteCode::SetBox(index) } else { SymbolicByteCode::SetLocal(index) })) { }
  #[verifier::external_body] pub fn emit_byte(&mut self, op: SymbolicByteCode, line: u32) ensures quiet(old(self), final(self)), final(self).log@ == old(self).log@.push(Ev::Emit(op)) { }
  #[verifier::external_body] pub fn expr(&mut self, e: &Expr) ensures quiet(old(self), final(self)), final(self).log@ == old(self).log@.push(Ev::Expr(e.id)) { }
  #[verifier::external_body] pub fn block(&mut self, b: &Block) ensures quiet(old(self), final(self)), final(self).log@ == old(self).log@.push(Ev::Block(b.id, try_depth_of(old(self).try_attributes))) { }
  #[verifier::external_body] pub fn begin_scope(&mut self, table: &SymbolTable) ensures quiet(old(self), final(self)), final(self).log@ == old(self).log@.push(Ev::BeginScope) { }
  #[verifier::external_body] pub fn end_scope(&mut self, end_line: u32) ensures quiet(old(self), final(self)), final(self).log@ == old(self).log@.push(Ev::EndScope) { }
  #[verifier::external_body] pub fn drop_local_count(&self, scope_depth: usize) -> (r: usize) { 0 }
  #[verifier::external_body] pub fn drop_locals(&mut self, line: u32, count: usize) ensures quiet(old(self), final(self)), final(self).log@ == old(self).log@.push(Ev::DropLocals) { }
}
// A-std
pub assume_specification<T> [Option::<T>::replace] (o: &mut Option<T>, v: T) -> (r: Option<T>)
  ensures r == *old(o), *final(o) == Some(v);
