// ---- trusted model of the parser around its loop-depth bookkeeping (A-parser) ------------------------------------------------------
pub struct Diag { }
pub type ParseResult<T> = Result<T, Diag>;
#[derive(Clone, Copy, PartialEq, Eq, Structural)]
pub enum TokenKind { LeftParen, RightParen, LeftBrace, RightBracket, Pipe, Or, Semicolon, Comma, Colon, Identifier, Less }
#[derive(Clone)]
pub struct Token { pub k: TokenKind, pub lo: u32, pub hi: u32 }
impl Token {
  pub fn kind(&self) -> (r: TokenKind) ensures r == self.k { self.k }
  pub fn start(&self) -> (r: u32) ensures r == self.lo { self.lo }
  pub fn end(&self) -> (r: u32) ensures r == self.hi { self.hi }
  #[verifier::external_body] pub fn str(&self) -> (r: &str) ensures r@ == tok_text(*self) { "" }
}
/// the text of a token
pub uninterp spec fn tok_text(t: Token) -> Seq<char>;
/// `INIT == name.str()`
#[verifier::external_body] pub fn verif_is_init(s: &str) -> (r: bool) ensures r == (s@ == seq!['i', 'n', 'i', 't']) { true }
/// ast::Span
pub struct Span { pub start: u32, pub end: u32 }
pub struct Call { pub range: Span, pub args: Vec<Expr> }
impl Call { pub fn new(range: Span, args: Vec<Expr>) -> (r: Call) ensures r.range == range, r.args == args { Call { range, args } } }
pub enum Trailer { Call(Node<Call>), Other }
pub struct Atom { pub trailers: Vec<Trailer> }
pub enum Expr { Atom(Atom), Other }
#[derive(Clone, Copy)]
pub enum BlockReturn { Can, Cannot }
pub struct Type { }
pub struct Param { }
impl Param { #[verifier::external_body] pub fn new(name: Token, type_: Option<Type>) -> Param { Param { } } }
#[verifier::external_body] pub fn verif_unreachable<T>() -> T requires false { unimplemented!() }
pub struct TypeParam { } pub struct CallSig { } pub struct Block { } pub struct Table { }
pub struct Node<T> { pub t: T }
pub enum FunBody { Block(Node<Block>), Expr(Node<Expr>) }
pub struct Fun { }
impl Fun { #[verifier::external_body] pub fn new(name: Option<Token>, call_sig: CallSig, table: Table, body: FunBody) -> Fun { Fun { } } }
pub enum Primary { Lambda(Node<Fun>) }
pub enum Stmt { Continue(Node<Token>), Break(Node<Token>) }

pub struct Parser {
  pub loop_depth: u16,
  pub fun_kind: FunKind,
  pub previous: Token,
  pub current: Token,
  pub let_name: Option<Token>,
  /// ghost: the loop depth at which each block / expression body was parsed, in order
  pub bodies: Ghost<Seq<u16>>,
  /// ghost: the implicit-return mode each BLOCK was parsed in (the argument of block), in order
  pub modes: Ghost<Seq<BlockReturn>>,
}
pub open spec fn quiet(o: &Parser, n: &Parser) -> bool { n.loop_depth == o.loop_depth && n.bodies == o.bodies && n.modes == o.modes && n.fun_kind == o.fun_kind }

/// the body of a while / for statement as handed to loop_
pub struct LoopBody<T> { pub t: core::marker::PhantomData<T> }
impl<T> LoopBody<T> {
  /// A-parser: a loop body (statement parsing) leaves the loop depth as it found it — it is made of the functions under contract here
  /// (function, lambda restore it) and of stubs that do not touch it
  #[verifier::external_body]
  pub fn verif_run(self, p: &mut Parser) -> (r: T) ensures final(p).loop_depth == old(p).loop_depth { unimplemented!() }
}
impl FunKind { }
impl Parser {
  #[verifier::external_body] pub fn match_kind(&mut self, kind: TokenKind) -> (r: ParseResult<bool>) ensures quiet(old(self), final(self)) { Ok(true) }
  #[verifier::external_body] pub fn error_current<T>(&mut self, message: &str) -> (r: ParseResult<T>) ensures r is Err, quiet(old(self), final(self)) { Err(Diag { }) }
  #[verifier::external_body] pub fn error<T>(&mut self, message: &str) -> (r: ParseResult<T>) ensures r is Err, quiet(old(self), final(self)) { Err(Diag { }) }
  /// consume the current token if it is of this kind: it becomes `previous`
  #[verifier::external_body] pub fn consume_basic(&mut self, kind: TokenKind, message: &str) -> (r: ParseResult<()>)
    ensures quiet(old(self), final(self)), r is Ok ==> old(self).current.k == kind && final(self).previous == old(self).current { Ok(()) }
  #[verifier::external_body] pub fn check(&self, kind: TokenKind) -> (r: bool) { true }
  #[verifier::external_body] pub fn consume(&mut self, kind: TokenKind, message: &str) -> (r: ParseResult<()>) ensures quiet(old(self), final(self)) { Ok(()) }
  #[verifier::external_body] pub fn type_(&mut self) -> (r: ParseResult<Type>) ensures quiet(old(self), final(self)) { Ok(Type { }) }
  #[verifier::external_body] pub fn call_signature(&mut self, params: Vec<Param>, type_params: Vec<TypeParam>) -> (r: ParseResult<CallSig>) ensures quiet(old(self), final(self)) { Ok(CallSig { }) }
  /// statements of a block are parsed at the CURRENT loop depth (break_ / continue_ consult it)
  #[verifier::external_body] pub fn block(&mut self, block_return: BlockReturn) -> (r: ParseResult<Block>)
    ensures final(self).loop_depth == old(self).loop_depth, final(self).bodies@ == old(self).bodies@.push(old(self).loop_depth),
      final(self).modes@ == old(self).modes@.push(block_return), final(self).fun_kind == old(self).fun_kind { Ok(Block { }) }
  #[verifier::external_body] pub fn expr(&mut self) -> (r: ParseResult<Expr>)
    ensures final(self).loop_depth == old(self).loop_depth, final(self).bodies@ == old(self).bodies@.push(old(self).loop_depth), final(self).modes == old(self).modes,
      final(self).fun_kind == old(self).fun_kind { Ok(Expr::Other) }
  #[verifier::external_body] pub fn node<T>(&self, t: T) -> (r: Node<T>) ensures r.t == t { Node { t } }
  #[verifier::external_body] pub fn type_params(&mut self) -> (r: ParseResult<Vec<TypeParam>>) ensures quiet(old(self), final(self)), final(self).fun_kind == old(self).fun_kind { unimplemented!() }
  #[verifier::external_body] pub fn table(&self) -> (r: Table) { Table { } }
  #[verifier::external_body] pub fn atom_expr(&self, p: Primary) -> (r: Expr) { Expr::Other }
  /// mem::replace(&mut self.fun_kind, k)
  #[verifier::external_body] pub fn verif_replace_fun_kind(&mut self, k: FunKind) -> (r: FunKind)
    ensures final(self).loop_depth == old(self).loop_depth, final(self).bodies == old(self).bodies, final(self).modes == old(self).modes, final(self).previous == old(self).previous,
      final(self).fun_kind == k, r == old(self).fun_kind { FunKind::Fun }
}
// format!("...{}", self.fun_kind) needs Display; the message text is not verified (R8)
#[verifier::external_body] pub fn verif_fmt() -> (r: &'static str) { "" }
