"""C15: the parser's limits (an argument, item or parameter list that reaches its maximum is a diagnostic, so the counts the compiler narrows to
u8 / u16 always fit, and the list loops end): Parser::{consume_arguments, call_params}; and the parser's loop-depth bookkeeping (break / continue are accepted only inside a loop OF THE SAME FUNCTION, and the counter can never
underflow): Parser::{loop_, break_, continue_, function, lambda, fun_body}. Everything those functions call is a stub that leaves the counter
alone and LOGS the loop depth at which a block / expression body is parsed."""
UNIT = dict(
  name='parserd',
  properties=['C15', 'C01'],
  items=[
    ('laythe_core/src/object/fun.rs', ['enum FunKind']),
    ('laythe_vm/src/compiler/parser.rs', [("impl<'a> Parser<'a>", ['loop_', 'continue_', 'break_', 'fun_body', 'function', 'lambda', 'consume_arguments', 'call_params', 'call', 'method'])]),
  ],
  rewrites=[
    ('R11', 'enum FunKind', dict(drop=['Debug'], add=['Structural'])),
    ('R5', 'kind:implhdr', dict(pat="impl<'a> Parser<'a> {", rep='impl Parser {', count=1)),
    # R5: arena lifetimes dropped
    ('R5', 'Parser::*', dict(pat=r"<'a>", rep='', regex=True, optional=True)),
    ('R5', 'Parser::*', dict(pat=r"Vec<'a, ", rep='Vec<', regex=True, optional=True)),
    ('R7', 'Parser::*', dict(pat=r'^(\s*(?:///?[^\n]*\n\s*)*)fn ', rep=r'\1pub fn ', regex=True, optional=True)),
    ('R8', 'Parser::*'),
    # the arena vectors of the two list parsers; parser-guaranteed stop tokens
    ('R5', 'Parser::consume_arguments', dict(pat='let mut args = self.vec();', rep='let mut args = Vec::new();', count=1)),
    ('R5', 'Parser::call_params', dict(pat='let mut params = self.vec();', rep='let mut params = Vec::new();', count=1)),
    ('R3', 'Parser::call_params', dict(pat=r'unreachable!\("[^"]*"\)', rep='verif_unreachable()', regex=True, count=1)),
    # loop_: the callback takes `&mut Self` (Verus: unsupported closure shape); it is run through a stub that states what while_ / for_ bodies do
    ('R4', 'Parser::loop_', dict(pat='fn loop_<T>(&mut self, cb: impl FnOnce(&mut Self) -> T) -> T {', rep='fn loop_<T>(&mut self, cb: LoopBody<T>) -> T {', count=1)),
    ('R4', 'Parser::loop_', dict(pat='let result = cb(self);', rep='let result = cb.verif_run(self);', count=1)),
    # R4: Result::map with a closure capturing self -> match
    ('R4', 'Parser::function', dict(pat=r'let fun = self\.block\(block_return\)\.map\(\|body\| \{(.*?)\n    \}\);', rep=r'let fun = match self.block(block_return) { Ok(body) => Ok({\1\n    }), Err(verif_e) => Err(verif_e) };', regex=True, count=1)),
    ('R4', 'Parser::lambda', dict(pat=r'let lambda = self\.fun_body\(BlockReturn::Can\)\.map\(\|body\| \{(.*?)\n    \}\);', rep=r'let lambda = match self.fun_body(BlockReturn::Can) { Ok(body) => Ok({\1\n    }), Err(verif_e) => Err(verif_e) };', regex=True, count=1)),
    ('R6', 'Parser::lambda', dict(pat='mem::replace(&mut self.fun_kind, FunKind::Fun)', rep='self.verif_replace_fun_kind(FunKind::Fun)', count=1)),
    ('R6', 'Parser::lambda', dict(pat='self.call_signature(self.vec(), self.vec())?', rep='self.call_signature(Vec::new(), Vec::new())?', count=1)),
    ('R6', 'Parser::lambda', dict(pat='self.call_signature(params, self.vec())?', rep='self.call_signature(params, Vec::new())?', count=1)),
    # method: the same three shapes as function / lambda
    ('R6', 'Parser::method', dict(pat='mem::replace(&mut self.fun_kind, fun_kind)', rep='self.verif_replace_fun_kind(fun_kind)', count=1)),
    ('R6', 'Parser::method', dict(pat='INIT == name.str()', rep='verif_is_init(name.str())', count=1)),
    ('R6', 'Parser::method', dict(pat='self.vec()', rep='Vec::new()', count=1)),
    ('R4', 'Parser::method', dict(pat=r'let method = self\s*\.function\(name, type_params, block_return\)\s*\.map\(\|fun\| \(fun_kind, fun\)\);', rep='let method = match self.function(name, type_params, block_return) { Ok(fun) => Ok((fun_kind, fun)), Err(verif_e) => Err(verif_e) };', regex=True, count=1)),
  ],
  assumption_ids=['A-parser'],
)
