UNIT = dict(
  name='chanq',
  properties=['C07', 'C16'],
  header='#![allow(unused)]\n#![feature(allocator_api)]\nuse vstd::prelude::*;\nuse std::collections::VecDeque;\n',
  items=[
    ('laythe_core/src/object/channel/mod.rs', [
      'enum SendResult', 'enum ReceiveResult', 'enum CloseResult', 'enum ChannelKind', 'struct Channel',
    ]),
    ('laythe_core/src/object/channel/channel_queue.rs', [
      'enum ChannelQueueState', 'enum ChannelQueueKind', 'struct ChannelQueue',
      ('impl ChannelQueue', None),
      'fn find_runnable_waiter',
    ]),
    # the Channel wrapper (direction restrictions) over the queue
    ('laythe_core/src/object/channel/mod.rs', [('impl Channel', ['is_empty', 'len', 'capacity', 'close', 'is_closed', 'send', 'receive', 'runnable_waiter'])]),
  ],
  rewrites=[
    ('R11', 'enum ChannelKind', dict(drop=['Debug'], add=['Structural', 'Eq'])),
    ('R11', 'struct Channel', dict(drop=['PartialEq', 'Clone'])),
    ('R7f', 'struct Channel'),
    # R6: the queue is reached through a GC pointer (`Ref<ChannelQueue>`, Deref / DerefMut); in the unit the wrapper owns it — the methods
    # verified here never copy the pointer (read_only / write_only, which do, are not extracted)
    ('R6', 'struct Channel', dict(pat='queue: Ref<ChannelQueue>,', rep='queue: ChannelQueue,', count=1)),
    # R6: pre-allocation through std's panicking constructor goes through a stub carrying std's documented panic condition
    ('R6', 'ChannelQueue::with_capacity', dict(pat='VecDeque::with_capacity(', rep='verif_vecdeque_with_capacity(', optional=True)),
    # R7: single-file crate: private fields become visible to the contracts of pub fns
    ('R7f', 'struct ChannelQueue'),
    ('R7', 'kind:enum', dict(pat=r'^((?:\s*///[^\n]*\n|\s*#\[[^\]]*\]\s*\n)*)enum ', rep=r'\1pub enum ', regex=True, optional=True)),
    # derive lists: Debug has no meaning for verification; Structural gives derived PartialEq its spec (R11)
    ('R11', 'enum SendResult', dict(drop=['Debug', 'PartialEq', 'Eq'])),      # not compared in exec code here
    ('R11', 'enum ReceiveResult', dict(drop=['Debug', 'PartialEq', 'Eq'])),
    ('R11', 'enum CloseResult', dict(drop=['Debug'], add=['Structural'])),
    ('R11', 'enum ChannelQueueState', dict(drop=['Debug'], add=['Structural'])),
    ('R11', 'enum ChannelQueueKind', dict(drop=['Debug'], add=['Structural'])),
    # R4: Option::or_else with a closure capturing &mut self
    ('R4', 'ChannelQueue::runnable_waiter', dict(
      pat=r'find_runnable_waiter\(&mut self\.(\w+)\)\s*\.or_else\(\|\| find_runnable_waiter\(&mut self\.(\w+)\)\)',
      rep=r'match find_runnable_waiter(&mut self.\1) { Some(verif_w) => Some(verif_w), None => find_runnable_waiter(&mut self.\2) }',
      regex=True, count=1)),
  ],
)
