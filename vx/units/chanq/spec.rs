// ---- abstract view and well-formedness of ChannelQueue (property C07) ----
impl ChannelQueue {
  /// the buffered values, oldest first
  pub open spec fn view(&self) -> Seq<Value> { self.queue@ }

  pub open spec fn closed(&self) -> bool {
    self.state == ChannelQueueState::Closed || self.state == ChannelQueueState::ClosedEmpty
  }

  pub open spec fn is_sync_spec(&self) -> bool { self.kind == ChannelQueueKind::Sync }

  pub open spec fn wf(&self) -> bool {
    &&& 0 < self.capacity
    &&& self.queue@.len() <= self.capacity
    &&& (self.kind == ChannelQueueKind::Sync ==> self.capacity == 1)
    &&& (self.state == ChannelQueueState::ClosedEmpty ==> self.queue@.len() == 0)
  }
}

// ---- waiters: who may be woken (C07: a fiber is resumed only for an operation that can now proceed) ----
pub open spec fn has_runnable(l: Seq<Ref<ChannelWaiter>>) -> bool { exists|k: int| 0 <= k < l.len() && waiter_runnable(#[trigger] l[k]) }

impl ChannelQueue {
  /// a parked sender can proceed: the channel is open and has room
  pub open spec fn sender_can_progress(&self) -> bool { !self.closed() && self.queue@.len() < self.capacity }
  /// a parked receiver can proceed: there is a value, or the channel is closed (it will get nil)
  pub open spec fn receiver_can_progress(&self) -> bool { self.queue@.len() > 0 || self.closed() }
}
