// ---- abstract view and well-formedness of ChannelQueue (property C07) ----
impl ChannelQueue {
  /// the buffered values, oldest first
  pub open spec fn view(&self) -> Seq<Value> { self.queue@ }

  pub open spec fn closed(&self) -> bool {
    self.state == ChannelQueueState::Closed || self.state == ChannelQueueState::ClosedEmpty
  }

  pub open spec fn is_sync_spec(&self) -> bool { self.kind == ChannelQueueKind::Sync }

  pub open spec fn wf(&self) -> bool {
    &&& 0 < self.capacity
    &&& self.queue@.len() <= self.capacity
    &&& (self.kind == ChannelQueueKind::Sync ==> self.capacity == 1)
    &&& (self.state == ChannelQueueState::ClosedEmpty ==> self.queue@.len() == 0)
  }
}
