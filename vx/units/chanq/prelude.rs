// ---- trusted stubs for the chanq unit (assumption register: A-ref, A-std) ----

/// laythe_core::value::Value — opaque here; the queue never inspects a value.
#[verifier::external_body]
#[derive(Clone, Copy)]
pub struct Value { bits: u64 }

/// laythe_core::object::ChannelWaiter — only `is_runnable` is observed by the queue.
#[verifier::external_body]
pub struct ChannelWaiter { runnable: bool }

/// laythe_core::Ref<T> — a copyable GC pointer.  A-ref: deref reaches the referent.
#[verifier::external_body]
#[verifier::reject_recursive_types(T)]
pub struct Ref<T> { p: *mut T }

impl<T> Clone for Ref<T> {
  #[verifier::external_body]
  fn clone(&self) -> (r: Self) ensures r == *self { Ref { p: self.p } }
}
impl<T> Copy for Ref<T> {}

pub uninterp spec fn waiter_runnable(w: Ref<ChannelWaiter>) -> bool;

impl Ref<ChannelWaiter> {
  #[verifier::external_body]
  pub fn is_runnable(&self) -> (r: bool)
    ensures r == waiter_runnable(*self)
  { unsafe { (*self.p).runnable } }
}

// A-std: std's VecDeque::is_empty has no vstd specification in this Verus; its std contract is stated here.
pub assume_specification<T, A: std::alloc::Allocator> [std::collections::VecDeque::<T, A>::is_empty] (q: &std::collections::VecDeque<T, A>) -> (r: bool)
  ensures r == (q@.len() == 0);

/// A-std: std documents that `VecDeque::with_capacity` panics ("capacity overflow") when the requested capacity exceeds
/// isize::MAX bytes; vstd does not model allocation failure, so the call is routed through this stub (R6) which states
/// the documented panic condition as a precondition (elements are Values: at most 16 bytes in either representation).
#[verifier::external_body]
pub fn verif_vecdeque_with_capacity(capacity: usize) -> (r: VecDeque<Value>)
  requires capacity as int * 16 <= isize::MAX as int
  ensures r@ == Seq::<Value>::empty()
{ VecDeque::with_capacity(capacity) }
