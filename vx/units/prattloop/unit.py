"""C01: the loop of the Pratt parser — Parser::parse_precedence, extracted as it is.  advance, prefix, infix, match_kind and error are stubs;
prefix / infix LOG the token they were dispatched for, the can_assign flag, the left operand handed in and the expression answered.  The contract
is the Pratt invariant the precedence rules of the language rest on: a call at binding power p applies one prefix action to the first token,
then infix actions ONLY for operators that bind at least as tightly as p, each to the expression built so far, and returns exactly when the
next token binds more loosely than p (so nothing that belongs to the operand is left behind and nothing looser is swallowed); assignment is
allowed only from the loosest level.  The order of the levels is generated from the declaration of `enum Precedence`; the binding power of
each token is the table the Kani harness o01_p_infix_table proves of the real INFIX_TABLE.  Termination is not proved."""
import os, sys
sys.path.insert(0, os.path.join(os.path.dirname(os.path.abspath(__file__)), '..', 'prattops'))
import importlib.util as _u
_s = _u.spec_from_file_location('prattops_unit', os.path.join(os.path.dirname(os.path.abspath(__file__)), '..', 'prattops', 'unit.py'))
_m = _u.module_from_spec(_s); _s.loader.exec_module(_m)
generate = _m.generate

UNIT = dict(
  name='prattloop',
  properties=['C01'],
  items=[
    ('laythe_vm/src/compiler/ir/token.rs', ['enum TokenKind']),
    ('laythe_vm/src/compiler/parser.rs', ['enum Precedence', 'enum Prefix', 'enum Infix', ("impl<'a> Parser<'a>", ['parse_precedence'])]),
  ],
  rewrites=[
    ('R11', 'enum TokenKind', dict(drop=['Debug', 'Hash', 'VariantCount'], add=['Structural'])),
    ('R11', 'enum Precedence', dict(drop=['Debug', 'PartialOrd'], add=['Structural', 'Copy', 'Eq'])),
    ('R7', 'enum Precedence', dict(pat='enum Precedence', rep='pub enum Precedence', count=1)),
    ('R7', 'enum Prefix', dict(pat='enum Prefix', rep='pub enum Prefix', count=1)),
    ('R7', 'enum Infix', dict(pat='enum Infix', rep='pub enum Infix', count=1)),
    ('R5', 'kind:implhdr', dict(pat="impl<'a> Parser<'a> {", rep='impl Parser {', count=1)),
    ('R5', 'Parser::*', dict(pat=r"<'a>", rep='', regex=True, optional=True)),
    ('R7', 'Parser::*', dict(pat=r'^(\s*(?:///?[^\n]*\n\s*)*)fn ', rep=r'\1pub fn ', regex=True, optional=True)),
    # R14p: the derived `<=` of Precedence -> a named stub whose meaning is the declaration order (generated prec_ord)
    ('R14', 'Parser::parse_precedence', dict(pat=r'\bprecedence <= ([^;{]+?)( \{|;)', rep=r'verif_prec_le(&precedence, &\1)\2', regex=True, optional=True)),
    ('R14', 'Parser::parse_precedence', dict(pat=r'\bprecedence < ([^;{]+?)( \{|;)', rep=r'verif_prec_lt(&precedence, &\1)\2', regex=True, optional=True)),
    ('R14', 'Parser::parse_precedence', dict(pat=r'\bprecedence >= ([^;{]+?)( \{|;)', rep=r'verif_prec_le(&\1, &precedence)\2', regex=True, optional=True)),
    ('R14', 'Parser::parse_precedence', dict(pat=r'\bprecedence > ([^;{]+?)( \{|;)', rep=r'verif_prec_lt(&\1, &precedence)\2', regex=True, optional=True)),
  ],
  generate=generate,
  spec_files=['../prattops/spec_infix.rs'],
  assumption_ids=['A-pratt'],
)
