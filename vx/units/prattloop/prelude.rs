// ---- trusted model around the Pratt loop (A-pratt) -------------------------------------------------------------------------------------
pub struct Diag { }
pub type ParseResult<T> = Result<T, Diag>;
#[derive(Clone, Copy)]
pub struct Token { pub k: TokenKind }
impl Token { pub fn kind(&self) -> (r: TokenKind) ensures r == self.k { self.k } }
/// an expression: opaque here, identified by a number
pub struct Expr { pub id: u64 }
pub struct RuleP { pub op: Option<Prefix> }
pub struct RuleI { pub op: Option<Infix>, pub precedence: Precedence }
/// A-pratt: what kani:front/o01_p_prefix_action proves of the real PREFIX_TABLE, as far as the loop needs it: the Unary action is given to the
/// three prefix operator tokens only
#[verifier::external_body] pub fn get_prefix(kind: TokenKind) -> (r: RuleP) ensures r.op matches Some(Prefix::Unary) ==> is_unop_token(kind) { unimplemented!() }
/// A-pratt: what kani:front/o01_p_infix_table proves of the real INFIX_TABLE — the binding power of each token; an action iff it binds at all
#[verifier::external_body] pub fn get_infix(kind: TokenKind) -> (r: RuleI)
  ensures prec_ord(r.precedence) == spec_infix(kind), r.op is Some <==> spec_infix(kind) != 0, r.op == spec_infix_action(kind) { unimplemented!() }
/// the derived PartialOrd of Precedence: declaration order
#[verifier::external_body] pub fn verif_prec_le(a: &Precedence, b: &Precedence) -> (r: bool) ensures r == (prec_ord(*a) <= prec_ord(*b)) { unimplemented!() }

#[verifier::external_body] pub fn verif_prec_lt(a: &Precedence, b: &Precedence) -> (r: bool) ensures r == (prec_ord(*a) < prec_ord(*b)) { unimplemented!() }

pub enum Ev { Prefix(TokenKind, bool, Expr), Infix(TokenKind, bool, Expr, Expr) }
pub struct Parser {
  pub previous: Token,
  pub current: Token,
  /// ghost: the prefix / infix actions applied, in order
  pub log: Ghost<Seq<Ev>>,
}
impl Parser {
  /// the next token becomes `current`, the old one `previous`
  #[verifier::external_body] pub fn advance(&mut self) -> (r: ParseResult<()>)
    ensures final(self).log@ == old(self).log@, r is Ok ==> final(self).previous == old(self).current { unimplemented!() }
  /// the preconditions of prefix / infix are those of the real functions (prattops unit)
  #[verifier::external_body] pub fn prefix(&mut self, action: Prefix, can_assign: bool) -> (r: ParseResult<Expr>)
    requires action is Unary ==> is_unop_token(old(self).previous.k),
    ensures r matches Ok(e) ==> final(self).log@ == old(self).log@.push(Ev::Prefix(old(self).previous.k, can_assign, e)) { unimplemented!() }
  #[verifier::external_body] pub fn infix(&mut self, action: Infix, lhs: Expr, can_assign: bool) -> (r: ParseResult<Expr>)
    requires action is Binary ==> is_binop_token(old(self).previous.k),
    ensures r matches Ok(e) ==> final(self).log@ == old(self).log@.push(Ev::Infix(old(self).previous.k, can_assign, lhs, e)) { unimplemented!() }
  #[verifier::external_body] pub fn match_kind(&mut self, kind: TokenKind) -> (r: ParseResult<bool>)
    ensures final(self).log@ == old(self).log@, r == Ok::<bool, Diag>(false) ==> final(self).current == old(self).current && old(self).current.k != kind { unimplemented!() }
  #[verifier::external_body] pub fn error<T>(&mut self, message: &str) -> (r: ParseResult<T>) ensures r is Err { unimplemented!() }
}
