/// the expression an event answered
pub open spec fn ev_answer(e: Ev) -> Expr { match e { Ev::Prefix(_, _, a) => a, Ev::Infix(_, _, _, a) => a } }
/// the Pratt invariant between the state `o` a call at binding power `p` started in and a later state `n` whose built expression is `e`
pub open spec fn pratt_inv(o: &Parser, n: &Parser, p: int, e: Expr) -> bool {
  let k = o.log@.len() as int;
  &&& n.log@.len() > k && n.log@.subrange(0, k) =~= o.log@
  // one prefix action, for the first token of the operand, assignable only from the loosest level
  &&& n.log@[k] matches Ev::Prefix(t, ca, _) && t == o.current.k && ca == (p <= 1)
  // then infix actions only for operators binding at least as tightly as p, each applied to the expression built so far
  &&& forall|i: int| k < i < n.log@.len() ==> (#[trigger] n.log@[i] matches Ev::Infix(t, ca, lhs, _) && spec_infix(t) >= p && ca == (p <= 1)
        && lhs == ev_answer(n.log@[i - 1]))
  &&& e == ev_answer(n.log@.last())
}
