"""C02: the capture table (laythe_core/src/captures.rs): reads and writes go to the cell, whatever value is stored."""
UNIT = dict(
  name='captures',
  properties=['C02'],
  items=[('laythe_core/src/captures.rs', [('impl Captures', ['is_empty', 'len', 'get_capture', 'get_capture_value', 'set_capture_value'])])],
  rewrites=[
    ('R6', 'Captures::get_capture', dict(pat='ObjRef<LyBox>', rep='LyBoxCell', count=1)),
    # R14: Value's PartialEq is not structural (IEEE numbers): comparisons go through named stubs
    ('R14', 'Captures::*', dict(pat=r'(\w+(?:\.\w+)*) != (\w+(?:\.\w+)*)', rep=r'verif_val_ne(\1, \2)', regex=True, optional=True)),
    ('R14', 'Captures::*', dict(pat=r'(\w+(?:\.\w+)*) == (\w+(?:\.\w+)*)', rep=r'verif_val_eq(\1, \2)', regex=True, optional=True)),
  ],
  assumption_ids=['A-ref'],
)
