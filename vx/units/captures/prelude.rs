// ---- trusted model for the captures unit: the table owns its cells here (A-ref: the real table holds ObjRef<LyBox> pointers; sharing of a
// cell between tables is the subject of op_closure's contract in the ops unit, not of these accessors)
#[derive(Clone, Copy)]
pub struct Value { pub bits: u64 }
pub uninterp spec fn v_eq(a: Value, b: Value) -> bool;
#[verifier::external_body] pub fn verif_val_eq(a: Value, b: Value) -> (r: bool) ensures r == v_eq(a, b) { true }
#[verifier::external_body] pub fn verif_val_ne(a: Value, b: Value) -> (r: bool) ensures r == !v_eq(a, b) { true }
#[derive(Clone, Copy)]
pub struct LyBoxCell { pub value: Value }
pub struct Captures(pub Vec<LyBoxCell>);
