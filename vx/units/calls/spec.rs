// ---- calls unit: C16 — calling a non-callable raises; unbounded recursion is a catchable runtime error ----
