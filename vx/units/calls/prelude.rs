// ---- additional trusted model for the call dispatcher (calls unit) ----------------------------------------------

pub uninterp spec fn o_native(o: ObjectRef) -> NativeRef;
/// does `n` arguments fit the arity the function declares (Fun::check_if_valid_call, verified in the native unit)
pub uninterp spec fn fun_accepts(f: FunRef, n: u8) -> bool;

impl ObjectRef {
  #[verifier::external_body] pub fn to_closure(&self) -> (r: ClosureRef) requires o_kind(*self) == ObjectKind::Closure ensures r == o_closure(*self) { ClosureRef { p: 0 } }
  #[verifier::external_body] pub fn to_native(&self) -> (r: NativeRef) requires o_kind(*self) == ObjectKind::Native ensures r == o_native(*self) { NativeRef { p: 0 } }
}
/// GcHooks::new(self): a handle used only to allocate
pub struct GcHooksStub { }
pub uninterp spec fn inherits_log(vm: Vm) -> Seq<(ClassRef, ClassRef)>;
impl ClassRef {
  /// real: copies the super class's method and field tables into the (fresh) sub class and records the parent.
  /// A-shape: the compiler emits Inherit directly after Class, so the sub class has no methods or fields yet
  /// (the real body debug_asserts exactly that).
  #[verifier::external_body] pub fn inherit(&mut self, hooks: &GcHooksStub, super_class: ClassRef) ensures *final(self) == *old(self) { }
  #[verifier::external_body] pub fn meta_from_super(&mut self, hooks: &GcHooksStub) ensures *final(self) == *old(self) { }
}
impl ClosureRef {
  #[verifier::external_body] pub fn fun(&self) -> (r: FunRef) ensures r == closure_fun(*self) { FunRef { p: 0 } }
  #[verifier::external_body] pub fn captures(&self) -> (r: CapturesRef) ensures r == closure_captures(*self) { CapturesRef { p: 0 } }
}
impl FunRef {
  #[verifier::external_body] pub fn check_if_valid_call(&self, arg_count: u8) -> (r: Result<(), LyStr>) ensures (r is Ok) == fun_accepts(*self, arg_count) { Ok(()) }
}

impl Vm {
  #[verifier::external_body]
  pub fn call_method(&mut self, method: MethodRef, arg_count: u8) -> (r: ExecutionSignal)
    ensures final(self).call_log@ == old(self).call_log@.push(Dispatched::Method(method, arg_count)), final(self).fiber.frames == old(self).fiber.frames, final(self).raised == old(self).raised,
            r == ExecutionSignal::Ok || r == ExecutionSignal::OkReturn || r == ExecutionSignal::RuntimeError || r == ExecutionSignal::Exit
  { ExecutionSignal::Ok }
  #[verifier::external_body]
  pub fn call_native(&mut self, native: NativeRef, arg_count: u8) -> (r: ExecutionSignal)
    ensures final(self).call_log@ == old(self).call_log@.push(Dispatched::Native(native, arg_count)), final(self).fiber.frames == old(self).fiber.frames, final(self).raised == old(self).raised,
            r == ExecutionSignal::Ok || r == ExecutionSignal::OkReturn || r == ExecutionSignal::RuntimeError || r == ExecutionSignal::Exit
  { ExecutionSignal::Ok }
  #[verifier::external_body]
  pub fn call_class(&mut self, class: ClassRef, arg_count: u8) -> (r: ExecutionSignal)
    ensures final(self).call_log@ == old(self).call_log@.push(Dispatched::Class(class, arg_count)), final(self).fiber.frames == old(self).fiber.frames, final(self).raised == old(self).raised,
            r == ExecutionSignal::Ok || r == ExecutionSignal::OkReturn || r == ExecutionSignal::RuntimeError || r == ExecutionSignal::Exit
  { ExecutionSignal::Ok }

  /// real: store ip, Fiber::push_frame (reserves the stack, raw pointers), load ip, current_fun = closure
  #[verifier::external_body]
  pub fn push_frame(&mut self, closure: FunRef, captures: CapturesRef, arg_count: u8)
    ensures final(self).fiber.frames@ == old(self).fiber.frames@.push(Frame { fun: closure, captures, arg_count }),
            final(self).fiber.stack == old(self).fiber.stack, final(self).raised == old(self).raised, final(self).call_log == old(self).call_log,
            final(self).builtin == old(self).builtin, final(self).capture_stub == old(self).capture_stub
  { }

  /// raise a runtime error whose message was already built
  #[verifier::external_body]
  pub fn runtime_error(&mut self, error: ClassRef, message: LyStr) -> (r: ExecutionSignal)
    ensures r == ExecutionSignal::RuntimeError, final(self).raised@ == Some(error), final(self).fiber.frames == old(self).fiber.frames, final(self).call_log == old(self).call_log,
            final(self).builtin == old(self).builtin
  { ExecutionSignal::RuntimeError }
}

// R12: match_obj! copied from laythe_core/src/macros.rs with `$crate::` prefixes and `use` lines removed; to_obj_kind! is
// extended here with the kinds the dispatcher names
macro_rules! to_obj_kind2 {
  ($o:expr, Closure) => { $o.to_closure() };
  ($o:expr, Method) => { $o.to_method() };
  ($o:expr, Native) => { $o.to_native() };
  ($o:expr, Class) => { $o.to_class() };
  ($o:expr, Fun) => { $o.to_fun() };
  ($o:expr, LyBox) => { $o.to_box() };
}
macro_rules! match_obj {
  (($scrutinee:expr) {
    $(ObjectKind::$obj_kind:ident($p:pat) => $e:expr,)*
    $(_ => $d:expr,)?
  }) => {
    {
      let object: &ObjectRef = $scrutinee;
      match object.kind() {
        $(ObjectKind::$obj_kind => {
          let $p = to_obj_kind2!(object, $obj_kind);
          $e
        })*
        $(_ => $d)?
      }
    }
  };
}
