// ---- trusted model (A-compiler) ------------------------------------------------------------------------------------------------------------------
/// a resolved symbol as the compiler sees it (the resolver's final table)
pub struct Symbol { pub name: Ghost<Seq<char>>, pub st: SymbolState }
impl Symbol {
  #[verifier::external_body] pub fn state(&self) -> (r: SymbolState) ensures r == self.st { SymbolState::Uninitialized }
  #[verifier::external_body] pub fn clone(&self) -> (r: Symbol) ensures r == *self { unimplemented!() }
}
/// a block's symbol table of the resolver
#[derive(Clone, Copy)] pub struct Table { pub p: usize }
pub uninterp spec fn tab_sym(t: Table, name: Seq<char>) -> Option<Symbol>;
impl Table {
  #[verifier::external_body] pub fn get(&self, name: &str) -> (r: Option<&Symbol>)
    ensures tab_sym(*self, name@) is None ==> r is None, tab_sym(*self, name@) matches Some(s) ==> (r matches Some(sym) && *sym == s) { None }
}
#[derive(Clone, Copy)] pub struct Span { pub start: u32, pub end: u32 }
#[derive(Clone, Copy)] pub struct Token { pub name: Ghost<Seq<char>>, pub hi: u32 }
impl Token {
  #[verifier::external_body] pub fn str(&self) -> (r: &str) ensures r@ == self.name@ { "" }
  #[verifier::external_body] pub fn end(&self) -> (r: u32) ensures r == self.hi { 0 }
}
pub struct Expr { pub id: u64 }
pub struct Let { pub name: Token, pub value: Option<Expr>, pub sp: Span }
impl Let { #[verifier::external_body] pub fn span(&self) -> (r: Span) ensures r == self.sp { unimplemented!() } }
/// the instructions an expression compiles to (one value on top of the stack: the Compiler::expr family, compilerd / propcomp units)
pub uninterp spec fn expr_code(e: Expr) -> Seq<(SymbolicByteCode, u32)>;
/// state and name slot of a module-level name; the instructions that store the top of the stack in it
pub uninterp spec fn mod_var(name: Seq<char>) -> (SymbolState, u16);
pub uninterp spec fn mod_define_code(name: Seq<char>, span: Span) -> Seq<(SymbolicByteCode, u32)>;
impl Token { #[verifier::external_body] pub fn span(&self) -> (r: Span) ensures r == tok_span(*self) { unimplemented!() } }
pub uninterp spec fn tok_span(t: Token) -> Span;
#[derive(Clone, Copy)] pub enum FunKind { Fun, Method, StaticMethod, Initializer, Script }
pub struct Fun { pub name: Option<Token>, pub id: u64, pub sp: Span }
impl Fun { #[verifier::external_body] pub fn span(&self) -> (r: Span) ensures r == self.sp { unimplemented!() } }
/// the instructions that build a function value (a child compiler, the Closure instruction: funcc unit)
pub uninterp spec fn fun_code(id: u64) -> Seq<(SymbolicByteCode, u32)>;
pub struct FunName { }
impl FunName { #[verifier::external_body] pub fn name(&self) -> (r: &str) { "" } }
#[verifier::external_body] pub fn verif_fmt() -> (r: &'static str) { "" }

pub struct Compiler {
  pub locals: Vec<Local>,
  pub local_tables: Vec<Table>,
  pub scope_depth: usize,
  pub fun: FunName,
  /// ghost: the instructions emitted with their line / offset, in order
  pub code: Ghost<Seq<(SymbolicByteCode, u32)>>,
  /// ghost: number of diagnostics recorded (a compilation with one is never run)
  pub errors: Ghost<nat>,
}
/// every local was declared at or below the current depth, deeper ones later
pub open spec fn locals_wf(c: &Compiler) -> bool {
  &&& forall|i: int| 0 <= i < c.locals@.len() ==> #[trigger] c.locals@[i].depth <= c.scope_depth
  &&& forall|i: int, j: int| 0 <= i <= j < c.locals@.len() ==> c.locals@[i].depth <= c.locals@[j].depth
}
/// the number of locals declared at or below `depth`
pub open spec fn kept(s: Seq<Local>, depth: int) -> int decreases s.len() {
  if s.len() == 0 { 0 } else if s.last().depth > depth { kept(s.drop_last(), depth) } else { s.len() as int }
}
pub open spec fn drops(n: int, line: u32) -> Seq<(SymbolicByteCode, u32)> { Seq::new(n as nat, |i: int| (SymbolicByteCode::Drop, line)) }

/// the body of a block as handed to scope
pub struct ScopeBody { }
impl ScopeBody {
  /// A-compiler: the statements of a block declare locals at the block's depth (inner blocks have closed theirs: the functions under contract
  /// here), leave the locals that were there alone, and leave depth and table stack as they found them
  #[verifier::external_body]
  pub fn verif_run(self, c: &mut Compiler)
    requires locals_wf(old(c)), old(c).scope_depth >= 1,
    ensures locals_wf(final(c)), final(c).scope_depth == old(c).scope_depth, final(c).local_tables == old(c).local_tables,
      final(c).locals@.len() >= old(c).locals@.len(), final(c).locals@.subrange(0, old(c).locals@.len() as int) == old(c).locals@,
      forall|i: int| old(c).locals@.len() <= i < final(c).locals@.len() ==> #[trigger] final(c).locals@[i].depth == old(c).scope_depth,
      final(c).code@.len() >= old(c).code@.len(), final(c).code@.subrange(0, old(c).code@.len() as int) == old(c).code@,
  { unimplemented!() }
}
impl Compiler {
  #[verifier::external_body] pub fn emit_byte(&mut self, op: SymbolicByteCode, offset: u32)
    ensures final(self).locals == old(self).locals, final(self).local_tables == old(self).local_tables, final(self).scope_depth == old(self).scope_depth,
      final(self).errors == old(self).errors, final(self).code@ == old(self).code@.push((op, offset)) { }
  #[verifier::external_body] pub fn error(&mut self, message: &str, span: Option<Span>)
    ensures final(self).locals == old(self).locals, final(self).local_tables == old(self).local_tables, final(self).scope_depth == old(self).scope_depth,
      final(self).code == old(self).code, final(self).errors@ == old(self).errors@ + 1 { }
  #[verifier::external_body] pub fn expr(&mut self, expr: &Expr)
    ensures final(self).locals == old(self).locals, final(self).local_tables == old(self).local_tables, final(self).scope_depth == old(self).scope_depth,
      final(self).code@ == old(self).code@ + expr_code(*expr) { }
  #[verifier::external_body] pub fn function(&mut self, fun: &Fun, fun_kind: FunKind)
    ensures final(self).locals == old(self).locals, final(self).local_tables == old(self).local_tables, final(self).scope_depth == old(self).scope_depth,
      final(self).code@ == old(self).code@ + fun_code(fun.id) { }
  #[verifier::external_body] pub fn load_module_variable(&mut self, name: &str) -> (r: (SymbolState, u16))
    ensures final(self).locals == old(self).locals, final(self).local_tables == old(self).local_tables, final(self).scope_depth == old(self).scope_depth,
      final(self).code == old(self).code, final(self).errors == old(self).errors, r == mod_var(name@) { unimplemented!() }
  #[verifier::external_body] pub fn define_module_variable(&mut self, name: &str, span: Span)
    ensures final(self).locals == old(self).locals, final(self).local_tables == old(self).local_tables, final(self).scope_depth == old(self).scope_depth,
      final(self).code@ == old(self).code@ + mod_define_code(name@, span) { }
  /// `self.local_tables.last().expect(..)`: the innermost block's table
  #[verifier::external_body] pub fn verif_last_table(&self) -> (r: Table) requires self.local_tables@.len() > 0 ensures r == self.local_tables@.last() { unimplemented!() }
}
