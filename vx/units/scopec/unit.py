"""C01 / C06 (slot discipline of block scopes): Compiler::{scope, begin_scope, end_scope, drop_locals, drop_local_count, push_local,
declare_local_variable, define_local_variable, declare_variable, define_variable, let_, fun}, extracted as they are.  Locals are addressed by their position in `locals`, which must be the
number of stack slots below them: declaring a local appends exactly one entry at the current depth (and the EmptyBox of a captured one), and
leaving a block emits one Drop for every local the block declared — those deeper than the depth returned to, no more, no fewer — removes exactly
those entries and pops the block's symbol table.  emit_byte / error are logging stubs; the scope body is a stub that may declare locals at its own
depth or deeper and must leave the depth as it found it."""
UNIT = dict(
  name='scopec',
  properties=['C01', 'C06'],
  items=[
    ('laythe_vm/src/byte_code.rs', ['struct Label', 'enum CaptureIndex', 'enum SymbolicByteCode']),
    ('laythe_vm/src/compiler/ir/symbol_table.rs', ['enum SymbolState']),
    ('laythe_vm/src/compiler/mod.rs', ['struct Local', ("impl<'a, 'src: 'a> Compiler<'a, 'src>", ['scope', 'begin_scope', 'end_scope', 'drop_locals', 'drop_local_count', 'push_local', 'declare_local_variable', 'define_local_variable', 'declare_variable', 'define_variable', 'let_', 'fun'])]),
  ],
  rewrites=[
    ('R7f', 'struct Label'),
    ('R11', 'struct Label', dict(drop=['Debug', 'Default', 'VariantCount'], add=['Structural'])),
    ('R11', 'enum CaptureIndex', dict(drop=['Debug', 'Default', 'VariantCount'], add=['Structural'])),
    ('R11', 'enum SymbolicByteCode', dict(drop=['Debug', 'Default', 'VariantCount'], add=['Structural'])),
    ('R11', 'enum SymbolicByteCode', dict(pat='  #[default]\n', rep='', count=1)),
    ('R11', 'enum SymbolicByteCode', dict(pat='  #[allow(dead_code)]\n', rep='', count=1)),
    ('R11', 'enum SymbolState', dict(drop=['Debug', 'Default'], add=['Structural'])),
    ('R11', 'enum SymbolState', dict(pat='  #[default]\n', rep='', count=1)),
    ('R11', 'struct Local', dict(drop=['Debug'], add=[])),
    ('R7f', 'struct Local'),
    ('R5', 'struct Local', dict(pat="pub struct Local<'a>", rep='pub struct Local', count=1)),
    ('R6', 'struct Local', dict(pat="&'a Symbol", rep='Symbol', count=1)),
    ('R5', 'kind:implhdr', dict(pat=r"impl<'a, 'src: 'a> Compiler<'a, 'src> \{", rep='impl Compiler {', regex=True, optional=True)),
    ('R7', 'Compiler::*', dict(pat=r'^(\s*(?:///?[^\n]*\n\s*)*)fn ', rep=r'\1pub fn ', regex=True, optional=True)),
    ('R6', 'Compiler::*', dict(pat=r"&'a SymbolTable<'src>", rep='Table', regex=True, optional=True)),
    ('R6', 'Compiler::push_local', dict(pat="symbol: &'a Symbol", rep='symbol: Symbol', count=1)),
    # the scope body: a closure over &mut Self (Verus: unsupported) -> a stub that states what a block body may do
    ('R4', 'Compiler::scope', dict(pat='cb: impl FnOnce(&mut Self)', rep='cb: ScopeBody', count=1)),
    ('R4', 'Compiler::scope', dict(pat='cb(self);', rep='cb.verif_run(self);', count=1)),
    ('R13r', 'Compiler::drop_locals'),
    ('R5', 'Compiler::let_', dict(pat="&'a ast::Let<'src>", rep='&Let', count=1)),
    ('R5', 'Compiler::fun', dict(pat="&'a ast::Fun<'src>", rep='&Fun', count=1)),
    ('R8', 'Compiler::declare_local_variable'),
    # the innermost table (`Vec::last().expect(..)`) and the symbol the resolver put there, by value in the model
    ('R6', 'Compiler::declare_local_variable', dict(pat=r'let table = self\s*\.local_tables\s*\.last\(\)\s*\.expect\("Expected local symbol table\."\);', rep='let table = self.verif_last_table();', regex=True, count=1)),
    ('R6', 'Compiler::declare_local_variable', dict(pat='self.push_local(symbol);', rep='self.push_local(symbol.clone());', count=1)),
  ],
  assumption_ids=['A-compiler', 'A-resolver'],
)
