pub proof fn lemma_kept(s: Seq<Local>, depth: int)
  requires forall|i: int, j: int| 0 <= i <= j < s.len() ==> s[i].depth <= s[j].depth,
  ensures 0 <= kept(s, depth) <= s.len(),
    forall|i: int| 0 <= i < kept(s, depth) ==> #[trigger] s[i].depth <= depth,
    forall|i: int| kept(s, depth) <= i < s.len() ==> #[trigger] s[i].depth > depth,
  decreases s.len(),
{
  if s.len() > 0 && s.last().depth > depth {
    lemma_kept(s.drop_last(), depth);
    assert forall|i: int| kept(s, depth) <= i < s.len() implies #[trigger] s[i].depth > depth by {
      if i < s.len() - 1 { assert(s.drop_last()[i] == s[i]); }
    }
    assert forall|i: int| 0 <= i < kept(s, depth) implies #[trigger] s[i].depth <= depth by { assert(s.drop_last()[i] == s[i]); }
  }
}
