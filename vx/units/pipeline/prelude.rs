// ---- trusted model of the plumbing around peephole_compile (pipeline unit) ---------------------------------------------
/// bumpalo arena
#[verifier::external_body]
pub struct Bump { _p: u8 }
/// bumpalo::vec![in alloc; 0; n]
#[verifier::external_body]
pub fn verif_zeros(alloc: &Bump, n: usize) -> (r: Vec<usize>) ensures r@.len() == n, forall|i: int| 0 <= i < n ==> r@[i] == 0 { Vec::new() }
#[verifier::external_body]
pub fn verif_with_capacity_in<T>(n: usize, alloc: &Bump) -> (r: Vec<T>) ensures r@.len() == 0 { Vec::new() }
#[verifier::external_body]
pub fn verif_new_in<T>(alloc: &Bump) -> (r: Vec<T>) ensures r@.len() == 0 { Vec::new() }

/// ChunkBuilder: the three parallel vectors the compiler filled (write_instruction is verified in the lines unit)
/// a constant (laythe Value); opaque
pub struct ConstV { pub p: usize }
pub struct ChunkBuilder { pub instructions: Vec<SymbolicByteCode>, pub constants: Vec<ConstV>, pub lines: Vec<u16> }
impl ChunkBuilder {
  pub fn take(self) -> (r: (Vec<SymbolicByteCode>, Vec<ConstV>, Vec<u16>)) ensures r.0 == self.instructions, r.2 == self.lines { (self.instructions, self.constants, self.lines) }
}
/// a managed array handle (Array<T, Header>): Copy, remembers its length
pub struct ArrayH<T> { pub n: usize, pub _t: core::marker::PhantomData<T> }
impl<T> Clone for ArrayH<T> { #[verifier::external_body] fn clone(&self) -> (r: Self) ensures r == *self { ArrayH { n: self.n, _t: core::marker::PhantomData } } }
impl<T> Copy for ArrayH<T> {}
impl<T> ArrayH<T> { pub fn len(&self) -> (r: usize) ensures r == self.n { self.n } }
#[verifier::external_body]
pub struct GcHooks { _p: u8 }
impl GcHooks {
  #[verifier::external_body] pub fn verif_manage<T>(&self, v: &Vec<T>) -> (r: ArrayH<T>) ensures r.n == v@.len() { ArrayH { n: 0, _t: core::marker::PhantomData } }
  #[verifier::external_body] pub fn push_root<T>(&self, x: T) { }
}
impl Chunk {
  pub uninterp spec fn code_len(&self) -> int;
  #[verifier::external_body] pub fn new(instructions: ArrayH<u8>, constants: ArrayH<ConstV>, lines: ArrayH<u16>) -> (r: Chunk) ensures r.code_len() == instructions.n { unimplemented!() }
}
