// ---- pipeline unit: what is ASSUMED about the optimised program at the composition point (A-shape, A-lin) -------------------
/// A-lin: the linear stack simulation stays inside [0, 65535] (NOT true in general: findings D1/D2/D4)
pub open spec fn lin_ok(code: Seq<SymbolicByteCode>) -> bool { forall|k: int| 0 <= k <= code.len() ==> 0 <= #[trigger] lin_depth(code, k) <= 65535 }
/// A-shape: label ids are dense (LabelEmitter hands them out in order) ...
pub open spec fn labels_dense(code: Seq<SymbolicByteCode>) -> bool {
  forall|k: int| 0 <= k < code.len() ==> (#[trigger] code[k] matches SymbolicByteCode::Label(l) ==> (l.0 as int) < count_labels(code, code.len() as int))
}
/// ... every label is placed once ...
pub open spec fn labels_once(code: Seq<SymbolicByteCode>) -> bool {
  forall|j: int, k: int| 0 <= j < k < code.len() && (code[j] is Label) ==> code[j] != code[k]
}
/// ... and every jump names a placed label: behind it for Loop, ahead of it for everything else
pub open spec fn targets_placed(code: Seq<SymbolicByteCode>) -> bool {
  forall|k: int| 0 <= k < code.len() ==> (#[trigger] jump_target(code[k]) matches Some(l) ==>
    exists|j: int| 0 <= j < code.len() && code[j] == SymbolicByteCode::Label(l) && (if code[k] is Loop { j <= k } else { j > k }))
}
pub open spec fn pipeline_shape(code: Seq<SymbolicByteCode>) -> bool { lin_ok(code) && labels_dense(code) && labels_once(code) && targets_placed(code) }

/// the handler-depth rewrite of apply_stack_effects changes neither labels, nor jump targets, nor encoded lengths
pub proof fn lemma_same_shape(a: Seq<SymbolicByteCode>, b: Seq<SymbolicByteCode>, k: int)
  requires a.len() == b.len(), forall|i: int| 0 <= i < a.len() ==> same_but_handler_depth(a[i], #[trigger] b[i]), 0 <= k <= a.len(),
  ensures prefix_len(b, k) == prefix_len(a, k), count_labels(b, k) == count_labels(a, k),
  decreases k
{
  if k > 0 { lemma_same_shape(a, b, k - 1); }
}

pub proof fn lemma_shape_carries(a: Seq<SymbolicByteCode>, b: Seq<SymbolicByteCode>)
  requires a.len() == b.len(), forall|i: int| 0 <= i < a.len() ==> same_but_handler_depth(a[i], #[trigger] b[i]),
           labels_dense(a), labels_once(a), targets_placed(a),
  ensures labels_dense(b), labels_once(b), targets_placed(b),
{
  lemma_same_shape(a, b, a.len() as int);
  assert forall|k: int| 0 <= k < b.len() implies (#[trigger] jump_target(b[k]) matches Some(l) ==>
    exists|j: int| 0 <= j < b.len() && b[j] == SymbolicByteCode::Label(l) && (if b[k] is Loop { j <= k } else { j > k })) by {
    assert(same_but_handler_depth(a[k], b[k]));
    if jump_target(b[k]) is Some {
      let l = jump_target(b[k])->0;
      assert(jump_target(a[k]) == Some(l));
      let j = choose|j: int| 0 <= j < a.len() && a[j] == SymbolicByteCode::Label(l) && (if a[k] is Loop { j <= k } else { j > k });
      assert(same_but_handler_depth(a[j], b[j]));
      assert(b[j] == SymbolicByteCode::Label(l));
    }
  }
  assert forall|j: int, k: int| 0 <= j < k < b.len() && (b[j] is Label) implies b[j] != b[k] by {
    assert(same_but_handler_depth(a[j], b[j])); assert(same_but_handler_depth(a[k], b[k]));
  }
  assert forall|k: int| 0 <= k < b.len() implies (#[trigger] b[k] matches SymbolicByteCode::Label(l) ==> (l.0 as int) < count_labels(b, b.len() as int)) by {
    assert(same_but_handler_depth(a[k], b[k]));
  }
}

/// compute_label_offsets' table + the placement assumption give the encoder's `jumps_shaped`
pub proof fn lemma_jumps_shaped(code: Seq<SymbolicByteCode>, lo: Seq<usize>)
  requires
    labels_dense(code), targets_placed(code), lo.len() == count_labels(code, code.len() as int),
    forall|k: int| 0 <= k < code.len() ==> (#[trigger] code[k] matches SymbolicByteCode::Label(l) ==> lo[l.0 as int] == prefix_len(code, k)),
  ensures jumps_shaped(code, lo),
{
  assert forall|k: int| 0 <= k < code.len() implies (#[trigger] jump_target(code[k]) matches Some(l) ==>
    (l.0 as int) < lo.len() && jump_dist(code, lo, k) >= 0 && (code[k] is Loop ==> lo[l.0 as int] <= prefix_len(code, k))) by {
    if jump_target(code[k]) is Some {
      let l = jump_target(code[k])->0;
      let j = choose|j: int| 0 <= j < code.len() && code[j] == SymbolicByteCode::Label(l) && (if code[k] is Loop { j <= k } else { j > k });
      assert(code[j] matches SymbolicByteCode::Label(l2) ==> lo[l2.0 as int] == prefix_len(code, j));
      assert(lo[l.0 as int] == prefix_len(code, j));
      if code[k] is Loop {
        lemma_prefix_len_mono(code, j, k);
        lemma_prefix_len_mono(code, k, k + 1);
      } else {
        lemma_prefix_len_mono(code, k + 1, j);
      }
    }
  }
}
