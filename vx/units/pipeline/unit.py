"""C06 / C12 / C15 / C18 glue: the real `peephole_compile` (optimise -> count labels -> stack effects -> label offsets -> encode -> build)
verified against the CONTRACTS of its callees, which are verified against their bodies in the peephole and bytecode units.
The callee stubs are generated on every run: hand-written signature here + the spec text taken verbatim from the home unit's
contracts.vrs (so a strengthened or weakened home contract is what this unit sees)."""
import os, sys
sys.path.insert(0, os.path.join(os.path.dirname(os.path.abspath(__file__)), '..', '..'))
_ENUM_DERIVE = dict(drop=['Debug', 'Default', 'VariantCount'], add=['Structural'])

# (home unit, contract key, stub text with {spec} placeholder)
STUBS = [
  ('peephole', 'peephole_optimize', 'pub fn peephole_optimize(instructions: Vec<SymbolicByteCode>, lines: Vec<u16>) -> (r: (Vec<SymbolicByteCode>, Vec<u16>))\n{spec}\n{{ unimplemented!() }}'),
  ('peephole', 'label_count', 'pub fn label_count(instructions: &Vec<SymbolicByteCode>) -> (r: usize)\n{spec}\n{{ unimplemented!() }}'),
  ('peephole', 'apply_stack_effects', 'pub fn apply_stack_effects(fun_builder: &mut FunBuilder, instructions: &mut Vec<SymbolicByteCode>)\n{spec}\n{{ unimplemented!() }}'),
  ('peephole', 'compute_label_offsets', 'pub fn compute_label_offsets(instructions: &Vec<SymbolicByteCode>, label_offsets: &mut Vec<usize>)\n{spec}\n{{ unimplemented!() }}'),
  ('peephole', 'FunBuilder::build', 'impl FunBuilder {{ #[verifier::external_body] pub fn build(self, chunk: Chunk) -> (r: Fun)\n{spec}\n{{ unimplemented!() }} }}'),
  ('bytecode', 'ByteCodeEncoder::new', 'impl ByteCodeEncoder {{ #[verifier::external_body] pub fn new(encoded_lines: Vec<u16>, encoded_code: Vec<u8>, errors: Vec<Diag>, cache_id_emitter: CacheIdRc) -> (r: Self)\n{spec}\n{{ unimplemented!() }} }}'),
  ('bytecode', 'ByteCodeEncoder::encode', 'impl ByteCodeEncoder {{ #[verifier::external_body] pub fn encode(self, symbolic_code: &Vec<SymbolicByteCode>, symbolic_lines: &Vec<u16>, label_offsets: &Vec<usize>) -> (r: EncodeResult)\n{spec}\n{{ unimplemented!() }} }}'),
]

def generate(repo):
  import engine
  out = ['// ---- callee stubs: signature written here, SPEC copied from the home unit (verified there against the real body) ----']
  cache = {}
  for home, key, tmpl in STUBS:
    if home not in cache:
      cache[home] = engine.parse_contracts(os.path.join(os.path.dirname(os.path.abspath(__file__)), '..', home, 'contracts.vrs'))
    c = cache[home].get(key)
    if c is None or not c.spec.strip(): raise engine.Undecided('pipeline: home contract %s/%s not found' % (home, key))
    text = tmpl.format(spec=c.spec)
    if not text.startswith('impl '): text = '#[verifier::external_body]\n' + text
    out.append('/// contract of %s (unit %s)\n%s\n' % (key, home, text))
  return dict(prelude='\n'.join(out), contracts='')

UNIT = dict(
  name='pipeline',
  properties=['C06', 'C12', 'C15', 'C18'],
  shared=['isa.rs'],
  prelude_files=['../peephole/prelude.rs', '../bytecode/prelude.rs', 'prelude.rs'],
  spec_files=['../bytecode/spec.rs', '../peephole/spec.rs'],
  generate=generate,
  items=[
    ('laythe_vm/src/byte_code.rs', ['struct Label', ('impl Label', ['new', 'val']), 'enum CaptureIndex', 'enum SymbolicByteCode', 'enum ByteCode',
                                    'struct ByteCodeEncoder', 'struct EncodedChunk', 'type EncodeResult']),
    ('laythe_core/src/object/fun.rs', ['struct FunBuilder', 'struct Fun']),
    ('laythe_vm/src/compiler/peephole.rs', ['struct VecCursor', 'fn peephole_compile']),
  ],
  rewrites=[
    ('R7f', 'struct Label'), ('R7f', 'struct VecCursor'), ('R7f', 'struct FunBuilder'), ('R7f', 'struct ByteCodeEncoder'),
    ('R7', 'struct VecCursor', dict(pat='struct VecCursor', rep='pub struct VecCursor', count=1)),
    ('R10', 'struct FunBuilder', dict(keep=['max_slots'])),
    ('R7f', 'struct Fun'), ('R10', 'struct Fun', dict(keep=['max_slot'])), ('R11', 'struct Fun', dict(drop=['Clone'])),
    ('R11', 'struct Label', _ENUM_DERIVE), ('R11', 'enum CaptureIndex', _ENUM_DERIVE), ('R11', 'enum SymbolicByteCode', _ENUM_DERIVE), ('R11', 'enum ByteCode', _ENUM_DERIVE),
    ('R11', 'enum SymbolicByteCode', dict(pat='  #[default]\n', rep='', count=1)),
    ('R11', 'enum SymbolicByteCode', dict(pat='  #[allow(dead_code)]\n', rep='', count=1)),
    ('R5', 'struct ByteCodeEncoder', dict(pat=r"Vec<'a, ", rep='Vec<', count=3)),
    ('R5', 'struct ByteCodeEncoder', dict(pat="ByteCodeEncoder<'a>", rep='ByteCodeEncoder', count=1)),
    ('R5', 'struct EncodedChunk', dict(pat=r"Vec<'a, ", rep='Vec<', count=2)),
    ('R5', 'struct EncodedChunk', dict(pat="EncodedChunk<'a>", rep='EncodedChunk', count=1)),
    ('R5', 'type EncodeResult', dict(pat="type EncodeResult<'a> = Result<EncodedChunk<'a>, Vec<'a, Diagnostic<VmFileId>>>;", rep='pub type EncodeResult = Result<EncodedChunk, Vec<Diag>>;', count=1)),
    ('R6', 'struct ByteCodeEncoder', dict(pat='Diagnostic<VmFileId>', rep='Diag', count=1)),
    ('R6', 'struct ByteCodeEncoder', dict(pat='Rc<RefCell<CacheIdEmitter>>', rep='CacheIdRc', count=1)),
    # ---- peephole_compile: arena and GC plumbing (R5 / R6) ----
    ('R5', 'peephole_compile', dict(pat="pub fn peephole_compile<'a>(", rep='pub fn peephole_compile(', count=1)),
    ('R5', 'peephole_compile', dict(pat="alloc: &'a Bump,", rep='alloc: &Bump,', count=1)),
    ('R6', 'peephole_compile', dict(pat='cache_id_emitter: Rc<RefCell<CacheIdEmitter>>,', rep='cache_id_emitter: CacheIdRc,', count=1)),
    ('R5', 'peephole_compile', dict(pat="Result<Fun, collections::Vec<'a, Diagnostic<VmFileId>>>", rep='Result<Fun, Vec<Diag>>', count=1)),
    ('R5', 'peephole_compile', dict(pat=r'let mut label_offsets: collections::Vec<usize> = bumpalo::vec!\[in alloc; 0; ([^\]]+)\];', rep=r'let mut label_offsets: Vec<usize> = verif_zeros(alloc, \1);', regex=True, count=1)),
    ('R5', 'peephole_compile', dict(pat='collections::Vec::with_capacity_in(', rep='verif_with_capacity_in(', count=2)),
    ('R5', 'peephole_compile', dict(pat='collections::Vec::new_in(alloc)', rep='verif_new_in(alloc)')),
    ('R6', 'peephole_compile', dict(pat=r'Diagnostic::error\(\)\.with_message\("[^"]*"\)', rep='verif_diag()', regex=True, optional=True)),
    # R6s: `&mut v[..n]` / `&v[..n]` of a vector whose length is n: the whole vector is passed; the slice bound check and the
    # equality of the two sequences are obligations of the spliced asserts (contracts.vrs)
    ('R6s', 'peephole_compile', dict(pat='&mut label_offsets[..label_count]', rep='&mut label_offsets', count=1)),
    ('R6s', 'peephole_compile', dict(pat='&label_offsets[..label_count]', rep='&label_offsets', count=1)),
    ('R6', 'peephole_compile', dict(pat='hooks.manage(&*', rep='hooks.verif_manage(&', count=3)),
    ('R3', 'peephole_compile', dict(pat='assert_eq!(lines.len(), instructions.len());', rep='assert!(lines.len() == instructions.len());', count=1)),
  ],
  assumption_ids=['A-shape', 'A-delim', 'A-mem', 'A-lin'],
)
