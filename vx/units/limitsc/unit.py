"""C15 (compiler limits reported as diagnostics) / C06: Compiler::{make_constant, emit_constant, add_capture} and FunBuilder::{inc_capture,
capture_count}: the index an instruction carries names exactly the constant / capture it was asked for — the narrowing `as u8` / `as u16` is
exact — or a diagnostic has been recorded (and then nothing from this text runs); the u8 capture counter cannot overflow."""
UNIT = dict(
  name='limitsc',
  properties=['C15', 'C06', 'C02', 'C01'],
  items=[
    ('laythe_vm/src/byte_code.rs', ['struct Label', 'enum CaptureIndex', 'enum SymbolicByteCode']),
    ('laythe_core/src/object/fun.rs', ['struct FunBuilder', ('impl FunBuilder', ['inc_capture', 'capture_count'])]),
    ('laythe_vm/src/compiler/mod.rs', [("impl<'a, 'src: 'a> Compiler<'a, 'src>", ['make_constant', 'emit_constant', 'add_capture'])]),
  ],
  rewrites=[
    ('R7f', 'struct Label'),
    ('R11', 'struct Label', dict(drop=['Debug', 'Default', 'VariantCount'], add=['Structural'])),
    ('R11', 'enum CaptureIndex', dict(drop=['Debug', 'Default', 'VariantCount'], add=['Structural'])),
    ('R11', 'enum SymbolicByteCode', dict(drop=['Debug', 'Default', 'VariantCount'], add=['Structural'])),
    ('R11', 'enum SymbolicByteCode', dict(pat='  #[default]\n', rep='', count=1)),
    ('R11', 'enum SymbolicByteCode', dict(pat='  #[allow(dead_code)]\n', rep='', count=1)),
    ('R10', 'struct FunBuilder', dict(keep=['capture_count'])),
    ('R7f', 'struct FunBuilder'),
    ('R5', 'kind:implhdr', dict(pat=r"impl<'a, 'src: 'a> Compiler<'a, 'src> \{", rep='impl Compiler {', regex=True, optional=True)),
    ('R7', 'Compiler::*', dict(pat=r'^(\s*(?:///?[^\n]*\n\s*)*)fn ', rep=r'\1pub fn ', regex=True, optional=True)),
    # R4: position() with a closure over (existing, new) -> the stub that states which captures count as the same (Local with the same slot)
    ('R4', 'Compiler::add_capture', dict(pat=r'self\s*\.captures\s*\.iter\(\)\s*\.position\(\|existing_capture\| match \(&existing_capture, &capture\) \{\s*\(CaptureIndex::Local\(existing\), CaptureIndex::Local\(new\)\) => \*existing == \*new,\s*_ => false,\s*\}\)',
                                         rep='verif_position_same_local(&self.captures, &capture)', regex=True, count=1)),
  ],
  assumption_ids=['A-compiler', 'A-std'],
)
