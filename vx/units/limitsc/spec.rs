impl Compiler {
  /// the de-duplication map only names constants that are in the table, at indices an instruction can carry
  pub open spec fn consts_ok(&self) -> bool {
    forall|v: Value| #[trigger] self.constants.m@.dom().contains(v) ==> (self.constants.m@[v] as int) < self.chunk.consts@.len() && self.constants.m@[v] <= 65535 && self.chunk.consts@[self.constants.m@[v] as int] == v
  }
  pub open spec fn captures_ok(&self) -> bool { self.fun.capture_count as int == self.captures@.len() }
}
