// ---- trusted model (A-compiler): the constant table, the de-duplication map, the diagnostics list ---------------------------------------------
#[derive(Clone, Copy)] pub struct Value { pub bits: u64 }
pub struct Span { pub start: u32, pub end: u32 }
/// ChunkBuilder as far as constants go
pub struct ChunkB { pub consts: Ghost<Seq<Value>> }
impl ChunkB {
  #[verifier::external_body] pub fn add_constant(&mut self, v: Value) -> (r: usize)
    ensures r == old(self).consts@.len(), final(self).consts@ == old(self).consts@.push(v) { 0 }
}
/// object::Map<Value, usize>: value -> index of its constant
pub struct ConstMap { pub m: Ghost<Map<Value, usize>> }
impl ConstMap {
  #[verifier::external_body] pub fn get(&self, k: &Value) -> (r: Option<&usize>)
    ensures self.m@.dom().contains(*k) ==> r == Some(&self.m@[*k]), !self.m@.dom().contains(*k) ==> r is None { None }
  #[verifier::external_body] pub fn insert(&mut self, k: Value, v: usize) -> (r: Option<usize>) ensures final(self).m@ == old(self).m@.insert(k, v) { None }
}
pub enum Ev { Emit(SymbolicByteCode), Error }
pub struct Compiler {
  pub constants: ConstMap, pub chunk: ChunkB, pub captures: Vec<CaptureIndex>, pub fun: FunBuilder,
  /// ghost: diagnostics recorded so far; instructions emitted
  pub errors: Ghost<nat>, pub log: Ghost<Seq<Ev>>,
}
impl Compiler {
  #[verifier::external_body] pub fn error(&mut self, message: &str, token: Option<Span>)
    ensures final(self).errors@ == old(self).errors@ + 1, final(self).constants == old(self).constants, final(self).chunk == old(self).chunk, final(self).captures == old(self).captures,
      final(self).fun == old(self).fun, final(self).log == old(self).log { }
  #[verifier::external_body] pub fn emit_byte(&mut self, op: SymbolicByteCode, offset: u32)
    ensures final(self).errors == old(self).errors, final(self).constants == old(self).constants, final(self).chunk == old(self).chunk, final(self).captures == old(self).captures,
      final(self).fun == old(self).fun, final(self).log@ == old(self).log@.push(Ev::Emit(op)) { }
}
/// the first capture that is the SAME local slot (only Local captures are de-duplicated)
#[verifier::external_body] pub fn verif_position_same_local(cs: &Vec<CaptureIndex>, c: &CaptureIndex) -> (r: Option<usize>)
  ensures r matches Some(i) ==> i < cs@.len() && cs@[i as int] == *c { None }
