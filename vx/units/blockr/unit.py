"""C02 / C15 (no declaration of a block is skipped by the resolver): Resolver::{block, decl}, extracted as they are.  A block resolves every one
of its declarations, each exactly once, in source order (declaration order is what makes a name refer to the declaration BEFORE its use); a
declaration is resolved by the method of its form (a parse-error node has nothing to resolve).  symbol / export / stmt are stubs that log."""
UNIT = dict(
  name='blockr',
  properties=['C02', 'C15'],
  items=[('laythe_vm/src/compiler/resolver.rs', [("impl<'a, 'src> Resolver<'a, 'src>", ['block', 'decl'])])],
  rewrites=[
    ('R5', 'kind:implhdr', dict(pat=r"^impl<'a, 'src> Resolver<'a, 'src> \{", rep='impl Resolver {', regex=True, count=1)),
    ('R5', 'Resolver::*', dict(pat=r"<'src>", rep='', regex=True, optional=True)),
    ('R5', 'Resolver::*', dict(pat='ast::', rep='', optional=True)),
    ('R7', 'Resolver::*', dict(pat=r'^(\s*(?:///?[^\n]*\n\s*)*)fn ', rep=r'\1pub fn ', regex=True, optional=True)),
    # R13: `for decl in &mut block.decls {` -> index loop (same order); the model's stubs take `&`
    ('R13', 'Resolver::block', dict(pat=r'for decl in &mut block\.decls \{', rep='let mut verif_i: usize = 0;\n    while verif_i < block.decls.len() {\n      let decl = &block.decls[verif_i];', regex=True, count=1)),
    ('R13', 'Resolver::block', dict(pat=r'(?s)(let decl = &block\.decls\[verif_i\];.*?)(\n    \})', rep=r'\1\n      verif_i += 1;\2', regex=True, count=1)),
    ('R6', 'Resolver::block', dict(pat='block: &mut Block', rep='block: &Block', count=1)),
    ('R6', 'Resolver::decl', dict(pat='decl: &mut Decl', rep='decl: &Decl', count=1)),
  ],
  assumption_ids=['A-resolver'],
)
