// ---- trusted model (A-resolver): every other resolver method is a stub that logs ---------------------------------------------------------------
pub struct Node { pub id: int }
pub enum Decl { Symbol(Box<Node>), Export(Box<Node>), Stmt(Box<Node>), Error(Box<Node>) }
pub struct Block { pub decls: Vec<Decl> }
pub enum Which { Symbol, Export, Stmt }
pub enum Ev { Ran(Which, int) }
pub struct Resolver { pub log: Ghost<Seq<Ev>> }
impl Resolver {
  #[verifier::external_body] pub fn symbol(&mut self, n: &Node) ensures final(self).log@ == old(self).log@.push(Ev::Ran(Which::Symbol, n.id)) { }
  #[verifier::external_body] pub fn export(&mut self, n: &Node) ensures final(self).log@ == old(self).log@.push(Ev::Ran(Which::Export, n.id)) { }
  #[verifier::external_body] pub fn stmt(&mut self, n: &Node) ensures final(self).log@ == old(self).log@.push(Ev::Ran(Which::Stmt, n.id)) { }
}
pub open spec fn decl_evs(d: Decl) -> Seq<Ev> {
  match d { Decl::Symbol(n) => seq![Ev::Ran(Which::Symbol, n.id)], Decl::Export(n) => seq![Ev::Ran(Which::Export, n.id)], Decl::Stmt(n) => seq![Ev::Ran(Which::Stmt, n.id)], Decl::Error(_) => Seq::<Ev>::empty() }
}
pub open spec fn decls_evs(s: Seq<Decl>, n: int) -> Seq<Ev> decreases n { if n <= 0 { Seq::<Ev>::empty() } else { decls_evs(s, n - 1) + decl_evs(s[n - 1]) } }
