pub open spec fn methods_evs(ms: Seq<Fun>, n: int, c: int) -> Seq<Ev> decreases n {
  if n <= 0 { Seq::<Ev>::empty() } else { methods_evs(ms, n - 1, c).push(Ev::Method(ms[n - 1].id, FunKind::Method, c, false)) }
}
pub open spec fn statics_evs(ms: Seq<Fun>, n: int, c: int) -> Seq<Ev> decreases n {
  if n <= 0 { Seq::<Ev>::empty() } else { statics_evs(ms, n - 1, c).push(Ev::StaticMethod(ms[n - 1].id, c)) }
}
/// the members of a class, in the order that makes compile-time field positions final before any method uses one
pub open spec fn members_evs(class: &Class, c: int) -> Seq<Ev> {
  (match class.init { Some(i) => seq![Ev::Method(i.id, FunKind::Initializer, c, false)], None => Seq::<Ev>::empty() })
    + seq![Ev::EmitFields(c, false)] + methods_evs(class.methods@, class.methods@.len() as int, c) + statics_evs(class.static_methods@, class.static_methods@.len() as int, c)
}
/// the set-up of a class before any member is compiled
pub open spec fn setup_evs(class: &Class, c: int) -> Seq<Ev> {
  seq![Ev::Declare(class.name.id), Ev::Const(class.name.id), Ev::Emit(SymbolicByteCode::Class(const_of(class.name.id))), Ev::Define(class.name.id), Ev::NewClass(c, class.name.id),
       Ev::BeginScope, Ev::Declare(name_id(SUPER)), Ev::VarGet(match class.super_class { Some(s) => s.type_ref.name.id, None => object_token() }), Ev::Define(name_id(SUPER)),
       Ev::VarGet(class.name.id), Ev::Emit(SymbolicByteCode::Inherit)]
}
pub open spec fn init_evs(class: &Class, c: int) -> Seq<Ev> {
  (match class.init { Some(i) => seq![Ev::Method(i.id, FunKind::Initializer, c, false)], None => Seq::<Ev>::empty() }) + seq![Ev::EmitFields(c, false)]
}
