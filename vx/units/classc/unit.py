"""C03 / C13 (field numbering, the compiler's order): Compiler::class — the initialiser is compiled BEFORE the Field instructions are emitted (so
every field it assigns has been recorded) and the methods AFTER (so the positions they use are final); the class being compiled is the current
class for exactly its own members and the enclosing one is restored; `has_explicit_super_class` is set before anything of the class is compiled.
Every callee logs (stub-and-log extraction); the contract is the order of the log."""
UNIT = dict(
  name='classc',
  properties=['C03', 'C13'],
  items=[
    ('laythe_vm/src/byte_code.rs', ['struct Label', 'enum CaptureIndex', 'enum SymbolicByteCode']),
    ('laythe_core/src/object/fun.rs', ['enum FunKind']),
    ('laythe_vm/src/compiler/mod.rs', [("impl<'a, 'src: 'a> Compiler<'a, 'src>", ['class'])]),
  ],
  rewrites=[
    ('R7f', 'struct Label'),
    ('R11', 'struct Label', dict(drop=['Debug', 'Default', 'VariantCount'], add=['Structural'])),
    ('R11', 'enum CaptureIndex', dict(drop=['Debug', 'Default', 'VariantCount'], add=['Structural'])),
    ('R11', 'enum SymbolicByteCode', dict(drop=['Debug', 'Default', 'VariantCount'], add=['Structural'])),
    ('R11', 'enum SymbolicByteCode', dict(pat='  #[default]\n', rep='', count=1)),
    ('R11', 'enum SymbolicByteCode', dict(pat='  #[allow(dead_code)]\n', rep='', count=1)),
    ('R11', 'enum FunKind', dict(drop=['Debug'], add=['Structural'])),
    ('R5', 'kind:implhdr', dict(pat=r"impl<'a, 'src: 'a> Compiler<'a, 'src> \{", rep='impl Compiler {', regex=True, optional=True)),
    ('R5', 'Compiler::*', dict(pat=r"&'a ast::(\w+)<'src>", rep=r'&\1', regex=True, optional=True)),
    ('R7', 'Compiler::*', dict(pat=r'^(\s*(?:///?[^\n]*\n\s*)*)fn ', rep=r'\1pub fn ', regex=True, optional=True)),
    # R6: allocation of the class attributes and the temp-root bookkeeping around it (allocator calls: not part of the order under contract)
    ('R6', 'Compiler::class', dict(pat=r'let name = self\.gc\.borrow_mut\(\)\.manage_str\(class_name\.str\(\), self\);\s*let mut class_attributes = self\s*\.gc\s*\.borrow_mut\(\)\s*\.manage\(ClassAttributes::new\(name\), self\);',
                                   rep='let mut class_attributes = self.verif_new_class_attributes(class_name);', regex=True, count=1)),
    ('R6', 'Compiler::class', dict(pat=r'if let Some\(enclosing_class\) = enclosing_class \{\s*self\.gc\.borrow_mut\(\)\.push_root\(enclosing_class\);\s*\}', rep='', regex=True, count=1)),
    ('R6', 'Compiler::class', dict(pat=r'if enclosing_class\.is_some\(\) \{\s*self\.gc\.borrow_mut\(\)\.pop_roots\(1\);\s*\}', rep='', regex=True, count=1)),
    ('R6', 'Compiler::class', dict(pat='class_attributes.has_explicit_super_class = true;', rep='class_attributes.verif_set_explicit_super();', count=1)),
    # R13: the member loops
    ('R13', 'Compiler::class', dict(pat=r'for method in &class\.methods \{\s*self\.method\(method, FunKind::Method\);\s*\}', rep='let mut verif_m: usize = 0;\n    while verif_m < class.methods.len() {\n      let method = &class.methods[verif_m];\n      self.method(method, FunKind::Method);\n      verif_m += 1;\n    }', regex=True, count=1)),
    ('R13', 'Compiler::class', dict(pat=r'for static_method in &class\.static_methods \{\s*self\.static_method\(static_method\);\s*\}', rep='let mut verif_s: usize = 0;\n    while verif_s < class.static_methods.len() {\n      let static_method = &class.static_methods[verif_s];\n      self.static_method(static_method);\n      verif_s += 1;\n    }', regex=True, count=1)),
  ],
  assumption_ids=['A-compiler'],
)
