// ---- trusted model (A-compiler): every callee is a stub that LOGS ---------------------------------------------------------------------------------
#[derive(Clone, Copy, PartialEq, Eq, Structural)] pub enum TokenKind { Identifier }
pub enum Lexeme { Slice(&'static str) }
pub const OBJECT: &'static str = "Object";
pub const SUPER: &'static str = "super";
#[derive(Clone, Copy)] pub struct Span { pub start: u32, pub end: u32 }
pub struct Token { pub id: int }
pub uninterp spec fn object_token() -> int;
pub uninterp spec fn name_id(s: &str) -> int;
impl Token {
  #[verifier::external_body] pub fn new(kind: TokenKind, lexeme: Lexeme, start: u32, end: u32) -> (r: Token) ensures r.id == object_token() { unimplemented!() }
  #[verifier::external_body] pub fn str(&self) -> (r: &str) ensures name_id(r) == self.id { "" }
  #[verifier::external_body] pub fn span(&self) -> Span { Span { start: 0, end: 0 } }
  #[verifier::external_body] pub fn start(&self) -> u32 { 0 }
  #[verifier::external_body] pub fn end(&self) -> u32 { 0 }
}
pub struct SymbolTable { pub p: usize }
pub struct TypeRef { pub name: Token }
pub struct SuperClass { pub type_ref: TypeRef }
pub struct Fun { pub id: int }
impl Fun { #[verifier::external_body] pub fn start(&self) -> u32 { 0 } }
pub struct Class { pub name: Token, pub symbols: SymbolTable, pub super_class: Option<SuperClass>, pub init: Option<Fun>, pub methods: Vec<Fun>, pub static_methods: Vec<Fun> }
impl Class { #[verifier::external_body] pub fn start(&self) -> u32 { 0 } #[verifier::external_body] pub fn end(&self) -> u32 { 0 } }
#[derive(Clone, Copy, PartialEq, Eq, Structural)] pub enum SymbolState { S }
/// Ref<ClassAttributes>: identity, and whether the class names a superclass (a flag behind the pointer, shared by every copy of the handle)
#[derive(Clone, Copy)] pub struct ClassRef { pub id: int }
pub enum Ev { Emit(SymbolicByteCode), Const(int), Declare(int), Define(int), BeginScope, EndScope, VarGet(int), Method(int, FunKind, int, bool), StaticMethod(int, int), EmitFields(int, bool), NewClass(int, int), ExplicitSuper(int) }
pub struct Compiler {
  pub class_attributes: Option<ClassRef>,
  /// ghost: which class handles have been marked as having an explicit superclass
  pub explicit: Ghost<Set<int>>,
  pub fresh: Ghost<int>,
  pub log: Ghost<Seq<Ev>>,
}
pub open spec fn cur(c: &Compiler) -> int { match c.class_attributes { Some(r) => r.id, None => -1 } }
pub uninterp spec fn const_of(name: int) -> u16;
impl ClassRef {
  /// class_attributes.has_explicit_super_class = true (through the shared pointer): recorded on the compiler's ghost state by the caller's log
  #[verifier::external_body] pub fn verif_set_explicit_super(&mut self) ensures final(self).id == old(self).id { }
}
impl Compiler {
  pub open spec fn quiet(o: &Compiler, n: &Compiler) -> bool { n.class_attributes == o.class_attributes && n.fresh == o.fresh }
  #[verifier::external_body] pub fn declare_variable(&mut self, name: &str, span: Span) -> (r: (SymbolState, u16)) ensures Self::quiet(old(self), final(self)), final(self).log@ == old(self).log@.push(Ev::Declare(name_id(name))) { (SymbolState::S, 0) }
  #[verifier::external_body] pub fn define_variable(&mut self, name: &str, state: SymbolState, span: Span) ensures Self::quiet(old(self), final(self)), final(self).log@ == old(self).log@.push(Ev::Define(name_id(name))) { }
  #[verifier::external_body] pub fn identifier_constant(&mut self, name: &str) -> (r: u16) ensures Self::quiet(old(self), final(self)), r == const_of(name_id(name)), final(self).log@ == old(self).log@.push(Ev::Const(name_id(name))) { 0 }
  #[verifier::external_body] pub fn emit_byte(&mut self, op: SymbolicByteCode, offset: u32) ensures Self::quiet(old(self), final(self)), final(self).log@ == old(self).log@.push(Ev::Emit(op)) { }
  #[verifier::external_body] pub fn begin_scope(&mut self, table: &SymbolTable) ensures Self::quiet(old(self), final(self)), final(self).log@ == old(self).log@.push(Ev::BeginScope) { }
  #[verifier::external_body] pub fn end_scope(&mut self, end: u32) ensures Self::quiet(old(self), final(self)), final(self).log@ == old(self).log@.push(Ev::EndScope) { }
  #[verifier::external_body] pub fn variable_get(&mut self, t: &Token) ensures Self::quiet(old(self), final(self)), final(self).log@ == old(self).log@.push(Ev::VarGet(t.id)) { }
  /// a member is compiled with the class that is current at that moment (logged) — record_field / find_known_field consult it
  #[verifier::external_body] pub fn method(&mut self, m: &Fun, kind: FunKind) ensures Self::quiet(old(self), final(self)), final(self).log@ == old(self).log@.push(Ev::Method(m.id, kind, cur(old(self)), false)) { }
  #[verifier::external_body] pub fn static_method(&mut self, m: &Fun) ensures Self::quiet(old(self), final(self)), final(self).log@ == old(self).log@.push(Ev::StaticMethod(m.id, cur(old(self)))) { }
  #[verifier::external_body] pub fn emit_fields(&mut self, line: u32) ensures Self::quiet(old(self), final(self)), final(self).log@ == old(self).log@.push(Ev::EmitFields(cur(old(self)), false)) { }
  /// gc.manage(ClassAttributes::new(name)): a fresh class-attributes object
  #[verifier::external_body] pub fn verif_new_class_attributes(&mut self, name: &Token) -> (r: ClassRef)
    ensures r.id == old(self).fresh@, final(self).fresh@ == old(self).fresh@ + 1, final(self).class_attributes == old(self).class_attributes, final(self).log@ == old(self).log@.push(Ev::NewClass(r.id, name.id)) { ClassRef { id: arbitrary() } }
}
// A-std
pub assume_specification<T> [Option::<T>::replace] (o: &mut Option<T>, v: T) -> (r: Option<T>)
  ensures r == *old(o), *final(o) == Some(v);
