"""C11 (strings are sequences of Unicode characters): the bodies of String.len and of string indexing — `impl LyNative for StringLen` and
`impl LyNative for StringIndexGet`, fn call, extracted as they are.  A string is a model with TWO lengths, the number of characters and the number
of UTF-8 bytes (std's `str::len`), so that a body that answers the byte length fails the contract: the length of a string is the number of its
characters; `s[i]` is the one-character string of the i-th character, negative i counting from the end, and every fractional, NaN, infinite or
out-of-range index is the error.  std's `chars()` / `nth` / `rev` and the float tests are named stubs over that model."""
UNIT = dict(
  name='strlen',
  properties=['C11'],
  items=[('laythe_lib/src/global/primitives/string.rs', [('impl LyNative for StringLen', ['call']), ('impl LyNative for StringIndexGet', ['call'])])],
  rewrites=[
    ('R15', 'kind:implhdr', dict(pat=r'impl LyNative for (\w+) \{', rep=r'impl \1 {', regex=True, count=1)),
    ('R7', 'LyNative for StringIndexGet::call', dict(pat=r'^(\s*(?:///?[^\n]*\n\s*)*)fn ', rep=r'\1pub fn ', regex=True, count=1)),
    ('R7', 'LyNative for StringLen::call', dict(pat=r'^(\s*(?:///?[^\n]*\n\s*)*)fn ', rep=r'\1pub fn ', regex=True, count=1)),
    # R14: `E as f64` of a length and the val! macro -> named stubs (operands kept as written)
    ('R14', 'LyNative for StringLen::call', dict(pat=r'val!\((.*) as f64\)', rep=r'verif_num_value(\1)', regex=True, count=1)),
    # R14: float tests and narrowing casts -> named stubs (operands kept as written)
    ('R14', 'LyNative for StringIndexGet::call', dict(pat=r'(\w+)\.fract\(\) != 0\.0', rep=r'verif_has_fract(\1)', regex=True, optional=True)),
    ('R14', 'LyNative for StringIndexGet::call', dict(pat=r'\b(\w+) >= 0\.0', rep=r'verif_ge_zero(\1)', regex=True, optional=True)),
    ('R14', 'LyNative for StringIndexGet::call', dict(pat=r'\(-(\w+)\) as usize', rep=r'verif_neg_as_usize(\1)', regex=True, optional=True)),
    ('R14', 'LyNative for StringIndexGet::call', dict(pat=r'\b(\w+) as usize', rep=r'verif_as_usize(\1)', regex=True, optional=True)),
    # the one-character result string: `hooks.manage_str(c.encode_utf8(&mut buffer))` -> the managed string of that character
    ('R6', 'LyNative for StringIndexGet::call', dict(pat=r'val!\(hooks\.manage_str\((\w+)\.encode_utf8\(&mut buffer\)\)\)', rep=r'verif_char_string(hooks, \1)', regex=True, count=1)),
    ('R8', 'LyNative for StringIndexGet::call'),
  ],
  assumption_ids=['A-std', 'A-float'],
)
