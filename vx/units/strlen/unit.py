"""C11 (strings are sequences of Unicode characters): the body of String.len — `impl LyNative for StringLen`, fn call, extracted as it is.  A
string is a model with TWO lengths, the number of characters and the number of UTF-8 bytes (std's `str::len`), so that a body that answers the
byte length fails the contract: the length of a string is the number of its characters."""
UNIT = dict(
  name='strlen',
  properties=['C11'],
  items=[('laythe_lib/src/global/primitives/string.rs', [('impl LyNative for StringLen', ['call'])])],
  rewrites=[
    ('R15', 'kind:implhdr', dict(pat=r'impl LyNative for (\w+) \{', rep=r'impl \1 {', regex=True, count=1)),
    ('R7', 'LyNative for StringLen::call', dict(pat=r'^(\s*(?:///?[^\n]*\n\s*)*)fn ', rep=r'\1pub fn ', regex=True, count=1)),
    # R14: `E as f64` of a length and the val! macro -> named stubs (operands kept as written)
    ('R14', 'LyNative for StringLen::call', dict(pat=r'val!\((.*) as f64\)', rep=r'verif_num_value(\1)', regex=True, count=1)),
  ],
  assumption_ids=['A-std'],
)
