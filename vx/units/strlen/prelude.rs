// ---- trusted model of a string value as std sees it (A-std) ------------------------------------------------------------------------------------------
#[derive(Clone, Copy)] pub struct Value { pub bits: u64 }
#[derive(Clone, Copy)] pub struct Obj { pub p: usize }
#[derive(Clone, Copy)] pub struct LyStr { pub p: usize }
pub struct Hooks { }
pub struct StringLen { }
pub enum Call { Ok(Value), Err }
pub uninterp spec fn v_obj(v: Value) -> Obj;
pub uninterp spec fn o_str(o: Obj) -> LyStr;
/// the characters of a string, and the length of its UTF-8 encoding (what `str::len` answers)
pub uninterp spec fn str_chars(s: LyStr) -> Seq<char>;
pub uninterp spec fn str_bytes(s: LyStr) -> nat;
/// the number value of a length
pub uninterp spec fn num_value(n: nat) -> Value;
#[verifier::external_body] pub fn verif_num_value(n: usize) -> (r: Value) ensures r == num_value(n as nat) { unimplemented!() }
impl Value { #[verifier::external_body] pub fn to_obj(self) -> (r: Obj) ensures r == v_obj(self) { unimplemented!() } }
impl Obj { #[verifier::external_body] pub fn to_str(self) -> (r: LyStr) ensures r == o_str(self) { unimplemented!() } }
pub struct Chars { pub s: LyStr }
impl LyStr {
  /// str::chars
  #[verifier::external_body] pub fn chars(&self) -> (r: Chars) ensures r.s == *self { unimplemented!() }
  /// str::len: BYTES
  #[verifier::external_body] pub fn len(&self) -> (r: usize) ensures r as nat == str_bytes(*self) { unimplemented!() }
}
impl Chars {
  /// Iterator::count on Chars
  #[verifier::external_body] pub fn count(self) -> (r: usize) ensures r as nat == str_chars(self.s).len() { unimplemented!() }
}
