// ---- trusted model of a string value as std sees it (A-std) ------------------------------------------------------------------------------------------
#[derive(Clone, Copy)] pub struct Value { pub bits: u64 }
#[derive(Clone, Copy)] pub struct Obj { pub p: usize }
#[derive(Clone, Copy)] pub struct LyStr { pub p: usize }
pub struct Hooks { }
pub struct StringLen { }
pub struct StringIndexGet { }
pub enum Call { Ok(Value), Err }
pub uninterp spec fn v_obj(v: Value) -> Obj;
pub uninterp spec fn o_str(o: Obj) -> LyStr;
/// the characters of a string, and the length of its UTF-8 encoding (what `str::len` answers)
pub uninterp spec fn str_chars(s: LyStr) -> Seq<char>;
pub uninterp spec fn str_bytes(s: LyStr) -> nat;
/// the number value of a length
pub uninterp spec fn num_value(n: nat) -> Value;
#[verifier::external_body] pub fn verif_num_value(n: usize) -> (r: Value) ensures r == num_value(n as nat) { unimplemented!() }
impl Value { #[verifier::external_body] pub fn to_obj(self) -> (r: Obj) ensures r == v_obj(self) { unimplemented!() } }
impl Obj { #[verifier::external_body] pub fn to_str(self) -> (r: LyStr) ensures r == o_str(self) { unimplemented!() } }
pub struct Chars { pub s: LyStr }
pub struct RevChars { pub s: LyStr }
impl LyStr {
  /// str::chars
  #[verifier::external_body] pub fn chars(&self) -> (r: Chars) ensures r.s == *self { unimplemented!() }
  /// str::len: BYTES
  #[verifier::external_body] pub fn len(&self) -> (r: usize) ensures r as nat == str_bytes(*self) { unimplemented!() }
}
impl Chars {
  /// Iterator::count on Chars
  #[verifier::external_body] pub fn count(self) -> (r: usize) ensures r as nat == str_chars(self.s).len() { unimplemented!() }
}
impl Chars {
  /// Iterator::nth on a fresh Chars: the n-th character
  #[verifier::external_body] pub fn nth(&mut self, n: usize) -> (r: Option<char>)
    ensures r == (if (n as int) < str_chars(old(self).s).len() { Some(str_chars(old(self).s)[n as int]) } else { None::<char> }) { unimplemented!() }
  #[verifier::external_body] pub fn rev(self) -> (r: RevChars) ensures r.s == self.s { unimplemented!() }
}
impl RevChars {
  /// Iterator::nth on a fresh Rev<Chars>: the n-th character from the end
  #[verifier::external_body] pub fn nth(&mut self, n: usize) -> (r: Option<char>)
    ensures r == (if (n as int) < str_chars(old(self).s).len() { Some(str_chars(old(self).s)[str_chars(old(self).s).len() - 1 - n as int]) } else { None::<char> }) { unimplemented!() }
}
// ---- numbers (A-float) ----
#[derive(Clone, Copy)] pub struct F64 { pub bits: u64 }
pub uninterp spec fn v_num(v: Value) -> F64;
/// the number is an integer (finite, no fractional part) and which one
pub uninterp spec fn integral(x: F64) -> bool;
pub uninterp spec fn as_int(x: F64) -> int;
/// `x >= 0.0` (true for both zeros, false for NaN)
pub uninterp spec fn ge_zero(x: F64) -> bool;
#[verifier::external_body] pub broadcast proof fn axiom_ge_zero(x: F64) requires integral(x) ensures #[trigger] ge_zero(x) == (as_int(x) >= 0) { }
impl Value { #[verifier::external_body] pub fn to_num(self) -> (r: F64) ensures r == v_num(self) { unimplemented!() } }
/// `x.fract() != 0.0`: true for every non-integer, for NaN and for the infinities (their fract() is NaN)
#[verifier::external_body] pub fn verif_has_fract(x: F64) -> (r: bool) ensures r == !integral(x) { unimplemented!() }
#[verifier::external_body] pub fn verif_ge_zero(x: F64) -> (r: bool) ensures r == ge_zero(x) { unimplemented!() }
/// `x as usize`: saturating
#[verifier::external_body] pub fn verif_as_usize(x: F64) -> (r: usize)
  ensures integral(x) && as_int(x) >= 0 ==> r as int == (if as_int(x) <= usize::MAX as int { as_int(x) } else { usize::MAX as int }) { unimplemented!() }
/// `(-x) as usize`: saturating
#[verifier::external_body] pub fn verif_neg_as_usize(x: F64) -> (r: usize)
  ensures integral(x) && as_int(x) <= 0 ==> r as int == (if -as_int(x) <= usize::MAX as int { -as_int(x) } else { usize::MAX as int }) { unimplemented!() }
/// the managed one-character string
pub uninterp spec fn char_string(c: char) -> Value;
#[verifier::external_body] pub fn verif_char_string(hooks: &mut Hooks, c: char) -> (r: Value) ensures r == char_string(c) { unimplemented!() }
#[verifier::external_body] pub fn verif_fmt() -> (r: String) { unimplemented!() }
impl StringIndexGet {
  /// native_with_error!: the native's error class with this message
  #[verifier::external_body] pub fn call_error<T>(&self, hooks: &mut Hooks, message: T) -> (r: Call) ensures r is Err { unimplemented!() }
}
