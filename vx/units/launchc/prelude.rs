// ---- trusted model (A-compiler): every other compiler method is a stub that logs --------------------------------------------------------------
pub struct Primary { pub id: int }
pub struct Call { pub args: Vec<Expr> }
impl Call { #[verifier::external_body] pub fn end(&self) -> u32 { 0 } }
pub enum Trailer { Call(Box<Call>), Other(int) }
pub struct Atom { pub primary: Primary, pub trailers: Vec<Trailer> }
pub enum Expr { Atom(Box<Atom>), Other(int) }
pub struct Launch { pub closure: Expr }
pub struct Raise { pub error: Expr }
impl Raise { #[verifier::external_body] pub fn end(&self) -> u32 { 0 } }
#[verifier::external_body] pub fn verif_unreachable<T>() -> T requires false { unimplemented!() }
/// `&v[..n]`
pub struct Prefix { pub n: usize }
#[verifier::external_body] pub fn verif_prefix(v: &Vec<Trailer>, n: usize) -> (r: Prefix) requires n <= v@.len() ensures r.n == n { unimplemented!() }
pub enum Ev { Emit(SymbolicByteCode), Expr(Expr), Callee(Primary, int) }
pub struct Compiler { pub log: Ghost<Seq<Ev>> }
impl Compiler {
  #[verifier::external_body] pub fn emit_byte(&mut self, op: SymbolicByteCode, offset: u32) ensures final(self).log@ == old(self).log@.push(Ev::Emit(op)) { }
  #[verifier::external_body] pub fn expr(&mut self, e: &Expr) ensures final(self).log@ == old(self).log@.push(Ev::Expr(*e)) { }
  /// the primary with its first n trailers applied: one value on the stack
  #[verifier::external_body] pub fn apply_atom(&mut self, primary: &Primary, trailers: Prefix) ensures final(self).log@ == old(self).log@.push(Ev::Callee(*primary, trailers.n as int)) { }
}
pub open spec fn args_evs(a: Seq<Expr>, n: int) -> Seq<Ev> { Seq::new(n as nat, |i: int| Ev::Expr(a[i])) }
