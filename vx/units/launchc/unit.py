"""C07 / C01 / C15 (launch and raise statements as compiled): Compiler::{launch, raise}, extracted as they are.  `launch f(a, b)` compiles the
callee — everything of the expression but its final call — then every argument in source order, then Launch(n) with n EXACTLY the number of
arguments; `raise e` compiles e and then Raise.  apply_atom / expr / emit_byte are stubs that log."""
UNIT = dict(
  name='launchc',
  properties=['C07', 'C01', 'C15'],
  items=[
    ('laythe_vm/src/byte_code.rs', ['struct Label', 'enum CaptureIndex', 'enum SymbolicByteCode']),
    ('laythe_vm/src/compiler/mod.rs', [("impl<'a, 'src: 'a> Compiler<'a, 'src>", ['launch', 'raise'])]),
  ],
  rewrites=[
    ('R7f', 'struct Label'),
    ('R11', 'struct Label', dict(drop=['Debug', 'Default', 'VariantCount'], add=['Structural'])),
    ('R11', 'enum CaptureIndex', dict(drop=['Debug', 'Default', 'VariantCount'], add=['Structural'])),
    ('R11', 'enum SymbolicByteCode', dict(drop=['Debug', 'Default', 'VariantCount'], add=['Structural'])),
    ('R11', 'enum SymbolicByteCode', dict(pat='  #[default]\n', rep='', count=1)),
    ('R11', 'enum SymbolicByteCode', dict(pat='  #[allow(dead_code)]\n', rep='', count=1)),
    ('R5', 'kind:implhdr', dict(pat=r"impl<'a, 'src: 'a> Compiler<'a, 'src> \{", rep='impl Compiler {', regex=True, optional=True)),
    ('R5', 'Compiler::*', dict(pat=r"&'a ast::(\w+)<'src>", rep=r'&\1', regex=True, optional=True)),
    ('R7', 'Compiler::*', dict(pat=r'^(\s*(?:///?[^\n]*\n\s*)*)fn ', rep=r'\1pub fn ', regex=True, optional=True)),
    ('R3', 'Compiler::launch', dict(pat=r'unreachable!\("[^"]*"\)', rep='verif_unreachable()', regex=True, min=1)),
    # the slice `&v[..v.len() - 1]` of the trailers -> a named operation (Verus has no spec for range indexing of a Vec)
    ('R6', 'Compiler::launch', dict(pat=r'&atom\.trailers\[\.\.([^\]]+)\]', rep=r'verif_prefix(&atom.trailers, \1)', regex=True, count=1)),
    # R13: the loop over the arguments -> index loop (same order)
    ('R13', 'Compiler::launch', dict(pat=r'for expr in &call\.args \{', rep='let mut verif_i: usize = 0;\n          while verif_i < call.args.len() {\n            let expr = &call.args[verif_i];', regex=True, count=1)),
    ('R13', 'Compiler::launch', dict(pat=r'(?s)(let expr = &call\.args\[verif_i\];.*?)(\n          \})', rep=r'\1\n            verif_i += 1;\2', regex=True, count=1)),
  ],
  assumption_ids=['A-compiler'],
)
