// ---- trusted model (A-resolver): tokens, the table's name search, the global module, the diagnostics list --------------------------------------
pub struct Span { pub start: u32, pub end: u32 }
pub struct Token { pub name: Ghost<Seq<char>> }
impl Token {
  #[verifier::external_body] pub fn str(&self) -> (r: &str) ensures r@ == self.name@ { "" }
  #[verifier::external_body] pub fn span(&self) -> Span { Span { start: 0, end: 0 } }
}
/// SymbolTable(Vec<Symbol>): the real vector; only the search by name and the insertion are stubs
pub struct SymTab { pub syms: Vec<Symbol> }
/// i is the position SymbolTable::get / get_mut find: the LAST symbol of that name
pub open spec fn is_rpos(syms: Seq<Symbol>, name: Seq<char>, i: int) -> bool {
  0 <= i < syms.len() && syms[i].name@ == name && forall|j: int| i < j < syms.len() ==> (#[trigger] syms[j]).name@ != name
}
impl SymTab {
  #[verifier::external_body] pub fn verif_new() -> (r: SymTab) ensures r.syms@.len() == 0 { SymTab { syms: Vec::new() } }
  /// self.0.iter_mut().rev().find(|local| name == local.name)
  #[verifier::external_body] pub fn verif_rposition(&self, name: &str) -> (r: Option<usize>)
    ensures r matches Some(i) ==> is_rpos(self.syms@, name@, i as int),
      r is None ==> forall|j: int| 0 <= j < self.syms@.len() ==> (#[trigger] self.syms@[j]).name@ != name@
  { None }
  /// push Symbol { name, span, GlobalInitialized } unless the name is there already
  #[verifier::external_body] pub fn add_symbol_from_global(&mut self, name: &str, span: Span)
    ensures (forall|j: int| 0 <= j < old(self).syms@.len() ==> (#[trigger] old(self).syms@[j]).name@ != name@) ==>
        final(self).syms@.len() == old(self).syms@.len() + 1 && final(self).syms@.subrange(0, old(self).syms@.len() as int) == old(self).syms@
        && final(self).syms@.last().name@ == name@ && final(self).syms@.last().state == SymbolState::GlobalInitialized
  { }
}
pub uninterp spec fn global_exports(name: Seq<char>) -> bool;
pub struct Resolver {
  pub tables: Vec<TrackedSymbolTable>,
  pub fun_depth: i32,
  pub scope_depth: i32,
  /// ghost: diagnostics recorded
  pub errors: Ghost<nat>,
}
impl Resolver {
  #[verifier::external_body] pub fn error(&mut self, message: &str, span: Option<Span>)
    ensures final(self).errors@ == old(self).errors@ + 1, final(self).tables == old(self).tables, final(self).fun_depth == old(self).fun_depth, final(self).scope_depth == old(self).scope_depth { }
  /// gc.has_str(name).and_then(|n| global_module.get_exported_symbol_by_name(n)).is_ok()
  #[verifier::external_body] pub fn verif_global_exports(&self, name: &str) -> (r: bool) ensures r == global_exports(name@) { true }
}
#[verifier::external_body] pub fn verif_fmt() -> (r: &'static str) { "" }
