// ---- lexical scoping over the table stack -----------------------------------------------------------------------------------------------------
pub open spec fn has_name(t: &TrackedSymbolTable, name: Seq<char>) -> bool { exists|i: int| 0 <= i < t.table.syms@.len() && (#[trigger] t.table.syms@[i]).name@ == name }
/// the innermost table (greatest index below n) that declares the name
pub open spec fn innermost(tables: Seq<TrackedSymbolTable>, name: Seq<char>, n: int) -> Option<int> decreases n {
  if n <= 0 { None } else if has_name(&tables[n - 1], name) { Some(n - 1) } else { innermost(tables, name, n - 1) }
}
/// b is a with (at most) the state of symbol i of table t changed
pub open spec fn same_but_state(a: Seq<TrackedSymbolTable>, b: Seq<TrackedSymbolTable>, t: int, i: int) -> bool {
  &&& a.len() == b.len() && 0 <= t < a.len()
  &&& forall|k: int| 0 <= k < a.len() && k != t ==> #[trigger] b[k] == a[k]
  &&& b[t].fun_depth == a[t].fun_depth && b[t].scope_depth == a[t].scope_depth && b[t].table.syms@.len() == a[t].table.syms@.len() && 0 <= i < a[t].table.syms@.len()
  &&& forall|j: int| 0 <= j < a[t].table.syms@.len() && j != i ==> #[trigger] b[t].table.syms@[j] == a[t].table.syms@[j]
  &&& b[t].table.syms@[i].name == a[t].table.syms@[i].name
}
pub proof fn lemma_rpos_unique(syms: Seq<Symbol>, name: Seq<char>, i: int, k: int)
  requires is_rpos(syms, name, i), is_rpos(syms, name, k),
  ensures i == k,
{ if i < k { assert(syms[k].name@ != name); } if k < i { assert(syms[i].name@ != name); } }
/// what a found variable does to the tables and the diagnostics (C02)
pub open spec fn found_post(o: &Resolver, n: &Resolver, t: int, i: int) -> bool {
  let st = o.tables@[t].table.syms@[i].state;
  &&& same_but_state(o.tables@, n.tables@, t, i)
  // an initialised local read from a function nested in the one that declared it is captured — and only then
  &&& n.tables@[t].table.syms@[i].state == (if st == SymbolState::LocalInitialized && o.tables@[t].fun_depth < o.fun_depth { SymbolState::LocalCaptured } else { st })
  // reading a local in its own initialiser is a diagnostic (at module scope it is left to the run time)
  &&& n.errors@ == o.errors@ + (if st == SymbolState::Uninitialized && o.tables@[t].scope_depth > 0 { 1nat } else { 0nat })
}

pub proof fn lemma_none(tables: Seq<TrackedSymbolTable>, name: Seq<char>, n: int)
  requires 0 <= n <= tables.len(), innermost(tables, name, n) is None,
  ensures forall|k: int| 0 <= k < n ==> !has_name(&#[trigger] tables[k], name),
  decreases n
{ if n > 0 { lemma_none(tables, name, n - 1); } }
