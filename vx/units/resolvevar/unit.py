"""C02 (name resolution and capture marking) / C15: Resolver::resolve_variable — a name refers to the INNERMOST declaration in scope (the last
symbol of that name in the innermost table that has one: shadowing), a local that is read from a function nested inside the one that declared
it is marked captured (and nothing else changes), a local read in its own initialiser and an undeclared name are diagnostics, an exported global
is entered into the module table — with Resolver::{define_variable, begin_scope, end_scope} and the real Symbol state machine
(Symbol::{state, initialize, module_initialize, already_initialize, capture}).  The symbol table's name search is a stub over the real
Vec<Symbol>; everything else is real text on real structs (nested `&mut` into the tables, as the real code does)."""
UNIT = dict(
  name='resolvevar',
  properties=['C02', 'C15'],
  items=[
    ('laythe_vm/src/compiler/ir/symbol_table.rs', ['enum SymbolState', 'struct Symbol', ('impl Symbol', ['state', 'initialize', 'module_initialize', 'already_initialize', 'capture'])]),
    ('laythe_vm/src/compiler/resolver.rs', ['struct TrackedSymbolTable', ("impl<'a, 'src> Resolver<'a, 'src>", ['resolve_variable', 'define_variable', 'begin_scope', 'end_scope'])]),
  ],
  rewrites=[
    ('R11', 'enum SymbolState', dict(drop=['Debug', 'Default'], add=['Structural'])),
    ('R11', 'enum SymbolState', dict(pat='  #[default]\n', rep='', count=1)),
    ('R11', 'struct Symbol', dict(drop=['Debug', 'PartialEq', 'Eq', 'Clone', 'Default'], add=[])),
    ('R7f', 'struct Symbol'), ('R7f', 'struct TrackedSymbolTable'),
    ('R7', 'struct TrackedSymbolTable', dict(pat=r'\nstruct ', rep='\npub struct ', regex=True, count=1)),
    ('R5', 'struct TrackedSymbolTable', dict(pat="TrackedSymbolTable<'a>", rep='TrackedSymbolTable', count=1)),
    ('R6', 'struct TrackedSymbolTable', dict(pat="SymbolTable<'a>", rep='SymTab', count=1)),
    ('R5', 'kind:implhdr', dict(pat=r"impl<'a, 'src> Resolver<'a, 'src> \{", rep='impl Resolver {', regex=True, optional=True)),
    ('R5', 'Resolver::*', dict(pat=r"Token<'src>", rep='Token', regex=True, optional=True)),
    ('R6', 'Resolver::*', dict(pat=r"SymbolTable<'src>", rep='SymTab', regex=True, optional=True)),
    ('R7', 'Resolver::*', dict(pat=r'^(\s*(?:///?[^\n]*\n\s*)*)fn ', rep=r'\1pub fn ', regex=True, optional=True)),
    ('R8', 'Resolver::*'),
    # R13: `for table in self.tables.iter_mut().rev()` -> index loop from the innermost table outwards, `table` the same `&mut` into the vector
    ('R13', 'Resolver::resolve_variable', dict(pat=r'for table in self\.tables\.iter_mut\(\)\.rev\(\) \{', rep='let mut verif_t: usize = self.tables.len();\n    while verif_t > 0 {\n      verif_t -= 1;\n      let table = &mut self.tables[verif_t];', regex=True, count=1)),
    # R6: SymbolTable::get_mut = iter_mut().rev().find(by name): the search is a stub that returns the position, the `&mut Symbol` is taken from the real vector
    ('R6', 'Resolver::resolve_variable', dict(pat=r'if let Some\(symbol\) = table\.table\.get_mut\(name\.str\(\)\) \{', rep='if let Some(verif_s) = table.table.verif_rposition(name.str()) {\n        let symbol = &mut table.table.syms[verif_s];', regex=True, count=1)),
    ('R6', 'Resolver::resolve_variable', dict(pat=r'if self\s*\.gc\s*\.has_str\(name\.str\(\)\)\s*\.ok_or\(ImportError::SymbolDoesNotExist\)\s*\.and_then\(\|interned_name\| \{\s*self\s*\.global_module\s*\.get_exported_symbol_by_name\(interned_name\)\s*\.ok_or\(ImportError::SymbolDoesNotExist\)\s*\}\)\s*\.is_ok\(\)\s*\{',
                                              rep='if self.verif_global_exports(name.str()) {', regex=True, count=1)),
    ('R6', 'Resolver::resolve_variable', dict(pat='let table = &mut self.tables.first_mut().unwrap();', rep='let table = &mut self.tables[0];', count=1)),
    # define_variable: table_mut() = tables.last_mut().expect(..)
    ('R6', 'Resolver::define_variable', dict(pat='let table = self.table_mut();', rep='let verif_l = self.tables.len() - 1;\n    let table = &mut self.tables[verif_l];', count=1)),
    ('R6', 'Resolver::define_variable', dict(pat=r'let symbol = table\.table\.get_mut\(name\.str\(\)\)\.expect\("Expected symbol"\);', rep='let verif_s = table.table.verif_rposition(name.str()).unwrap();\n    let symbol = &mut table.table.syms[verif_s];', regex=True, count=1)),
    ('R6', 'Resolver::begin_scope', dict(pat='SymbolTable::new(self.source.vec())', rep='SymTab::verif_new()', count=1)),
    ('R6', 'Resolver::end_scope', dict(pat=r'self\.tables\.pop\(\)\.expect\("Expected symbol table"\)\.table', rep='self.tables.pop().unwrap().table', regex=True, count=1)),
  ],
  assumption_ids=['A-resolver', 'A-std'],
)
