// ---- trusted model (A-compiler): every other compiler method is a stub that logs --------------------------------------------------------------
pub struct Token { pub id: int }
impl Token { #[verifier::external_body] pub fn str(&self) -> (r: &str) ensures r@ == tok_text(self.id) { "" } }
pub uninterp spec fn tok_text(id: int) -> Seq<char>;
pub uninterp spec fn name_const(name: Seq<char>) -> u16;
pub struct Fun { pub name: Option<Token>, pub id: int }
impl Fun { #[verifier::external_body] pub fn end(&self) -> u32 { 0 } }
#[verifier::external_body] pub fn verif_unreachable<T>() -> T requires false { unimplemented!() }
pub enum Ev { Emit(SymbolicByteCode), Const(Seq<char>), ClassKind(Option<FunKind>), Function(int, FunKind) }
pub struct Compiler { pub has_class: bool, pub log: Ghost<Seq<Ev>> }
impl Compiler {
  #[verifier::external_body] pub fn emit_byte(&mut self, op: SymbolicByteCode, offset: u32) ensures final(self).has_class == old(self).has_class, final(self).log@ == old(self).log@.push(Ev::Emit(op)) { }
  #[verifier::external_body] pub fn identifier_constant(&mut self, name: &str) -> (r: u16)
    ensures final(self).has_class == old(self).has_class, final(self).log@ == old(self).log@.push(Ev::Const(name@)), r == name_const(name@) { 0 }
  #[verifier::external_body] pub fn function(&mut self, fun: &Fun, fun_kind: FunKind)
    ensures final(self).has_class == old(self).has_class, final(self).log@ == old(self).log@.push(Ev::Function(fun.id, fun_kind)) { }
  /// `self.class_attributes.expect(..).fun_kind = K`: the class being compiled must be there
  #[verifier::external_body] pub fn verif_set_class_fun_kind(&mut self, k: Option<FunKind>)
    requires old(self).has_class,
    ensures final(self).has_class == old(self).has_class, final(self).log@ == old(self).log@.push(Ev::ClassKind(k)) { }
}
