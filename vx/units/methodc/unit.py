"""C03 / C01 (methods as compiled): Compiler::{method, static_method}, extracted as they are.  A method is: its name as a constant, the class
being compiled told which kind of function is now inside it (what `self` / `super` / `return` consult), the function value built AS THAT KIND,
then Method(name) — StaticMethod(name) for a static one, built as a static method.  identifier_constant / function / emit_byte are stubs that
log; the class attributes are a model cell."""
UNIT = dict(
  name='methodc',
  properties=['C03', 'C01'],
  items=[
    ('laythe_vm/src/byte_code.rs', ['struct Label', 'enum CaptureIndex', 'enum SymbolicByteCode']),
    ('laythe_core/src/object/fun.rs', ['enum FunKind']),
    ('laythe_vm/src/compiler/mod.rs', [("impl<'a, 'src: 'a> Compiler<'a, 'src>", ['method', 'static_method'])]),
  ],
  rewrites=[
    ('R7f', 'struct Label'),
    ('R11', 'struct Label', dict(drop=['Debug', 'Default', 'VariantCount'], add=['Structural'])),
    ('R11', 'enum CaptureIndex', dict(drop=['Debug', 'Default', 'VariantCount'], add=['Structural'])),
    ('R11', 'enum SymbolicByteCode', dict(drop=['Debug', 'Default', 'VariantCount'], add=['Structural'])),
    ('R11', 'enum SymbolicByteCode', dict(pat='  #[default]\n', rep='', count=1)),
    ('R11', 'enum SymbolicByteCode', dict(pat='  #[allow(dead_code)]\n', rep='', count=1)),
    ('R11', 'enum FunKind', dict(drop=['Debug'], add=['Structural'])),
    ('R5', 'kind:implhdr', dict(pat=r"impl<'a, 'src: 'a> Compiler<'a, 'src> \{", rep='impl Compiler {', regex=True, optional=True)),
    ('R5', 'Compiler::*', dict(pat=r"&'a ast::(\w+)<'src>", rep=r'&\1', regex=True, optional=True)),
    ('R7', 'Compiler::*', dict(pat=r'^(\s*(?:///?[^\n]*\n\s*)*)fn ', rep=r'\1pub fn ', regex=True, optional=True)),
    # R4: `NAME.as_ref().map(|name| self.identifier_constant(name.str())).expect(..)` (closure over self) -> match
    ('R4', 'Compiler::*', dict(pat=r'(?s)let constant = (\w+)\s*\.name\s*\.as_ref\(\)\s*\.map\(\|name\| (self\.identifier_constant\(name\.str\(\)\))\)\s*\.expect\("[^"]*"\);',
      rep=r'let constant = match &\1.name { Some(name) => \2, None => verif_unreachable() };', regex=True, count=1)),
    # the write through the GC pointer to the class attributes -> a named store on the model cell (value kept as written)
    ('R6', 'Compiler::*', dict(pat=r'(?s)self\s*\.class_attributes\s*\.expect\("[^"]*"\)\s*\.fun_kind = (.*?);', rep=r'self.verif_set_class_fun_kind(\1);', regex=True, count=1)),
  ],
  assumption_ids=['A-compiler'],
)
