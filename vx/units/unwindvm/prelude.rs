// ---- trusted model (A-fiber) ---------------------------------------------------------------------------------------------------------------------------
#[derive(Clone, Copy)] pub struct Instance { pub id: int }
#[derive(Clone, Copy)] pub struct FunRef { pub id: int }
#[derive(Clone, Copy)] pub struct Ip { pub at: int }
#[derive(Clone, Copy)] pub enum ExecutionMode { Normal, CallingNativeCode(usize) }
pub enum ExecutionResult { Ok, Exit(u16), RuntimeError, CompileError }
#[derive(Clone, Copy)] pub struct CallFrame { pub fun: FunRef, pub ip: Ip }
impl CallFrame {
  pub fn fun(&self) -> (r: FunRef) ensures r == self.fun { self.fun }
  pub fn ip(&self) -> (r: Ip) ensures r == self.ip { self.ip }
}
pub enum UnwindResult { PotentiallyHandled(CallFrame), Unhandled, UnwindStopped }
pub enum Ev { StoreIp, Search(Option<usize>), Print(Instance) }
/// what the handler search answers (unwind unit)
pub uninterp spec fn search_answer(bottom: Option<usize>, k: nat) -> UnwindResult;
pub struct Vm { pub current_fun: FunRef, pub ip: Ip, pub log: Ghost<Seq<Ev>> }
impl Vm {
  #[verifier::external_body] pub fn store_ip(&mut self) ensures final(self).log@ == old(self).log@.push(Ev::StoreIp), final(self).current_fun == old(self).current_fun, final(self).ip == old(self).ip { }
  #[verifier::external_body] pub fn verif_fiber_stack_unwind(&mut self, bottom_frame: Option<usize>) -> (r: UnwindResult)
    ensures final(self).log@ == old(self).log@.push(Ev::Search(bottom_frame)), r == search_answer(bottom_frame, old(self).log@.len()),
      final(self).current_fun == old(self).current_fun, final(self).ip == old(self).ip { unimplemented!() }
  #[verifier::external_body] pub fn print_error(&mut self, error: Instance)
    ensures final(self).log@ == old(self).log@.push(Ev::Print(error)), final(self).current_fun == old(self).current_fun, final(self).ip == old(self).ip { }
}
