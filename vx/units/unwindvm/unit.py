"""C04 / C18 (what the interpreter does with the answer of the handler search): Vm::stack_unwind (vm/error.rs), extracted as it is.  The
instruction pointer is stored into the frame BEFORE the search (the search and the traceback read it from the frames); the search is bounded below
by the start depth of a nested run and unbounded for the main run; a handler found means execution resumes in the handler's frame at the
handler's instruction; an error no handler takes is printed — once, here — and ends the run with a runtime error; an error that must travel through
native code ends the nested run WITHOUT being printed (the outer search goes on with it).  Fiber::stack_unwind (unwind unit), store_ip and
print_error are stubs that log."""
UNIT = dict(
  name='unwindvm',
  properties=['C04', 'C18'],
  items=[('laythe_vm/src/vm/error.rs', [('impl Vm', ['stack_unwind'])])],
  rewrites=[
    ('R7', 'Vm::stack_unwind', dict(pat=r'pub\(super\) unsafe fn', rep='pub fn', regex=True, count=1)),
    ('R7', 'Vm::stack_unwind', dict(pat=r'\{ unsafe \{', rep='{ {', regex=True, count=1)),
    # R9: `let mut fiber = self.fiber; .. fiber.stack_unwind(self, B)` (a copy of the GC pointer) -> the fiber reached through self
    ('R9', 'Vm::stack_unwind', dict(pat=r'let mut fiber = self\.fiber;\s*', rep='', regex=True, count=1)),
    ('R9', 'Vm::stack_unwind', dict(pat=r'fiber\.stack_unwind\(self, (\w+)\)', rep=r'self.verif_fiber_stack_unwind(\1)', regex=True, count=1)),
  ],
  assumption_ids=['A-fiber'],
)
