impl Module {
  /// every name has a slot inside the symbol vector; only declared names are exported; the import object's fields
  /// are exactly the exports
  pub open spec fn wf(&self) -> bool {
    &&& forall|n: LyStr| self.symbols_by_name@.dom().contains(n) ==> #[trigger] self.symbols_by_name@[n] < self.symbols@.len()
    &&& forall|n: LyStr| #[trigger] self.exports@.contains(n) ==> self.symbols_by_name@.dom().contains(n)
    &&& self.module_class.fields() == self.exports@
  }
  pub open spec fn value_of(&self, n: LyStr) -> Value { self.symbols@[self.symbols_by_name@[n] as int] }
}
