// ---- trusted model of laythe_core::module::Module's containers (A-std: hashbrown map/set == mathematical map/set) ----
#[verifier::external_body]
#[derive(Clone, Copy)]
pub struct Value { bits: u64 }

/// an interned string: equality and hashing are identity
#[derive(Clone, Copy, PartialEq, Eq, Structural)]
pub struct LyStr { pub p: usize }

/// Map<LyStr, usize>
#[verifier::external_body]
pub struct SymMap { m: std::collections::HashMap<usize, usize> }
impl SymMap {
  pub uninterp spec fn view(&self) -> Map<LyStr, usize>;
  #[verifier::external_body] pub fn contains_key(&self, k: &LyStr) -> (r: bool) ensures r == self@.dom().contains(*k) { true }
  #[verifier::external_body] pub fn get(&self, k: &LyStr) -> (r: Option<&usize>)
    ensures (r is Some) == self@.dom().contains(*k), r is Some ==> *r->0 == self@[*k] { None }
  /// hashbrown insert: the entry is (over)written first, the previous value is returned
  #[verifier::external_body] pub fn insert(&mut self, k: LyStr, v: usize) -> (r: Option<usize>)
    ensures final(self)@ == old(self)@.insert(k, v), (r is Some) == old(self)@.dom().contains(k), r is Some ==> r->0 == old(self)@[k] { None }
}
/// LyHashSet<LyStr>
#[verifier::external_body]
pub struct NameSet { s: std::collections::HashSet<usize> }
impl NameSet {
  pub uninterp spec fn view(&self) -> Set<LyStr>;
  #[verifier::external_body] pub fn contains(&self, k: &LyStr) -> (r: bool) ensures r == self@.contains(*k) { true }
  #[verifier::external_body] pub fn insert(&mut self, k: LyStr) -> (r: bool) ensures final(self)@ == old(self)@.insert(k) { true }
}
/// ObjRef<Class> of the module's import object; add_field registers an exported name as a field
#[verifier::external_body]
pub struct ModClass { p: usize }
impl ModClass {
  pub uninterp spec fn fields(&self) -> Set<LyStr>;
  #[verifier::external_body] pub fn add_field(&mut self, name: LyStr) ensures final(self).fields() == old(self).fields().insert(name) { }
  /// the ordinal of a field; nothing is assumed about which ordinal a field gets
  pub uninterp spec fn field_index(&self, name: LyStr) -> u16;
  #[verifier::external_body] pub fn get_field_index(&self, name: &LyStr) -> (r: Option<u16>)
    ensures r == (if self.fields().contains(*name) { Some(self.field_index(*name)) } else { None }) { unimplemented!() }
}

/// projection of Module (R10): id, path and sub-modules are not touched by the symbol operations
pub struct Module { pub module_class: ModClass, pub exports: NameSet, pub symbols_by_name: SymMap, pub symbols: Vec<Value> }
