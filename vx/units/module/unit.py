_M = ['export_symbol', 'set_symbol_by_name', 'set_symbol_by_slot', 'insert_symbol', 'get_symbol_by_name', 'get_symbol_by_slot', 'get_exported_symbol_by_name']
UNIT = dict(
  name='module',
  properties=['C17'],
  items=[
    ('laythe_core/src/module/error.rs', ['enum SymbolExportError', 'enum SymbolInsertError', 'enum ImportError',
                                         'type SymbolExportResult', 'type SymbolInsertResult', 'type ImportResult']),
    ('laythe_core/src/module/mod.rs', [('impl Module', _M)]),
  ],
  rewrites=[
    ('R11', 'kind:enum', dict(drop=['Debug'], add=['Structural'])),
    # R6: UniqueVector::push_with_hooks(hooks, v) allocates through the GC; the model's symbols vector is a Vec
    ('R6', 'Module::insert_symbol', dict(pat='self.symbols.push_with_hooks(hooks, symbol);', rep='self.symbols.push(symbol);', count=1)),
    ('R6', 'Module::insert_symbol', dict(pat='hooks: &GcHooks,', rep='', count=1)),
    # R4: Option combinators with closures that capture self
    # R4g: tail Option combinators with closures that capture self -> match
    ('R4g', 'Module::get_symbol_by_name'),
    ('R4g', 'Module::get_exported_symbol_by_name'),
  ],
)
