// ---- trusted model around the Pratt parser's operator functions (A-pratt) -------------------------------------------------------------
pub struct Diag { }
pub type ParseResult<T> = Result<T, Diag>;
#[derive(Clone, Copy)]
pub struct Token { pub k: TokenKind }
impl Token { pub fn kind(&self) -> (r: TokenKind) ensures r == self.k { self.k } }
/// an arena reference in the real parser
pub struct Node<T> { pub t: T }
/// the expressions these functions build; every other form is `Leaf` (what a stubbed sub-parse answers)
pub enum Expr { Leaf(u64), Binary(Box<Node<Binary>>), Unary(Box<Node<Unary>>), Ternary(Box<Node<Ternary>>) }
#[verifier::external_body] pub fn verif_unreachable<T>() -> T requires false { unimplemented!() }
pub struct Rule { pub precedence: Precedence }
/// A-pratt: the binding power of a token in infix position is what kani:front/o01_p_infix_table proves of the real INFIX_TABLE
#[verifier::external_body] pub fn get_infix(kind: TokenKind) -> (r: Rule) ensures prec_ord(r.precedence) == spec_infix(kind) { unimplemented!() }

pub enum Ev { Parse(Precedence), Consume(TokenKind), Act(Act, bool) }
/// the parse actions that are stubs here
pub enum Act { Channel, Grouping, Interpolation, Lambda, List, Literal, Map, Number, Self_, String, Super, Variable, InstanceAccess, Call, Index, Dot }
pub struct Parser {
  pub previous: Token,
  pub current: Token,
  /// ghost: the sub-parses asked for and the tokens demanded, in order
  pub log: Ghost<Seq<Ev>>,
  /// ghost: what those sub-parses answered, in order
  pub answers: Ghost<Seq<Expr>>,
}
impl Parser {
  /// the recursive sub-parse: logs the binding power it was asked for; the tokens move on arbitrarily
  #[verifier::external_body] pub fn parse_precedence(&mut self, precedence: Precedence) -> (r: ParseResult<Expr>)
    ensures final(self).log@ == old(self).log@.push(Ev::Parse(precedence)),
      r matches Ok(e) ==> final(self).answers@ == old(self).answers@.push(e),
      r is Err ==> final(self).answers@ == old(self).answers@ { unimplemented!() }
  #[verifier::external_body] pub fn consume_basic(&mut self, kind: TokenKind, message: &str) -> (r: ParseResult<()>)
    ensures final(self).log@ == old(self).log@.push(Ev::Consume(kind)), final(self).answers@ == old(self).answers@ { unimplemented!() }
  #[verifier::external_body] pub fn node<T>(&self, t: T) -> (r: Box<Node<T>>) ensures r.t == t { unimplemented!() }

  // ---- the parse actions left as stubs: each logs itself (and the can_assign flag it was given; false where it takes none)
  #[verifier::external_body] pub fn channel(&mut self) -> (r: ParseResult<Expr>)
    ensures r matches Ok(_) ==> final(self).log@ == old(self).log@.push(Ev::Act(Act::Channel, false)), final(self).answers@ == old(self).answers@ { unimplemented!() }
  #[verifier::external_body] pub fn grouping(&mut self) -> (r: ParseResult<Expr>)
    ensures r matches Ok(_) ==> final(self).log@ == old(self).log@.push(Ev::Act(Act::Grouping, false)), final(self).answers@ == old(self).answers@ { unimplemented!() }
  #[verifier::external_body] pub fn interpolation(&mut self) -> (r: ParseResult<Expr>)
    ensures r matches Ok(_) ==> final(self).log@ == old(self).log@.push(Ev::Act(Act::Interpolation, false)), final(self).answers@ == old(self).answers@ { unimplemented!() }
  #[verifier::external_body] pub fn lambda(&mut self) -> (r: ParseResult<Expr>)
    ensures r matches Ok(_) ==> final(self).log@ == old(self).log@.push(Ev::Act(Act::Lambda, false)), final(self).answers@ == old(self).answers@ { unimplemented!() }
  #[verifier::external_body] pub fn list(&mut self) -> (r: ParseResult<Expr>)
    ensures r matches Ok(_) ==> final(self).log@ == old(self).log@.push(Ev::Act(Act::List, false)), final(self).answers@ == old(self).answers@ { unimplemented!() }
  #[verifier::external_body] pub fn literal(&mut self) -> (r: Expr)
    ensures final(self).log@ == old(self).log@.push(Ev::Act(Act::Literal, false)), final(self).answers@ == old(self).answers@ { unimplemented!() }
  #[verifier::external_body] pub fn map(&mut self) -> (r: ParseResult<Expr>)
    ensures r matches Ok(_) ==> final(self).log@ == old(self).log@.push(Ev::Act(Act::Map, false)), final(self).answers@ == old(self).answers@ { unimplemented!() }
  #[verifier::external_body] pub fn number(&mut self) -> (r: Expr)
    ensures final(self).log@ == old(self).log@.push(Ev::Act(Act::Number, false)), final(self).answers@ == old(self).answers@ { unimplemented!() }
  #[verifier::external_body] pub fn self_(&mut self) -> (r: Expr)
    ensures final(self).log@ == old(self).log@.push(Ev::Act(Act::Self_, false)), final(self).answers@ == old(self).answers@ { unimplemented!() }
  #[verifier::external_body] pub fn string(&mut self) -> (r: Expr)
    ensures final(self).log@ == old(self).log@.push(Ev::Act(Act::String, false)), final(self).answers@ == old(self).answers@ { unimplemented!() }
  #[verifier::external_body] pub fn super_(&mut self) -> (r: ParseResult<Expr>)
    ensures r matches Ok(_) ==> final(self).log@ == old(self).log@.push(Ev::Act(Act::Super, false)), final(self).answers@ == old(self).answers@ { unimplemented!() }
  #[verifier::external_body] pub fn variable(&mut self, can_assign: bool) -> (r: ParseResult<Expr>)
    ensures r matches Ok(_) ==> final(self).log@ == old(self).log@.push(Ev::Act(Act::Variable, can_assign)), final(self).answers@ == old(self).answers@ { unimplemented!() }
  #[verifier::external_body] pub fn instance_access(&mut self, can_assign: bool) -> (r: ParseResult<Expr>)
    ensures r matches Ok(_) ==> final(self).log@ == old(self).log@.push(Ev::Act(Act::InstanceAccess, can_assign)), final(self).answers@ == old(self).answers@ { unimplemented!() }
  #[verifier::external_body] pub fn call(&mut self, lhs: Expr) -> (r: ParseResult<Expr>)
    ensures r matches Ok(_) ==> final(self).log@ == old(self).log@.push(Ev::Act(Act::Call, false)), final(self).answers@ == old(self).answers@ { unimplemented!() }
  #[verifier::external_body] pub fn index(&mut self, lhs: Expr, can_assign: bool) -> (r: ParseResult<Expr>)
    ensures r matches Ok(_) ==> final(self).log@ == old(self).log@.push(Ev::Act(Act::Index, can_assign)), final(self).answers@ == old(self).answers@ { unimplemented!() }
  #[verifier::external_body] pub fn dot(&mut self, lhs: Expr, can_assign: bool) -> (r: ParseResult<Expr>)
    ensures r matches Ok(_) ==> final(self).log@ == old(self).log@.push(Ev::Act(Act::Dot, can_assign)), final(self).answers@ == old(self).answers@ { unimplemented!() }
}
