"""C01: what the Pratt parser's operator functions hand to parse_precedence — Parser::{binary, and, or, unary, ternary, expr} and
Precedence::higher, extracted as they are.  parse_precedence, consume_basic and node are stubs that LOG (the binding power asked for, the token
consumed) and answer an arbitrary expression; the contract of each function is the exact log and the node it builds: a binary operator parses
its right operand exactly one level tighter than itself (left associativity, and nothing looser is swallowed), and / or parse theirs at their
own level or one tighter, a prefix operator parses its operand at Unary (or Call, which accepts the same programs), the branches of a ternary
are whole expressions.  The order of the precedence levels is generated from the declaration of `enum Precedence` (what the derived PartialOrd
means); the binding power of each token is the table the Kani harness o01_p_infix_table proves of the real INFIX_TABLE."""
import re, os

def generate(repo):
  src = open(os.path.join(repo, 'laythe_vm/src/compiler/parser.rs'), encoding='utf-8').read()
  m = re.search(r'\nenum Precedence \{\n(.*?)\n\}', src, re.S)
  if not m: raise Exception('enum Precedence not found')
  names = [v.strip().rstrip(',') for v in m.group(1).split('\n') if v.strip() and not v.strip().startswith('//')]
  arms = ' '.join('Precedence::%s => %d,' % (n, i) for i, n in enumerate(names))
  prelude = ('// generated from the declaration order of `enum Precedence` (the meaning of its derived PartialOrd)\n'
             'pub open spec fn prec_ord(p: Precedence) -> int { match p { %s } }\n' % arms)
  return dict(prelude=prelude, contracts='')

UNIT = dict(
  name='prattops',
  properties=['C01'],
  items=[
    ('laythe_vm/src/compiler/ir/token.rs', ['enum TokenKind']),
    ('laythe_vm/src/compiler/ir/ast.rs', ['enum BinaryOp', 'enum UnaryOp', 'struct Binary', 'struct Unary', 'struct Ternary',
      ("impl<'a> Binary<'a>", ['new']), ("impl<'a> Unary<'a>", ['new']), ("impl<'a> Ternary<'a>", ['new'])]),
    ('laythe_vm/src/compiler/parser.rs', ['enum Precedence', 'enum Prefix', 'enum Infix', ('impl Precedence', ['higher']),
      ("impl<'a> Parser<'a>", ['expr', 'prefix', 'infix', 'ternary', 'binary', 'and', 'or', 'unary'])]),
  ],
  rewrites=[
    ('R11', 'enum TokenKind', dict(drop=['Debug', 'Hash', 'VariantCount'], add=['Structural'])),
    ('R11', 'enum Precedence', dict(drop=['Debug', 'PartialOrd'], add=['Structural', 'Copy', 'Eq'])),
    ('R7', 'enum Precedence', dict(pat='enum Precedence', rep='pub enum Precedence', count=1)),
    ('R7', 'enum Prefix', dict(pat='enum Prefix', rep='pub enum Prefix', count=1)),
    ('R7', 'enum Infix', dict(pat='enum Infix', rep='pub enum Infix', count=1)),
    ('R5', 'kind:implhdr', dict(pat=r"impl<'a> (\w+)<'a> \{", rep=r'impl \1 {', regex=True, optional=True)),
    ('R5', '*', dict(pat=r"<'a>", rep='', regex=True, optional=True)),
    ('R7', 'Parser::*', dict(pat=r'^(\s*(?:///?[^\n]*\n\s*)*)fn ', rep=r'\1pub fn ', regex=True, optional=True)),
    ('R7', 'Precedence::higher', dict(pat=r'^(\s*(?:///?[^\n]*\n\s*)*)fn ', rep=r'\1pub fn ', regex=True, count=1)),
    ('R3', 'Precedence::higher', dict(pat=r'panic!\("[^"]*"\)', rep='verif_unreachable()', regex=True, count=1)),
    ('R3', 'Parser::binary', dict(pat=r'unreachable!\("[^"]*"\)', rep='verif_unreachable()', regex=True, count=1)),
    ('R3', 'Parser::unary', dict(pat=r'unimplemented!\("[^"]*"\)', rep='verif_unreachable()', regex=True, count=1)),
  ],
  generate=generate,
  spec_files=['../prattops/spec_infix.rs'],
  assumption_ids=['A-pratt'],
)
