/// the binary operator a token spells
pub open spec fn spec_binop(kind: TokenKind) -> Option<BinaryOp> {
  match kind {
    TokenKind::BangEqual => Some(BinaryOp::Ne), TokenKind::EqualEqual => Some(BinaryOp::Eq),
    TokenKind::Greater => Some(BinaryOp::Gt), TokenKind::GreaterEqual => Some(BinaryOp::GtEq),
    TokenKind::Less => Some(BinaryOp::Lt), TokenKind::LessEqual => Some(BinaryOp::LtEq),
    TokenKind::Plus => Some(BinaryOp::Add), TokenKind::Minus => Some(BinaryOp::Sub),
    TokenKind::Star => Some(BinaryOp::Mul), TokenKind::Slash => Some(BinaryOp::Div),
    _ => None,
  }
}
/// the prefix operator a token spells
pub open spec fn spec_unop(kind: TokenKind) -> Option<UnaryOp> {
  match kind {
    TokenKind::Minus => Some(UnaryOp::Negate), TokenKind::Bang => Some(UnaryOp::Not), TokenKind::LeftArrow => Some(UnaryOp::Receive),
    _ => None,
  }
}
/// exactly one sub-parse was asked for, at a binding power between lo and hi, and it answered e
pub open spec fn one_parse(o: &Parser, n: &Parser, lo: int, hi: int, e: Expr) -> bool {
  n.log@.len() == o.log@.len() + 1 && n.log@.subrange(0, o.log@.len() as int) =~= o.log@
    && (n.log@.last() matches Ev::Parse(p) && lo <= prec_ord(p) <= hi)
    && n.answers@ == o.answers@.push(e)
}

/// the stubbed action a prefix dispatch must run (None: one of the functions under contract here)
pub open spec fn prefix_act(a: Prefix) -> Option<Act> {
  match a {
    Prefix::Channel => Some(Act::Channel), Prefix::Grouping => Some(Act::Grouping), Prefix::Interpolation => Some(Act::Interpolation),
    Prefix::Lambda => Some(Act::Lambda), Prefix::List => Some(Act::List), Prefix::Literal => Some(Act::Literal), Prefix::Map => Some(Act::Map),
    Prefix::Number => Some(Act::Number), Prefix::Self_ => Some(Act::Self_), Prefix::String => Some(Act::String), Prefix::Super => Some(Act::Super),
    Prefix::Variable => Some(Act::Variable), Prefix::InstanceAccess => Some(Act::InstanceAccess), Prefix::Unary => None,
  }
}
pub open spec fn infix_act(a: Infix) -> Option<Act> {
  match a { Infix::Call => Some(Act::Call), Infix::Index => Some(Act::Index), Infix::Dot => Some(Act::Dot), _ => None }
}
/// does the action take the can_assign flag
pub open spec fn act_assigns(a: Act) -> bool { a is Variable || a is InstanceAccess || a is Index || a is Dot }
