// precedence levels, loosest first (laythe.bnf: Assign < Ternary < LogicOr < LogicAnd < Equality < Comparison < Addition < Multiplication
// < Unary < Call < Primary) — the same numbering as kx/front's NONE .. PRIMARY
pub open spec fn spec_infix(kind: TokenKind) -> int {
  match kind {
    TokenKind::Or => 3,
    TokenKind::And => 4,
    TokenKind::EqualEqual | TokenKind::BangEqual => 5,
    TokenKind::Greater | TokenKind::GreaterEqual | TokenKind::Less | TokenKind::LessEqual => 6,
    TokenKind::Minus | TokenKind::Plus => 7,
    TokenKind::Slash | TokenKind::Star => 8,
    TokenKind::LeftParen | TokenKind::LeftBracket | TokenKind::Dot => 10,
    TokenKind::QuestionMark => 2,
    _ => 0,
  }
}
