// precedence levels, loosest first (laythe.bnf: Assign < Ternary < LogicOr < LogicAnd < Equality < Comparison < Addition < Multiplication
// < Unary < Call < Primary) — the same numbering as kx/front's NONE .. PRIMARY
pub open spec fn spec_infix(kind: TokenKind) -> int {
  match kind {
    TokenKind::Or => 3,
    TokenKind::And => 4,
    TokenKind::EqualEqual | TokenKind::BangEqual => 5,
    TokenKind::Greater | TokenKind::GreaterEqual | TokenKind::Less | TokenKind::LessEqual => 6,
    TokenKind::Minus | TokenKind::Plus => 7,
    TokenKind::Slash | TokenKind::Star => 8,
    TokenKind::LeftParen | TokenKind::LeftBracket | TokenKind::Dot => 10,
    TokenKind::QuestionMark => 2,
    _ => 0,
  }
}
/// the tokens that spell a binary / a prefix operator
pub open spec fn is_binop_token(k: TokenKind) -> bool {
  k is BangEqual || k is EqualEqual || k is Greater || k is GreaterEqual || k is Less || k is LessEqual || k is Plus || k is Minus || k is Star || k is Slash
}
pub open spec fn is_unop_token(k: TokenKind) -> bool { k is Minus || k is Bang || k is LeftArrow }
/// the infix parse action the grammar gives a token — what kani:front/o01_p_infix_action proves of the real INFIX_TABLE
pub open spec fn spec_infix_action(k: TokenKind) -> Option<Infix> {
  if k is Or { Some(Infix::Or) } else if k is And { Some(Infix::And) } else if is_binop_token(k) { Some(Infix::Binary) }
  else if k is QuestionMark { Some(Infix::Ternary) } else if k is LeftParen { Some(Infix::Call) } else if k is LeftBracket { Some(Infix::Index) }
  else if k is Dot { Some(Infix::Dot) } else { None }
}
