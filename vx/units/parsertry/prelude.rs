// ---- trusted model of the parser around try_block (A-parser) --------------------------------------------------------------------------------------------
pub struct Diag { }
pub type ParseResult<T> = Result<T, Diag>;
#[derive(Clone, Copy, PartialEq, Eq, Structural)]
pub enum TokenKind { LeftBrace, Catch, Identifier, Colon, Other }
#[derive(Clone, Copy)]
pub struct Token { pub k: TokenKind, pub id: u64 }
impl Token { pub fn clone(&self) -> (r: Token) ensures r == *self { *self } }
#[derive(Clone, Copy)] pub enum BlockReturn { Can, Cannot }
pub struct Block { pub id: u64 }
pub struct SymbolTable { pub id: u64 }
pub struct Catch { pub name: Token, pub class: Option<Token>, pub symbols: SymbolTable, pub block: Block }
impl Catch { pub fn new(name: Token, class: Option<Token>, symbols: SymbolTable, block: Block) -> (r: Catch) ensures r.name == name, r.class == class, r.symbols == symbols, r.block == block { Catch { name, class, symbols, block } } }
pub struct Try { pub block: Block, pub catches: Vec<Catch> }
impl Try { pub fn new(block: Block, catches: Vec<Catch>) -> (r: Try) ensures r.block == block, r.catches == catches { Try { block, catches } } }
pub enum Stmt { Try(Box<Try>), Other }
pub enum Ev { Match(TokenKind), Ident(Token), Tok(TokenKind), Block(Block) }
pub struct Parser {
  pub previous: Token,
  pub current: Token,
  /// ghost: tokens consumed and blocks parsed, in order
  pub log: Ghost<Seq<Ev>>,
}
impl Parser {
  /// consume the current token if it is of this kind (logged only then)
  #[verifier::external_body] pub fn match_kind(&mut self, kind: TokenKind) -> (r: ParseResult<bool>)
    ensures r matches Ok(b) ==> final(self).log@ == (if b { old(self).log@.push(Ev::Match(kind)) } else { old(self).log@ }) { unimplemented!() }
  /// demand a token of this kind: it becomes `previous`; an identifier is logged with the token itself
  #[verifier::external_body] pub fn consume(&mut self, kind: TokenKind, message: &str) -> (r: ParseResult<()>)
    ensures r is Ok ==> final(self).log@ == old(self).log@.push(if kind == TokenKind::Identifier { Ev::Ident(final(self).previous) } else { Ev::Tok(kind) }) { unimplemented!() }
  #[verifier::external_body] pub fn block(&mut self, block_return: BlockReturn) -> (r: ParseResult<Block>)
    ensures r matches Ok(b) ==> final(self).log@ == old(self).log@.push(Ev::Block(b)) { unimplemented!() }
  #[verifier::external_body] pub fn table(&self) -> (r: SymbolTable) { unimplemented!() }
  #[verifier::external_body] pub fn error<T>(&mut self, message: &str) -> (r: ParseResult<T>) ensures r is Err { unimplemented!() }
  #[verifier::external_body] pub fn node<T>(&self, t: T) -> (r: Box<T>) ensures *r == t { unimplemented!() }
}
