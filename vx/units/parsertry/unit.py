"""C04 (try / catch as written): Parser::try_block, extracted as it is.  A try statement is the block after `try {` and, for every `catch` that
follows, in source order, (the identifier after `catch` — the variable —, the identifier after a `:` if there is one — the class filter —, the
block after `{`); at least one catch is demanded.  match_kind / consume / block / table are stubs that log; the contract is the exact log as a
function of the node built."""
UNIT = dict(
  name='parsertry',
  properties=['C04', 'C01'],
  items=[('laythe_vm/src/compiler/parser.rs', [("impl<'a> Parser<'a>", ['try_block'])])],
  rewrites=[
    ('R5', 'kind:implhdr', dict(pat="impl<'a> Parser<'a> {", rep='impl Parser {', count=1)),
    ('R5', 'Parser::*', dict(pat=r"<'a>", rep='', regex=True, optional=True)),
    ('R5', 'Parser::*', dict(pat=r"<'_>", rep='', regex=True, optional=True)),
    ('R7', 'Parser::*', dict(pat=r'^(\s*(?:///?[^\n]*\n\s*)*)fn ', rep=r'\1pub fn ', regex=True, optional=True)),
    ('R5', 'Parser::try_block', dict(pat='let mut catches: Vec<Catch> = self.vec();', rep='let mut catches: Vec<Catch> = Vec::new();', count=1)),
    # R4: `X.and_then(|()| Y)?` (closure over self) -> match, X / Y copied unchanged
    ('R4', 'Parser::try_block', dict(pat=r'(?s)self\s*\.consume\((TokenKind::LeftBrace, "[^"]*")\)\s*\.and_then\(\|\(\)\| (self\.block\([^()]*\))\)\?;',
      rep=r'match self.consume(\1) { Ok(()) => \2, Err(verif_e) => Err(verif_e) }?;', regex=True, count=2)),
  ],
  assumption_ids=['A-parser'],
)
