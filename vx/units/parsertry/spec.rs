/// what one catch clause consumes, in order
pub open spec fn catch_evs(c: Catch) -> Seq<Ev> {
  seq![Ev::Match(TokenKind::Catch), Ev::Ident(c.name)]
    + (match c.class { Some(t) => seq![Ev::Match(TokenKind::Colon), Ev::Ident(t)], None => Seq::<Ev>::empty() })
    + seq![Ev::Tok(TokenKind::LeftBrace), Ev::Block(c.block)]
}
pub open spec fn catches_evs(s: Seq<Catch>) -> Seq<Ev> decreases s.len() {
  if s.len() == 0 { Seq::<Ev>::empty() } else { catches_evs(s.drop_last()) + catch_evs(s.last()) }
}
pub proof fn lemma_catches_push(s: Seq<Catch>, c: Catch)
  ensures catches_evs(s.push(c)) == catches_evs(s) + catch_evs(c),
{
  assert(s.push(c).drop_last() =~= s);
}
