// ---- trusted model of the interpreter around the signal match (A-fiber) ------------------------------------------------------------------------------
#[derive(Clone, Copy)] pub struct Value { pub bits: u64 }
#[derive(Clone, Copy)] pub struct FiberRef { pub id: int }
#[derive(Clone, Copy)] pub struct ErrRef { pub id: int }
pub enum ExecutionSignal { Ok, OkReturn, RuntimeError, ContextSwitch, Exit }
#[derive(Clone, Copy)] pub enum ExecutionMode { Normal, CallingNativeCode(usize) }
/// VerifNextInstruction: the loop goes round again (no result yet)
pub enum ExecutionResult { Ok(Value), Exit(u16), RuntimeError, CompileError, VerifNextInstruction }
pub enum Ev { Switch(FiberRef), Deadlock, Unwind(ErrRef) }
pub struct Fiber { pub frames: Ghost<nat>, pub stack: Ghost<Seq<Value>>, pub error: Option<ErrRef> }
impl Fiber {
  #[verifier::external_body] pub fn verif_frames_len(&self) -> (r: usize) ensures r as nat == self.frames@ { unimplemented!() }
  #[verifier::external_body] pub fn pop(&mut self) -> (r: Value)
    requires old(self).stack@.len() > 0,
    ensures r == old(self).stack@.last(), final(self).stack@ == old(self).stack@.drop_last(), final(self).frames == old(self).frames, final(self).error == old(self).error { unimplemented!() }
  #[verifier::external_body] pub fn error(&self) -> (r: Option<ErrRef>) ensures r == self.error { unimplemented!() }
}
pub struct Queue { pub q: Ghost<Seq<FiberRef>> }
impl Queue {
  /// VecDeque::pop_front
  #[verifier::external_body] pub fn pop_front(&mut self) -> (r: Option<FiberRef>)
    ensures old(self).q@.len() == 0 ==> r is None && final(self).q@ == old(self).q@,
      old(self).q@.len() > 0 ==> r == Some(old(self).q@[0]) && final(self).q@ == old(self).q@.subrange(1, old(self).q@.len() as int) { unimplemented!() }
}
impl Queue {
  /// VecDeque::pop_back
  #[verifier::external_body] pub fn pop_back(&mut self) -> (r: Option<FiberRef>)
    ensures old(self).q@.len() == 0 ==> r is None && final(self).q@ == old(self).q@,
      old(self).q@.len() > 0 ==> r == Some(old(self).q@.last()) && final(self).q@ == old(self).q@.drop_last() { unimplemented!() }
}
/// what the handler search answers for an error in a mode (unwind unit)
pub uninterp spec fn unwind_answer(e: ErrRef, mode: ExecutionMode, k: nat) -> Option<ExecutionResult>;
pub struct Vm { pub fiber: Fiber, pub fiber_queue: Queue, pub exit_code: u16, pub log: Ghost<Seq<Ev>> }
impl Vm {
  #[verifier::external_body] pub fn context_switch(&mut self, fiber: FiberRef)
    ensures final(self).log@ == old(self).log@.push(Ev::Switch(fiber)), final(self).fiber_queue == old(self).fiber_queue, final(self).exit_code == old(self).exit_code { }
  #[verifier::external_body] pub fn verif_print_deadlock(&mut self)
    ensures final(self).log@ == old(self).log@.push(Ev::Deadlock), final(self).fiber_queue == old(self).fiber_queue, final(self).fiber == old(self).fiber, final(self).exit_code == old(self).exit_code { }
  #[verifier::external_body] pub fn stack_unwind(&mut self, error: ErrRef, mode: ExecutionMode) -> (r: Option<ExecutionResult>)
    ensures final(self).log@ == old(self).log@.push(Ev::Unwind(error)), r == unwind_answer(error, mode, old(self).log@.len()),
      final(self).fiber_queue == old(self).fiber_queue, final(self).exit_code == old(self).exit_code { unimplemented!() }
  #[verifier::external_body] pub fn internal_error<T>(&self, message: &str) -> T requires false { unimplemented!() }
}
