"""C07 / C18 / C16 (what the interpreter loop does with a handler's answer): the signal match of Vm::execute (R18: the arms of `match result {`
copied unchanged; "the loop goes round again" is made explicit as a last expression).  Ok: the next instruction.  OkReturn: a nested run started
for a native callback ends exactly when the frame count is back at the depth it was started at, with the value on top of the stack; otherwise
the next instruction.  ContextSwitch: the fiber that has waited LONGEST in the run queue is switched to (first in, first out); with an empty
queue every fiber is blocked: the deadlock message and a runtime-error result.  RuntimeError: the handler search (unwind unit) decides; Exit: the
exit code set by the handler.  context_switch / stack_unwind / the message are stubs that log."""
UNIT = dict(
  name='signalvm',
  properties=['C07', 'C18', 'C16'],
  items=[('laythe_vm/src/vm/mod.rs', [('impl Vm', ['execute'])])],
  rewrites=[
    ('R18', 'Vm::execute', dict(scrutinee=r'result', sig='pub fn execute(&mut self, result: ExecutionSignal, mode: ExecutionMode) -> ExecutionResult', var='result')),
    # after the match the loop goes round again: made explicit
    ('R18', 'Vm::execute', dict(pat=r'\}\n  \}\n$', rep='}\n    ExecutionResult::VerifNextInstruction\n  }\n', regex=True, count=1)),
    # the deadlock message: three statements on the io handle -> one named stub
    ('R8', 'Vm::execute', dict(pat=r'(?s)let mut stdio = self\.io\(\)\.stdio\(\);\s*let stderr = stdio\.stderr\(\);\s*writeln!\(stderr, "Fatal error deadlock\."\)\.expect\("[^"]*"\);', rep='self.verif_print_deadlock();', regex=True, count=1)),
    ('R6', 'Vm::execute', dict(pat='self.fiber.frames().len()', rep='self.fiber.verif_frames_len()', optional=True)),
  ],
  assumption_ids=['A-fiber'],
)
