impl Class {
  /// field slots are dense: the table is a bijection between the declared names and 0..len
  pub open spec fn fields_dense(&self) -> bool {
    &&& self.fields@.dom().finite()
    &&& forall|n: LyStr| self.fields@.dom().contains(n) ==> (#[trigger] self.fields@[n] as int) < self.fields@.dom().len()
    &&& forall|a: LyStr, b: LyStr| self.fields@.dom().contains(a) && self.fields@.dom().contains(b) && a != b ==> #[trigger] self.fields@[a] != #[trigger] self.fields@[b]
  }
  /// A-alias of the gctrace unit, as an invariant: the initialiser is always also reachable through the method table
  pub open spec fn init_aliases_method(&self) -> bool {
    self.init matches Some(v) ==> exists|n: LyStr| self.methods@.dom().contains(n) && is_init_name(n) && self.methods@[n] == v
  }
}
