"""C03 / C13 / C05: the class tables (Class::add_field / add_method / get_field_index / get_method / inherit) over abstract maps.
Discharges what the ops unit assumes as A-heap (a field keeps its slot, a subclass extends its parent's numbering) and what gctrace
assumes as A-alias (`init` is always also the entry "init" of `methods`)."""
_F = ['bare', 'fields', 'init', 'add_field', 'add_method', 'get_method', 'get_field_index', 'inherit']
UNIT = dict(
  name='klass',
  properties=['C03', 'C13', 'C05'],
  items=[('laythe_core/src/object/class.rs', [('impl Class', _F)])],
  rewrites=[
    # R6: hashbrown tables -> map stubs (prelude.rs); GC pointers -> pointer stubs
    ('R6', 'Class::bare', dict(pat='methods: HashMap::default(),', rep='methods: MethodMap::verif_new(),', count=1)),
    ('R6', 'Class::bare', dict(pat='fields: HashMap::default(),', rep='fields: FieldMap::verif_new(),', count=1)),
    ('R6', 'Class::inherit', dict(pat='_hooks: &GcHooks, super_class: ObjRef<Class>', rep='super_class: ClassRef', count=1)),
    # R14: comparison of the method name with the INIT constant (str bytes)
    ('R14', 'Class::add_method', dict(pat='&*name == INIT', rep='verif_is_init(name)', count=1)),
    ('R4', 'Class::get_method', dict(pat='self.methods.get(name).copied()', rep='match self.methods.get(name) { Some(verif_v) => Some(*verif_v), None => None }', count=1)),
    ('R4', 'Class::get_field_index', dict(pat='self.fields.get(name).copied()', rep='match self.fields.get(name) { Some(verif_v) => Some(*verif_v), None => None }', count=1)),
    # R9: the super class is read through its GC pointer
    ('R9', 'Class::inherit', dict(pat=r'super_class\.(methods|fields|init)\b', rep=r'super_class.verif_deref().\1', regex=True, count=5)),
    # R4: the two copy loops (hashbrown iteration with a closure capturing &mut self): one stub each, named after what the closure does.
    # The closure bodies are matched exactly; any other body is UNDECIDED.
    ('R4', 'Class::inherit', dict(pat=r'super_class\.verif_deref\(\)\.methods\.iter\(\)\.for_each\(\|\(key, value\)\| \{\s*if self\.methods\.get\(key\)\.is_none\(\) \{\s*self\.methods\.insert\(\*key, \*value\);\s*\}\s*\}\);',
                                  rep='self.methods.verif_copy_missing_from(&super_class.verif_deref().methods);', regex=True, count=1)),
    ('R4', 'Class::inherit', dict(pat=r'super_class\.verif_deref\(\)\.fields\.iter\(\)\.for_each\(\|\(field, index\)\| \{\s*self\.fields\.insert\(\*field, \*index\);\s*\}\);',
                                  rep='self.fields.verif_copy_all_from(&super_class.verif_deref().fields);', regex=True, count=1)),
    # the debug assertion about the previous super class reads a class name through a pointer (str): dropped, NOT verified
    ('R3d', 'Class::inherit', dict(pat=r'debug_assert!\(self\s*\.super_class\s*\.map\(\|super_class\| &\*super_class\.name == "Object"\)\s*\.unwrap_or\(true\)\);', rep='', regex=True, count=1)),
  ],
  assumption_ids=['A-std'],
)
