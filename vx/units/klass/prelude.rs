// ---- trusted model for the klass unit: hashbrown tables as mathematical maps (A-std), GC pointers as identities -------------
#[derive(Clone, Copy, PartialEq, Eq, Structural)]
pub struct LyStr { pub p: usize }
#[derive(Clone, Copy)]
pub struct Value { pub bits: u64 }
#[derive(Clone, Copy, PartialEq, Eq, Structural)]
pub struct ClassRef { pub p: usize }
pub uninterp spec fn is_init_name(n: LyStr) -> bool;
#[verifier::external_body] pub fn verif_is_init(n: LyStr) -> (r: bool) ensures r == is_init_name(n) { true }

pub struct FieldMap { pub p: usize }
impl FieldMap {
  pub uninterp spec fn view(&self) -> Map<LyStr, u16>;
  #[verifier::external_body] pub fn verif_new() -> (r: FieldMap) ensures r@ == Map::<LyStr, u16>::empty() { FieldMap { p: 0 } }
  #[verifier::external_body] pub fn contains_key(&self, k: &LyStr) -> (r: bool) ensures r == self@.dom().contains(*k) { true }
  /// A-std: a hash table's length is the number of keys
  #[verifier::external_body] pub fn len(&self) -> (r: usize) ensures r == self@.dom().len(), self@.dom().finite() { 0 }
  #[verifier::external_body] pub fn is_empty(&self) -> (r: bool) ensures r == (self@.dom() == Set::<LyStr>::empty()) { true }
  #[verifier::external_body] pub fn insert(&mut self, k: LyStr, v: u16) -> (r: Option<u16>) ensures final(self)@ == old(self)@.insert(k, v) { None }
  #[verifier::external_body] pub fn get(&self, k: &LyStr) -> (r: Option<&u16>) ensures (r is Some) == self@.dom().contains(*k), r is Some ==> *r->0 == self@[*k] { None }
  #[verifier::external_body] pub fn reserve(&mut self, n: usize) ensures final(self)@ == old(self)@ { }
  /// R4: `other.iter().for_each(|(k, v)| { self.insert(*k, *v); })`
  #[verifier::external_body] pub fn verif_copy_all_from(&mut self, other: &FieldMap) ensures final(self)@ == old(self)@.union_prefer_right(other@) { }
}
pub struct MethodMap { pub p: usize }
impl MethodMap {
  pub uninterp spec fn view(&self) -> Map<LyStr, Value>;
  #[verifier::external_body] pub fn verif_new() -> (r: MethodMap) ensures r@ == Map::<LyStr, Value>::empty() { MethodMap { p: 0 } }
  #[verifier::external_body] pub fn len(&self) -> (r: usize) { 0 }
  #[verifier::external_body] pub fn is_empty(&self) -> (r: bool) ensures r == (self@.dom() == Set::<LyStr>::empty()) { true }
  #[verifier::external_body] pub fn insert(&mut self, k: LyStr, v: Value) -> (r: Option<Value>) ensures final(self)@ == old(self)@.insert(k, v) { None }
  #[verifier::external_body] pub fn get(&self, k: &LyStr) -> (r: Option<&Value>) ensures (r is Some) == self@.dom().contains(*k), r is Some ==> *r->0 == self@[*k] { None }
  #[verifier::external_body] pub fn reserve(&mut self, n: usize) ensures final(self)@ == old(self)@ { }
  /// R4: `other.iter().for_each(|(k, v)| { if self.get(k).is_none() { self.insert(*k, *v); } })`
  #[verifier::external_body] pub fn verif_copy_missing_from(&mut self, other: &MethodMap) ensures final(self)@ == other@.union_prefer_right(old(self)@) { }
}

pub struct Class { pub name: LyStr, pub init: Option<Value>, pub methods: MethodMap, pub fields: FieldMap, pub meta_class: Option<ClassRef>, pub super_class: Option<ClassRef> }
pub uninterp spec fn class_at(c: ClassRef) -> Class;
impl ClassRef {
  /// deref of the GC pointer
  #[verifier::external_body] pub fn verif_deref(&self) -> (r: &Class) ensures *r == class_at(*self) { unimplemented!() }
}
// A-std: Option::or is eager in its argument
pub assume_specification<T> [Option::<T>::or] (a: Option<T>, b: Option<T>) -> (r: Option<T>)
  ensures r == (if a is Some { a } else { b });
