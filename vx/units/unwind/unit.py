"""C04 / C16 / C18: the fiber's search for an exception handler (Fiber::stack_unwind, pause_unwind, finish_unwind and the handler stack).
The decision logic and the backtrace arithmetic are the real text; the raw-pointer tail of stack_unwind (frame ip / stack top / frame
pointer stores) is one stub call that receives the three handler-derived expressions as written in the source (R9)."""
UNIT = dict(
  name='unwind',
  properties=['C04', 'C16', 'C18'],
  items=[
    ('laythe_vm/src/fiber/exception_handler.rs', ['struct ExceptionHandler', ('impl ExceptionHandler', None)]),
    ('laythe_vm/src/fiber/mod.rs', ['enum FiberState', 'enum UnwindResult',
      ('impl Fiber', ['exception_handler', 'stack_unwind', 'pause_unwind', 'finish_unwind', 'pop_exception_handler', 'push_exception_handler', 'error_while_handling', 'activate', 'frames', 'frame_count', 'print_error', 'error_backtrace'])]),
  ],
  rewrites=[
    ('R7f', 'struct ExceptionHandler'),
    ('R11', 'struct ExceptionHandler', dict(drop=['Debug'], add=['Structural'])),
    ('R11', 'enum FiberState', dict(drop=['Debug'], add=['Structural'])),
    ('R7', 'enum FiberState', dict(pat='enum FiberState', rep='pub enum FiberState', count=1)),
    # R6: the result borrows the frame it resumes; the model returns that frame's index
    ('R6', 'enum UnwindResult', dict(pat="pub enum UnwindResult<'a> {\n  PotentiallyHandled(&'a mut CallFrame),", rep='pub enum UnwindResult {\n  PotentiallyHandled(usize),', count=1)),
    ('R11', 'enum UnwindResult', dict(drop=['Debug', 'PartialEq', 'Eq'])),
    ('R7', 'Fiber::*', dict(pat=r'^(\s*(?:///[^\n]*\n\s*)*)(unsafe )?fn ', rep=r'\1pub \2fn ', regex=True, optional=True)),
    # R6: allocator / root-context parameters dropped (the model's vectors are std vectors)
    ('R6', 'Fiber::stack_unwind', dict(pat='pub unsafe fn stack_unwind<C: TraceRoot + GcContext>(\n    &mut self,\n    context: &C,', rep='pub unsafe fn stack_unwind(\n    &mut self,', count=1)),
    ('R6', 'Fiber::stack_unwind', dict(pat='self.pause_unwind(context, ', rep='self.pause_unwind(', count=1)),
    ('R6', 'Fiber::pause_unwind', dict(pat='fn pause_unwind<C: TraceRoot + GcContext>(&mut self, context: &C, new_frame_top: usize)', rep='fn pause_unwind(&mut self, new_frame_top: usize)', count=1)),
    ('R6', 'Fiber::push_exception_handler', dict(pat='pub fn push_exception_handler<C: TraceRoot + GcContext>(\n    &mut self,\n    context: &C,', rep='pub fn push_exception_handler(\n    &mut self,', count=1)),
    ('R6', 'Fiber::push_exception_handler', dict(pat=r'self\.exception_handlers\.push\(\s*context\.gc\(\),\s*context,\s*', rep='self.exception_handlers.push(', regex=True, count=1)),
    # the two debug assertions of push_exception_handler are about the function object (chunk length, max_slots): dropped, NOT verified
    ('R3d', 'Fiber::push_exception_handler', dict(pat=r'debug_assert!\(\s*offset < self\.fun\(\)\.chunk\(\)\.instructions\(\)\.len\(\),\s*"[^"]*"\s*\);\s*debug_assert!\(\s*slot_depth < self\.fun\(\)\.max_slots\(\),\s*"[^"]*"\s*\);', rep='', regex=True, count=1)),
    ('R6', 'Fiber::stack_unwind', dict(pat=') -> UnwindResult { unsafe {', rep=') -> UnwindResult { {', count=1)),
    ('R6', 'Fiber::frames', dict(pat='&[CallFrame]', rep='&Vec<CallFrame>', count=1)),
    # R9: the raw-pointer tail of stack_unwind: ip / stack top / current frame are stored through pointers; one stub, same operands
    ('R9', 'Fiber::stack_unwind', dict(
       pat=r'let frame = &mut self\.frames\[(exception_handler\.call_frame_depth\(\) - 1)\];\s*let fun = frame\.fun\(\);\s*let instructions = fun\.chunk\(\)\.instructions\(\);\s*'
           r'let stack_top = frame\.stack_start\(\)\.add\((exception_handler\.slot_depth\(\))\);\s*(?://[^\n]*\n\s*)*frame\.store_ip\(&instructions\[(exception_handler\.offset\(\))\] as \*const u8\);\s*'
           r'self\.frame = frame as \*mut CallFrame;\s*self\.stack_top = stack_top;\s*UnwindResult::PotentiallyHandled\(frame\)',
       rep=r'let verif_frame = \1;\n    self.verif_resume_at(verif_frame, \3, \2);\n    UnwindResult::PotentiallyHandled(verif_frame)', regex=True, count=1)),
    # R9: collecting the instruction pointers of a run of frames (iterator adaptors + GC vector extend): one stub, skip / take operands in source order
    ('R9', 'Fiber::pause_unwind', dict(
       pat=r'let temp: Vec<\*const u8> = self\s*\.frames\(\)\s*\.iter\(\)\s*\.rev\(\)\s*\.skip\(([^)]*)\)\s*\.take\(([^)]*)\)\s*\.map\(\|frame\| frame\.ip\(\)\)\s*\.collect\(\);\s*self\.backtrace_ips\.extend\(context\.gc\(\), context, &temp\);',
       rep=r'self.verif_collect_ips_skip_take(\1, \2);', regex=True, optional=True)),
    ('R9', 'Fiber::pause_unwind', dict(
       pat=r'let temp: Vec<\*const u8> = self\s*\.frames\(\)\s*\.iter\(\)\s*\.rev\(\)\s*\.take\(([^)]*)\)\s*\.skip\(([^)]*)\)\s*\.map\(\|frame\| frame\.ip\(\)\)\s*\.collect\(\);\s*self\.backtrace_ips\.extend\(context\.gc\(\), context, &temp\);',
       rep=r'self.verif_collect_ips_take_skip(\1, \2);', regex=True, optional=True)),
    # the same chain with only one adaptor, or none: skip(0) / take(usize::MAX) are the identity adaptors
    ('R9', 'Fiber::pause_unwind', dict(
       pat=r'let temp: Vec<\*const u8> = self\s*\.frames\(\)\s*\.iter\(\)\s*\.rev\(\)\s*\.take\(([^)]*)\)\s*\.map\(\|frame\| frame\.ip\(\)\)\s*\.collect\(\);\s*self\.backtrace_ips\.extend\(context\.gc\(\), context, &temp\);',
       rep=r'self.verif_collect_ips_skip_take(0, \1);', regex=True, optional=True)),
    ('R9', 'Fiber::pause_unwind', dict(
       pat=r'let temp: Vec<\*const u8> = self\s*\.frames\(\)\s*\.iter\(\)\s*\.rev\(\)\s*\.skip\(([^)]*)\)\s*\.map\(\|frame\| frame\.ip\(\)\)\s*\.collect\(\);\s*self\.backtrace_ips\.extend\(context\.gc\(\), context, &temp\);',
       rep=r'self.verif_collect_ips_skip_take(\1, usize::MAX);', regex=True, optional=True)),
    ('R9', 'Fiber::pause_unwind', dict(
       pat=r'let temp: Vec<\*const u8> = self\s*\.frames\(\)\s*\.iter\(\)\s*\.rev\(\)\s*\.map\(\|frame\| frame\.ip\(\)\)\s*\.collect\(\);\s*self\.backtrace_ips\.extend\(context\.gc\(\), context, &temp\);',
       rep=r'self.verif_collect_ips_skip_take(0, usize::MAX);', regex=True, optional=True)),
    # ---- print_error (C18): which instruction pointer each traceback line is computed from. The text output (writeln! / format! / get_line /
    # raw offset_from) is one stub per frame that receives the frame and the chosen ip; the header and the final message line are dropped (text).
    ('R6', 'Fiber::print_error', dict(pat='pub fn print_error(&self, log: &mut dyn Write, error: Instance) {', rep='pub fn print_error(&self, log: &mut TraceOut) {', count=1)),
    ('R8', 'Fiber::print_error', dict(pat=r'writeln!\(log, "Traceback \(most recent call last\):"\)\.expect\("[^"]*"\);', rep='', regex=True, count=1)),
    ('R8', 'Fiber::print_error', dict(pat=r'let message = error\[0\]\.to_obj\(\)\.to_str\(\);\s*writeln!\(log, "\{\}: \{\}", &\*error\.class\(\)\.name\(\), &\*message\)\.expect\("[^"]*"\);', rep='', regex=True, count=1)),
    ('R8', 'Fiber::print_error', dict(pat=r'let fun = frame\.fun\(\);\s*let location: String = match &\*fun\.name\(\) \{\s*SCRIPT => SCRIPT\.to_owned\(\),\s*_ => format!\("\{\}\(\)", &\*fun\.name\(\)\),\s*\};', rep='', regex=True, count=1)),
    # the byte offset of the chosen ip in its function's code, and the line looked up from it: the ARGUMENT of get_line stays real text
    ('R8', 'Fiber::print_error', dict(pat=r'let offset = unsafe \{ ([\w.()]+)\.offset_from\(fun\.chunk\(\)\.instructions\(\)\.as_ptr\(\)\) \} as usize;',
                                       rep=r'let verif_ip = \1;\n      let offset = verif_code_offset(frame, verif_ip);', regex=True, count=1)),
    ('R8', 'Fiber::print_error', dict(pat=r'writeln!\(\s*log,\s*"  \{\}:\{\} in \{\}",\s*fun\.module\(\)\.path\(\),\s*fun\.chunk\(\)\.get_line\(((?:[^()]|\([^()]*\))*)\),\s*location\s*\)\s*\.expect\("[^"]*"\);',
                                       rep=r'log.verif_frame_line(frame, verif_ip, \1);', regex=True, count=1)),
    # the frame loop: `for frame in frames.iter().rev()` / `for (index, frame) in frames.iter().rev().enumerate()` -> index loop, innermost first
    ('R13', 'Fiber::print_error', dict(pat=r'for \(index, frame\) in self\.frames\.iter\(\)\.rev\(\)\.enumerate\(\) \{', rep='let mut index: usize = 0;\n    while index < self.frames.len() {\n      let frame = &self.frames[self.frames.len() - 1 - index];', regex=True, optional=True)),
    ('R13', 'Fiber::print_error', dict(pat=r'for frame in self\.frames\.iter\(\)\.rev\(\) \{', rep='let mut index: usize = 0;\n    while index < self.frames.len() {\n      let frame = &self.frames[self.frames.len() - 1 - index];', regex=True, optional=True)),
    ('R13', 'Fiber::print_error', dict(pat=r'(log\.verif_frame_line\([^;]*;)', rep=r'\1\n      index += 1;', regex=True, count=1)),
    # ---- error_backtrace (C18): the strings of e.backTrace. The iterator chain becomes its loop (R13c); which ip and which code offset each
    # line is computed from stays real text; the formatted line itself (frame_line: format!) is one stub per line
    ('R13c', 'Fiber::error_backtrace'),
    ('R8', 'Fiber::error_backtrace', dict(pat=r'let fun = frame\.fun\(\);\s*let offset = unsafe \{ ([\w.()*]+)\.offset_from\(fun\.chunk\(\)\.instructions\(\)\.as_ptr\(\)\) \} as usize;', rep=r'let verif_ip = *\1;\n        let offset = verif_code_offset(frame, verif_ip);', regex=True, count=1)),
    ('R8', 'Fiber::error_backtrace', dict(pat=r'frame_line\(fun, ((?:[^()]|\([^()]*\))*)\)', rep=r'verif_frame_line_str(frame, \1)', regex=True, count=1)),
    ('R4', 'Fiber::exception_handler', dict(pat='self.exception_handlers.last().copied()', rep='match self.exception_handlers.last() { Some(verif_h) => Some(*verif_h), None => None }', count=1)),
    ('R3', 'Fiber::pop_exception_handler', dict(pat=r'assert!\(\s*self\.exception_handlers\.pop\(\)\.is_some\(\),\s*"[^"]*"\s*\);', rep='let verif_p = self.exception_handlers.pop(); assert!(verif_p.is_some());', regex=True, count=1)),
    ('R3', 'Fiber::pause_unwind', dict(pat=r'assert!\(matches!\(\s*self\.state,\s*FiberState::Running \| FiberState::Unwinding\s*\)\);', rep='assert!(self.state == FiberState::Running || self.state == FiberState::Unwinding);', regex=True, count=1)),
    ('R3', 'Fiber::activate', dict(pat=r'assert!\(matches!\(\s*self\.state,\s*FiberState::Pending \| FiberState::Unwinding\s*\)\);', rep='assert!(self.state == FiberState::Pending || self.state == FiberState::Unwinding);', regex=True, count=1)),
    ('R3', 'Fiber::stack_unwind', dict(pat=r'debug_assert!\(\s*(self\.frames\.len\(\) >= exception_handler\.call_frame_depth\(\)),\s*"[^"]*"\s*\);', rep=r'debug_assert!(\1);', regex=True, count=1)),
  ],
  assumption_ids=['A-fiber', 'A-hist'],
)
