// ---- unwind unit: specification -----------------------------------------------------------------------------------------
impl Fiber {
  /// the instruction pointers collected so far belong to the innermost frames, innermost first (C18: the backtrace names the right frames)
  pub open spec fn ips_ok(&self) -> bool {
    &&& self.backtrace_ips@.len() <= self.frames@.len()
    &&& forall|j: int| 0 <= j < self.backtrace_ips@.len() ==> ip_val(#[trigger] self.backtrace_ips@[j]) == frame_ip(self.frames@[self.frames@.len() - 1 - j])
  }
  /// every handler was registered by a frame that still exists (call_frame_depth is the 1-based frame count at the `try`)
  pub open spec fn handlers_ok(&self) -> bool {
    forall|k: int| 0 <= k < self.exception_handlers@.len() ==> 1 <= (#[trigger] self.exception_handlers@[k]).call_frame_depth <= self.frames@.len()
  }
}

/// the instruction pointer the j-th traceback line (innermost first) must be computed from
pub open spec fn line_ip(f: &Fiber, j: int) -> int {
  if j < f.backtrace_ips@.len() { ip_val(f.backtrace_ips@[j]) } else { frame_ip(f.frames@[f.frames@.len() - 1 - j]) }
}
/// the code offset a traceback line is looked up at: the byte before the saved instruction pointer
pub open spec fn line_at(frame: CallFrame, ip: int) -> int { if code_off(frame, ip) >= 1 { code_off(frame, ip) - 1 } else { 0 } }

/// how many backtrace lines an error caught by `handler` gets: the frames from the top down to the handler's own, as far as ips were saved
pub open spec fn bt_len(f: &Fiber, handler: &ExceptionHandler) -> int {
  let want = f.frames@.len() - handler.call_frame_depth + 1;
  let a = if want < f.frames@.len() { want } else { f.frames@.len() as int };
  if a < f.backtrace_ips@.len() { a } else { f.backtrace_ips@.len() as int }
}
