// ---- trusted model of the fiber for the unwind unit (R10 projection: only what the unwinding code touches) -------------
/// CallFrame: identity + the stored instruction pointer
#[derive(Clone, Copy)]
pub struct CallFrame { pub id: usize }
pub uninterp spec fn frame_ip(f: CallFrame) -> int;
pub struct IpPtr { pub p: usize }
pub uninterp spec fn ip_val(p: IpPtr) -> int;

pub struct Fiber {
  pub frames: Vec<CallFrame>,
  pub exception_handlers: Vec<ExceptionHandler>,
  pub state: FiberState,
  pub backtrace_ips: Vec<IpPtr>,
  /// ghost: where execution resumes (frame index, code offset, slot depth above the frame's first slot) after the last stack_unwind
  pub resume: Ghost<Option<(int, int, int)>>,
}

impl Fiber {
  /// R9: store ip = &instructions[offset], stack_top = frame.stack_start + slot_depth, current frame = frames[index]
  #[verifier::external_body]
  pub fn verif_resume_at(&mut self, index: usize, offset: usize, slot_depth: usize)
    requires (index as int) < old(self).frames@.len()
    ensures final(self).resume@ == Some((index as int, offset as int, slot_depth as int)),
            final(self).frames == old(self).frames, final(self).exception_handlers == old(self).exception_handlers, final(self).state == old(self).state, final(self).backtrace_ips == old(self).backtrace_ips
  { }
  /// R9: frames().iter().rev().skip(s).take(t).map(ip).collect() appended to backtrace_ips (std's skip / take never panic)
  #[verifier::external_body]
  pub fn verif_collect_ips_skip_take(&mut self, skip: usize, take: usize)
    ensures ({
      let n = old(self).frames@.len() as int;
      let avail = if skip as int >= n { 0int } else { n - skip as int };
      let cnt = if (take as int) < avail { take as int } else { avail };
      &&& final(self).backtrace_ips@.len() == old(self).backtrace_ips@.len() + cnt
      &&& final(self).backtrace_ips@.subrange(0, old(self).backtrace_ips@.len() as int) == old(self).backtrace_ips@
      &&& forall|j: int| 0 <= j < cnt ==> ip_val(#[trigger] final(self).backtrace_ips@[old(self).backtrace_ips@.len() + j]) == frame_ip(old(self).frames@[n - 1 - skip as int - j])
    }),
    final(self).frames == old(self).frames, final(self).exception_handlers == old(self).exception_handlers, final(self).state == old(self).state, final(self).resume == old(self).resume
  { }
  /// the same with the adaptors in the other order: take(t) first, then skip(s)
  #[verifier::external_body]
  pub fn verif_collect_ips_take_skip(&mut self, take: usize, skip: usize)
    ensures ({
      let n = old(self).frames@.len() as int;
      let taken = if (take as int) < n { take as int } else { n };
      let cnt = if skip as int >= taken { 0int } else { taken - skip as int };
      &&& final(self).backtrace_ips@.len() == old(self).backtrace_ips@.len() + cnt
      &&& final(self).backtrace_ips@.subrange(0, old(self).backtrace_ips@.len() as int) == old(self).backtrace_ips@
      &&& forall|j: int| 0 <= j < cnt ==> ip_val(#[trigger] final(self).backtrace_ips@[old(self).backtrace_ips@.len() + j]) == frame_ip(old(self).frames@[n - 1 - skip as int - j])
    }),
    final(self).frames == old(self).frames, final(self).exception_handlers == old(self).exception_handlers, final(self).state == old(self).state, final(self).resume == old(self).resume
  { }
}
/// frame_line(fun, at): `path:line in name()` with line = get_line(at) — the text is not verified, which offset it is looked up at is
pub uninterp spec fn line_str(frame: CallFrame, at: int) -> Seq<char>;
#[verifier::external_body] pub fn verif_frame_line_str(frame: &CallFrame, at: usize) -> (r: String) ensures r@ == line_str(*frame, at as int) { String::new() }

// ---- print_error (C18) ----------------------------------------------------------------------------------------------------------
impl CallFrame { #[verifier::external_body] pub fn ip(&self) -> (r: IpPtr) ensures ip_val(r) == frame_ip(*self) { IpPtr { p: 0 } } }
impl Clone for IpPtr { #[verifier::external_body] fn clone(&self) -> (r: Self) ensures r == *self { IpPtr { p: self.p } } }
impl Copy for IpPtr {}
/// the traceback being printed: one (frame, instruction pointer) pair per line, in print order
pub struct TraceOut { pub ghost lines: Seq<(CallFrame, int)>, pub ghost at: Seq<int> }
/// byte offset of an instruction pointer inside its frame's function (ip.offset_from(code start))
pub uninterp spec fn code_off(frame: CallFrame, ip: int) -> nat;
#[verifier::external_body] pub fn verif_code_offset(frame: &CallFrame, ip: IpPtr) -> (r: usize) ensures r as nat == code_off(*frame, ip_val(ip)) { 0 }
impl TraceOut {
  /// R8: `  path:line in name` where line = get_line(at) of the frame's function; `at` is the code offset the line is looked up at
  #[verifier::external_body]
  pub fn verif_frame_line(&mut self, frame: &CallFrame, ip: IpPtr, at: usize) ensures final(self).lines == old(self).lines.push((*frame, ip_val(ip))), final(self).at == old(self).at.push(at as int) { }
}
