// ---- what a collection promises -----------------------------------------------------------------------------------------------------------
/// everything the first n temporary roots reach
pub open spec fn roots_reach(roots: Seq<Box<GcRef>>, n: int) -> Set<int> decreases n {
  if n <= 0 { Set::<int>::empty() } else { roots_reach(roots, n - 1).union(reach_of(roots[n - 1].id@)) }
}
impl Allocator {
  pub open spec fn live(&self) -> Set<int> { ids_of(self.heap.ids@).union(ids_of(self.nursery_obj_heap.ids@)).union(ids_of(self.obj_heap.ids@)) }
  pub open spec fn total(&self) -> nat { size_sum(self.heap.ids@) + size_sum(self.nursery_obj_heap.ids@) + size_sum(self.obj_heap.ids@) }
  /// between collections: the byte count is exact (C20) and no owned object carries a mark
  pub open spec fn wf(&self, gc: &GcState) -> bool {
    &&& self.bytes_allocated as nat == self.total()
    &&& unmarked(self.heap.ids@, gc.marked@) && unmarked(self.nursery_obj_heap.ids@, gc.marked@) && unmarked(self.obj_heap.ids@, gc.marked@)
    // an object is owned by one heap: the boxed heap shares nothing with the two object generations
    &&& apart(self.heap.ids@, self.nursery_obj_heap.ids@) && apart(self.heap.ids@, self.obj_heap.ids@)
  }
  pub open spec fn all_roots(&self, ctx: &RootCtx) -> Set<int> { ctx.reach@.union(roots_reach(self.temp_roots@, self.temp_roots@.len() as int)) }
}
pub open spec fn unmarked(s: Seq<int>, m: Set<int>) -> bool { forall|i: int| 0 <= i < s.len() ==> !m.contains(#[trigger] s[i]) }
pub open spec fn apart(a: Seq<int>, b: Seq<int>) -> bool { forall|x: int| #[trigger] a.contains(x) ==> !b.contains(x) }
/// the allocator owns the object (it is in one of the three heaps)
pub open spec fn owns(a: &Allocator, x: int) -> bool { a.live().contains(x) }
/// C20 / C05 / C09: the state after a collection whose marking phase marked exactly `r` (o / og before, n / ng after)
pub open spec fn gc_post(o: &Allocator, og: &GcState, n: &Allocator, ng: &GcState, can: bool, r: Set<int>) -> bool {
  &&& n.gc_count == o.gc_count + 1
  &&& !can ==> n.heap == o.heap && n.nursery_obj_heap == o.nursery_obj_heap && n.obj_heap == o.obj_heap && n.bytes_allocated == o.bytes_allocated
        && n.next_gc == o.next_gc && n.intern_cache == o.intern_cache && ng == og
  &&& can ==> {
    // the boxed heap is always swept completely: exactly the reachable part is left
    &&& n.heap.ids@ == keep(o.heap.ids@, r)
    &&& n.nursery_obj_heap.ids@ == Seq::<int>::empty()
    // at least every 10th collection is full: exactly the reachable objects are left; otherwise the old generation may stay and the reachable nursery joins it
    &&& n.gc_count % 10 == 0 ==> n.obj_heap.ids@ == keep(o.obj_heap.ids@, r) + keep(o.nursery_obj_heap.ids@, r)
    &&& n.gc_count % 10 != 0 ==> n.obj_heap.ids@ == o.obj_heap.ids@ + keep(o.nursery_obj_heap.ids@, r) || n.obj_heap.ids@ == keep(o.obj_heap.ids@, r) + keep(o.nursery_obj_heap.ids@, r)
    // the byte count is the sum of what is left, the threshold follows it
    &&& n.bytes_allocated as nat == n.total()
    &&& n.next_gc as nat == 2 * n.total()
    // C09: the intern cache keeps exactly the entries whose string was reached
    &&& n.intern_cache.map@ == o.intern_cache.map@.restrict(o.intern_cache.map@.dom().filter(|k: Seq<char>| r.contains(o.intern_cache.map@[k])))
    // no mark is left on anything the allocator still owns
    &&& n.wf(ng)
  }
}

pub proof fn lemma_keep_contains(s: Seq<int>, m: Set<int>, x: int)
  ensures keep(s, m).contains(x) <==> (s.contains(x) && m.contains(x)),
  decreases s.len()
{
  if s.len() > 0 {
    let t = s.drop_last();
    lemma_keep_contains(t, m, x);
    assert(s =~= t.push(s.last()));
    assert(s.contains(x) <==> (t.contains(x) || x == s.last())) by {
      if s.contains(x) { let i = choose|i: int| 0 <= i < s.len() && s[i] == x; if i < t.len() { assert(t[i] == x); } }
      if t.contains(x) { let i = choose|i: int| 0 <= i < t.len() && t[i] == x; assert(s[i] == x); }
      if x == s.last() { assert(s[s.len() - 1] == x); }
    }
    if m.contains(s.last()) {
      let k = keep(t, m);
      let kp = k.push(s.last());
      assert(kp.contains(x) <==> (k.contains(x) || x == s.last())) by {
        if kp.contains(x) { let i = choose|i: int| 0 <= i < kp.len() && kp[i] == x; if i < k.len() { assert(k[i] == x); } }
        if k.contains(x) { let i = choose|i: int| 0 <= i < k.len() && k[i] == x; assert(kp[i] == x); }
        if x == s.last() { assert(kp[kp.len() - 1] == x); }
      }
    }
  }
}
pub proof fn lemma_size_push(s: Seq<int>, y: int)
  ensures size_sum(s.push(y)) == size_sum(s) + size_of(y),
{
  assert(s.push(y).drop_last() =~= s);
}
pub proof fn lemma_size_add(a: Seq<int>, b: Seq<int>)
  ensures size_sum(a + b) == size_sum(a) + size_sum(b),
  decreases b.len()
{
  if b.len() == 0 { assert(a + b =~= a); }
  else {
    lemma_size_add(a, b.drop_last());
    assert((a + b).drop_last() =~= a + b.drop_last());
    assert((a + b).last() == b.last());
  }
}
pub proof fn lemma_keep_size(s: Seq<int>, m: Set<int>)
  ensures size_sum(keep(s, m)) <= size_sum(s),
  decreases s.len()
{
  if s.len() > 0 {
    lemma_keep_size(s.drop_last(), m);
    if m.contains(s.last()) { lemma_size_push(keep(s.drop_last(), m), s.last()); }
  }
}
pub proof fn lemma_add_contains(a: Seq<int>, b: Seq<int>, x: int)
  ensures (a + b).contains(x) <==> (a.contains(x) || b.contains(x)),
{
  let c = a + b;
  if c.contains(x) { let i = choose|i: int| 0 <= i < c.len() && c[i] == x; if i < a.len() { assert(a[i] == x); } else { assert(b[i - a.len()] == x); } }
  if a.contains(x) { let i = choose|i: int| 0 <= i < a.len() && a[i] == x; assert(c[i] == x); }
  if b.contains(x) { let i = choose|i: int| 0 <= i < b.len() && b[i] == x; assert(c[a.len() + i] == x); }
}
pub proof fn lemma_push_contains(s: Seq<int>, y: int, x: int)
  ensures s.push(y).contains(x) <==> (s.contains(x) || x == y),
{
  let c = s.push(y);
  if c.contains(x) { let i = choose|i: int| 0 <= i < c.len() && c[i] == x; if i < s.len() { assert(s[i] == x); } }
  if s.contains(x) { let i = choose|i: int| 0 <= i < s.len() && s[i] == x; assert(c[i] == x); }
  if x == y { assert(c[s.len() as int] == x); }
}
pub proof fn lemma_roots_prefix(a: Seq<Box<GcRef>>, b: Seq<Box<GcRef>>, n: int)
  requires 0 <= n <= a.len(), n <= b.len(), a.subrange(0, n) == b.subrange(0, n),
  ensures roots_reach(a, n) == roots_reach(b, n),
  decreases n
{
  if n > 0 {
    assert(a.subrange(0, n - 1) =~= a.subrange(0, n).subrange(0, n - 1));
    assert(b.subrange(0, n - 1) =~= b.subrange(0, n).subrange(0, n - 1));
    lemma_roots_prefix(a, b, n - 1);
    assert(a[n - 1] == a.subrange(0, n)[n - 1]);
    assert(b[n - 1] == b.subrange(0, n)[n - 1]);
  }
}

/// what a sweep leaves carries no mark: the marks of everything the swept heap held were cleared
pub proof fn lemma_unmarked_after(kept: Seq<int>, from: Seq<int>, r: Set<int>, cleared: Set<int>, m: Set<int>)
  requires forall|x: int| kept.contains(x) ==> from.contains(x), forall|x: int| from.contains(x) ==> cleared.contains(x), forall|x: int| m.contains(x) ==> !cleared.contains(x),
  ensures unmarked(kept, m),
{
  assert forall|i: int| 0 <= i < kept.len() implies !m.contains(#[trigger] kept[i]) by { assert(kept.contains(kept[i])); }
}
pub proof fn lemma_unmarked_owns(a: &Allocator, gc: &GcState, x: int)
  requires a.wf(gc), owns(a, x),
  ensures !gc.marked@.contains(x),
{
  if a.heap.ids@.contains(x) { let i = choose|i: int| 0 <= i < a.heap.ids@.len() && a.heap.ids@[i] == x; }
  if a.nursery_obj_heap.ids@.contains(x) { let i = choose|i: int| 0 <= i < a.nursery_obj_heap.ids@.len() && a.nursery_obj_heap.ids@[i] == x; }
  if a.obj_heap.ids@.contains(x) { let i = choose|i: int| 0 <= i < a.obj_heap.ids@.len() && a.obj_heap.ids@[i] == x; }
}

/// clearing marks of objects a heap does not hold does not change what its sweep keeps
pub proof fn lemma_keep_apart(s: Seq<int>, r: Set<int>, c: Set<int>)
  requires forall|x: int| #[trigger] s.contains(x) ==> !c.contains(x),
  ensures keep(s, r.difference(c)) == keep(s, r),
  decreases s.len()
{
  if s.len() > 0 {
    let t = s.drop_last();
    assert forall|x: int| #[trigger] t.contains(x) implies !c.contains(x) by {
      let i = choose|i: int| 0 <= i < t.len() && t[i] == x; assert(s[i] == x); assert(s.contains(x));
    }
    lemma_keep_apart(t, r, c);
    assert(s.contains(s.last())) by { assert(s[s.len() - 1] == s.last()); }
  }
}
