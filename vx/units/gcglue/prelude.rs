// ---- trusted model of the heaps, the mark bits and the sweeps (A-gcglue) -------------------------------------------------------------------
pub uninterp spec fn size_of(id: int) -> nat;
/// what tracing the object marks (itself included: gctrace unit, mark-guarded handles)
pub uninterp spec fn reach_of(id: int) -> Set<int>;
#[verifier::external_body] pub proof fn axiom_reach_self(id: int) ensures reach_of(id).contains(id) { }
#[derive(Clone, Copy)] pub struct GcRef { pub id: Ghost<int> }
pub struct Handle { pub id: Ghost<int> }
pub struct ObjData { pub id: Ghost<int> }
pub struct AllocResult { pub handle: Handle, pub size: usize, pub reference: GcRef }
impl ObjData {
  #[verifier::external_body] pub fn alloc(self) -> (r: AllocResult) ensures r.handle.id@ == self.id@, r.reference.id@ == self.id@, r.size as nat == size_of(self.id@) { unimplemented!() }
}
pub struct RootCtx { pub can: bool, pub reach: Ghost<Set<int>> }
impl RootCtx { #[verifier::external_body] pub fn can_collect(&self) -> (r: bool) ensures r == self.can { true } }
/// a heap vector: the ids of the handles it owns, in order
pub struct HandleVec { pub ids: Ghost<Seq<int>> }
impl HandleVec { #[verifier::external_body] pub fn push(&mut self, h: Handle) ensures final(self).ids@ == old(self).ids@.push(h.id@) { } }
pub struct InternCache { pub map: Ghost<Map<Seq<char>, int>> }
/// the mark bits (in the real code: one bit in each object header)
pub struct GcState { pub marked: Ghost<Set<int>> }
pub struct Allocator {
  pub heap: HandleVec, pub nursery_obj_heap: HandleVec, pub obj_heap: HandleVec, pub temp_roots: Vec<Box<GcRef>>,
  pub bytes_allocated: usize, pub intern_cache: InternCache, pub next_gc: usize, pub gc_count: u128,
}
pub open spec fn size_sum(s: Seq<int>) -> nat decreases s.len() { if s.len() == 0 { 0 } else { size_sum(s.drop_last()) + size_of(s.last()) } }
/// the subsequence of marked ids
pub open spec fn keep(s: Seq<int>, m: Set<int>) -> Seq<int> decreases s.len() {
  if s.len() == 0 { Seq::<int>::empty() } else if m.contains(s.last()) { keep(s.drop_last(), m).push(s.last()) } else { keep(s.drop_last(), m) }
}
pub open spec fn ids_of(s: Seq<int>) -> Set<int> { s.to_set() }
impl Allocator {
  /// context.trace()
  #[verifier::external_body] pub fn trace_root(&self, verif_gc: &mut GcState, context: &RootCtx)
    ensures final(verif_gc).marked@ == old(verif_gc).marked@.union(context.reach@) { }
  /// entity.trace()
  #[verifier::external_body] pub fn trace(&self, verif_gc: &mut GcState, entity: &GcRef)
    ensures final(verif_gc).marked@ == old(verif_gc).marked@.union(reach_of(entity.id@)) { }
  /// intern_cache.retain(|_, s| s.marked())   (intern unit)
  #[verifier::external_body] pub fn sweep_intern_cache(&mut self, verif_gc: &mut GcState)
    ensures final(self).heap == old(self).heap, final(self).nursery_obj_heap == old(self).nursery_obj_heap, final(self).obj_heap == old(self).obj_heap, final(self).temp_roots == old(self).temp_roots,
      final(self).bytes_allocated == old(self).bytes_allocated, final(self).next_gc == old(self).next_gc, final(self).gc_count == old(self).gc_count,
      final(self).intern_cache.map@ == old(self).intern_cache.map@.restrict(old(self).intern_cache.map@.dom().filter(|k: Seq<char>| old(verif_gc).marked@.contains(old(self).intern_cache.map@[k]))),
      final(verif_gc).marked == old(verif_gc).marked { }
  /// both generations: keep the marked, clear their marks, promote the nursery; returns the bytes left  (bounded Kani: gc crate)
  #[verifier::external_body] pub fn sweep_obj_full(&mut self, verif_gc: &mut GcState) -> (r: usize)
    ensures final(self).heap == old(self).heap, final(self).temp_roots == old(self).temp_roots, final(self).intern_cache == old(self).intern_cache,
      final(self).bytes_allocated == old(self).bytes_allocated, final(self).next_gc == old(self).next_gc, final(self).gc_count == old(self).gc_count,
      final(self).obj_heap.ids@ == keep(old(self).obj_heap.ids@, old(verif_gc).marked@) + keep(old(self).nursery_obj_heap.ids@, old(verif_gc).marked@),
      final(self).nursery_obj_heap.ids@ == Seq::<int>::empty(), r as nat == size_sum(final(self).obj_heap.ids@),
      final(verif_gc).marked@ == old(verif_gc).marked@.difference(ids_of(old(self).obj_heap.ids@).union(ids_of(old(self).nursery_obj_heap.ids@))) { 0 }
  /// nursery only: the old generation is kept whatever its marks (which are cleared), the marked part of the nursery is promoted
  #[verifier::external_body] pub fn sweep_obj_nursery(&mut self, verif_gc: &mut GcState) -> (r: usize)
    ensures final(self).heap == old(self).heap, final(self).temp_roots == old(self).temp_roots, final(self).intern_cache == old(self).intern_cache,
      final(self).bytes_allocated == old(self).bytes_allocated, final(self).next_gc == old(self).next_gc, final(self).gc_count == old(self).gc_count,
      final(self).obj_heap.ids@ == old(self).obj_heap.ids@ + keep(old(self).nursery_obj_heap.ids@, old(verif_gc).marked@),
      final(self).nursery_obj_heap.ids@ == Seq::<int>::empty(), r as nat == size_sum(final(self).obj_heap.ids@),
      final(verif_gc).marked@ == old(verif_gc).marked@.difference(ids_of(old(self).obj_heap.ids@).union(ids_of(old(self).nursery_obj_heap.ids@))) { 0 }
  #[verifier::external_body] pub fn sweep_heap(&mut self, verif_gc: &mut GcState) -> (r: usize)
    ensures final(self).obj_heap == old(self).obj_heap, final(self).nursery_obj_heap == old(self).nursery_obj_heap, final(self).temp_roots == old(self).temp_roots, final(self).intern_cache == old(self).intern_cache,
      final(self).bytes_allocated == old(self).bytes_allocated, final(self).next_gc == old(self).next_gc, final(self).gc_count == old(self).gc_count,
      final(self).heap.ids@ == keep(old(self).heap.ids@, old(verif_gc).marked@), r as nat == size_sum(final(self).heap.ids@),
      final(verif_gc).marked@ == old(verif_gc).marked@.difference(ids_of(old(self).heap.ids@)) { 0 }
}
