"""C05 / C20 / C09: the allocator's glue around the sweeps — Allocator::{manage, manage_obj, allocate, allocate_obj, collect_garbage_with_value,
collect_garbage, sweep_obj_heap, push_root, pop_roots, allocated, temp_roots} as real text, default feature set (R3c).  The heaps are ghost
sequences of object ids, the mark bits (object headers in the real code) are an explicit ghost set threaded through the calls (R16), tracing an
entity marks an uninterpreted reach set.  The three sweeps, the intern-cache sweep and tracing itself are stubs here: their bodies are decided
elsewhere (intern unit; gctrace unit; bounded Kani harnesses of the gc crate).  Under contract:
  * C05 in flight: an allocation that triggers a collection roots the object being allocated for exactly that collection; it is alive afterwards
  * C05: every root — the context and EVERY temporary root — is traced before anything is swept; nothing reachable from them is released
  * C09: the intern cache is swept after marking and before the sweeps clear the marks: it keeps exactly the reachable strings
  * C20: after a collection bytes_allocated is the sum of the sizes of what is left and next_gc is twice that; a full collection (every 10th)
    leaves exactly the reachable objects, a nursery collection keeps the old generation and the reachable part of the nursery; between
    collections bytes_allocated is the sum of the sizes of everything allocated; no mark survives a collection."""
_T = ['allocate', 'allocate_obj', 'collect_garbage_with_value', 'collect_garbage', 'trace_root', 'trace', 'sweep_intern_cache', 'sweep_obj_heap',
      'sweep_heap', 'sweep_obj_full', 'sweep_obj_nursery']
_M = ['manage', 'manage_obj', 'allocate', 'allocate_obj', 'collect_garbage_with_value', 'collect_garbage', 'sweep_obj_heap', 'push_root', 'pop_roots', 'allocated', 'temp_roots']
_GEN = r'<R, T, C>\(&mut self, data: T, context: &C\) -> R\s*where\s*R: [^{]*?,\s*T: Allocate(?:Obj)?<R>,\s*C: TraceRoot \+ \?Sized,\s*\{'
UNIT = dict(
  name='gcglue',
  properties=['C05', 'C20', 'C09'],
  items=[('laythe_core/src/allocator.rs', ['const GC_HEAP_GROW_FACTOR', ('impl Allocator', _M)])],
  rewrites=[
    # R3c: the default build: none of the gc_log_* / gc_stress features
    ('R3c', 'Allocator::*', dict(features=[])),
    ('R7', 'Allocator::*', dict(pat=r'^(\s*(?:///?[^\n]*\n\s*)*)fn ', rep=r'\1pub fn ', regex=True, optional=True)),
    # R6: generic data / reference / root-context parameters -> the model's object, reference and context types
    ('R6', 'Allocator::manage', dict(pat=_GEN, rep='(&mut self, data: ObjData, context: &RootCtx) -> GcRef {', regex=True, count=1)),
    ('R6', 'Allocator::manage_obj', dict(pat=_GEN, rep='(&mut self, data: ObjData, context: &RootCtx) -> GcRef {', regex=True, count=1)),
    ('R6', 'Allocator::allocate', dict(pat=_GEN, rep='(&mut self, data: ObjData, context: &RootCtx) -> GcRef {', regex=True, count=1)),
    ('R6', 'Allocator::allocate_obj', dict(pat=_GEN, rep='(&mut self, data: ObjData, context: &RootCtx) -> GcRef {', regex=True, count=1)),
    ('R6', 'Allocator::collect_garbage_with_value', dict(pat=r"<C: TraceRoot \+ \?Sized, T: 'static \+ Trace>\(\s*&mut self,\s*context: &C,\s*item: T,\s*\)", rep='(&mut self, context: &RootCtx, item: GcRef)', regex=True, count=1)),
    ('R6', 'Allocator::collect_garbage', dict(pat=r'<C: TraceRoot \+ \?Sized>\(&mut self, context: &C\)', rep='(&mut self, context: &RootCtx)', regex=True, count=1)),
    ('R6', 'Allocator::push_root', dict(pat=r"<T: 'static \+ Trace>\(&mut self, managed: T\)", rep='(&mut self, managed: GcRef)', regex=True, count=1)),
    # R3: the message of the debug assertion (format arguments) is dropped, the condition stays an obligation
    ('R3', 'Allocator::pop_roots', dict(pat=r'debug_assert!\(\s*(count <= self\.temp_roots\.len\(\)),\s*"[^"]*",\s*count,\s*self\.temp_roots\.len\(\)\s*\);', rep=r'debug_assert!(\1);', regex=True, count=1)),
    # R13f: iter().for_each(closure) -> index loop
    ('R13f', 'Allocator::collect_garbage'),
    # R16: the mark bits live in the object headers; here they are explicit state threaded through the calls
    ('R16', 'Allocator::manage', dict(methods=_T, name='verif_gc', ty='GcState')),
    ('R16', 'Allocator::manage_obj', dict(methods=_T, name='verif_gc', ty='GcState')),
    ('R16', 'Allocator::allocate', dict(methods=_T, name='verif_gc', ty='GcState')),
    ('R16', 'Allocator::allocate_obj', dict(methods=_T, name='verif_gc', ty='GcState')),
    ('R16', 'Allocator::collect_garbage_with_value', dict(methods=_T, name='verif_gc', ty='GcState')),
    ('R16', 'Allocator::collect_garbage', dict(methods=_T, name='verif_gc', ty='GcState')),
    ('R16', 'Allocator::sweep_obj_heap', dict(methods=_T, name='verif_gc', ty='GcState')),
  ],
  assumption_ids=['A-gcglue', 'A-mem'],
)
