// ---- launching: the new fiber is the frame just pushed, peeled off (on top of the ops prelude) --------------------------------------------------
pub type Call = Result<Value, LyError>;
#[derive(Clone, Copy)] pub struct NewFiber { pub id: Ghost<int> }
pub struct NewWaiter { pub p: usize }
impl NewFiber { #[verifier::external_body] pub fn waiter(&self) -> (r: NewWaiter) { NewWaiter { p: 0 } } }
impl NewWaiter { #[verifier::external_body] pub fn set_waiter(&mut self, f: NewFiber) { } }
impl Vm {
  /// Fiber::split(fiber, vm, arg_count) (its stack-filling statements: splitcopy unit, D38): pops the top frame of the current fiber and moves it, with its callee slot and arg_count arguments, to a
  /// fresh fiber; the current fiber's stack ends just below the callee slot
  #[verifier::external_body]
  pub fn verif_split(&mut self, arg_count: usize) -> (r: NewFiber)
    requires old(self).fiber.frames@.len() > 1, old(self).fiber.stack@.len() >= arg_count + 1
    ensures final(self).fiber.frames@ == old(self).fiber.frames@.drop_last(), final(self).fiber.stack@ == old(self).fiber.stack@.subrange(0, old(self).fiber.stack@.len() - (arg_count + 1)),
      final(self).raised == old(self).raised, final(self).queued == old(self).queued, final(self).called == old(self).called
  { unimplemented!() }
  #[verifier::external_body] pub fn verif_queue_fiber(&mut self, f: NewFiber)
    ensures final(self).fiber == old(self).fiber, final(self).raised == old(self).raised, final(self).launched@ == old(self).launched@.push(f.id@), final(self).called == old(self).called { }
  #[verifier::external_body] pub fn verif_current_fun(&self) -> (r: FunRef) { FunRef { p: 0 } }
  #[verifier::external_body] pub fn verif_set_current_fun(&mut self, f: FunRef) ensures final(self).fiber == old(self).fiber, final(self).raised == old(self).raised, final(self).launched == old(self).launched, final(self).called == old(self).called { }
  #[verifier::external_body] pub fn load_ip(&mut self) ensures final(self).fiber == old(self).fiber, final(self).raised == old(self).raised, final(self).launched == old(self).launched, final(self).called == old(self).called { }
}
