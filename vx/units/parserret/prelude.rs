// ---- trusted model of the parser around return_ (A-parser) ------------------------------------------------------------------------------------------
pub struct Diag { }
pub type ParseResult<T> = Result<T, Diag>;
#[derive(Clone, Copy, PartialEq, Eq, Structural)]
pub enum TokenKind { Semicolon, LeftBrace, Else, If, Identifier, Colon, Equal, Other }
#[derive(Clone, Copy)]
pub struct Token { pub k: TokenKind, pub id: u64 }
pub struct CallT { pub id: u64 }
pub enum Trailer { Call(Box<CallT>), Other(u64) }
pub struct Atom { pub trailers: Vec<Trailer> }
pub enum Expr { Leaf(u64), Atom(Box<Atom>) }
pub struct Launch { pub closure: Expr }
impl Launch { pub fn new(closure: Expr) -> (r: Launch) ensures r.closure == closure { Launch { closure } } }
pub struct Raise { pub error: Expr }
impl Raise { pub fn new(error: Expr) -> (r: Raise) ensures r.error == error { Raise { error } } }
pub struct Return { pub return_: Token, pub value: Option<Expr> }
impl Return { pub fn new(return_: Token, value: Option<Expr>) -> (r: Return) ensures r.return_ == return_, r.value == value { Return { return_, value } } }
pub enum Stmt { Return(Box<Return>), If(Box<If>), Launch(Box<Launch>), Raise(Box<Raise>), Other }
#[derive(Clone, Copy)] pub enum BlockReturn { Can, Cannot }
pub struct Block { pub id: u64 }
pub enum Else { If(Box<If>), Block(Block) }
pub struct If { pub cond: Expr, pub body: Block, pub else_body: Option<Else> }
impl If { pub fn new(cond: Expr, body: Block, else_body: Option<Else>) -> (r: If) ensures r.cond == cond, r.body == body, r.else_body == else_body { If { cond, body, else_body } } }
#[verifier::external_body] pub fn verif_unreachable<T>() -> T requires false { unimplemented!() }
pub struct Type { pub id: u64 }
pub struct Let { pub name: Token, pub type_: Option<Type>, pub value: Option<Expr> }
impl Let { pub fn new(name: Token, type_: Option<Type>, value: Option<Expr>) -> (r: Let) ensures r.name == name, r.type_ == type_, r.value == value { Let { name, type_, value } } }
pub enum Symbol { Let(Let), Other }
impl Token { pub fn clone(&self) -> (r: Token) ensures r == *self { *self } }
pub struct Parser {
  pub let_name: Option<Token>,
  pub fun_kind: FunKind,
  pub previous: Token,
  pub current: Token,
  /// ghost: the expressions parsed, in order
  pub exprs: Ghost<Seq<Expr>>,
  /// ghost: number of tokens demanded with consume_basic(Semicolon)
  pub semis: Ghost<nat>,
  /// ghost: the blocks parsed, in order
  pub blocks: Ghost<Seq<Block>>,
  /// ghost: the token kinds match_kind consumed, in order
  pub matched: Ghost<Seq<TokenKind>>,
}
impl Parser {
  /// consume the current token if it is of this kind
  #[verifier::external_body] pub fn match_kind(&mut self, kind: TokenKind) -> (r: ParseResult<bool>)
    ensures final(self).fun_kind == old(self).fun_kind, final(self).exprs == old(self).exprs, final(self).semis == old(self).semis, final(self).blocks == old(self).blocks, final(self).let_name == old(self).let_name,
      r matches Ok(b) ==> b == (old(self).current.k == kind) && final(self).matched@ == (if b { old(self).matched@.push(kind) } else { old(self).matched@ }) { unimplemented!() }
  #[verifier::external_body] pub fn expr(&mut self) -> (r: ParseResult<Expr>)
    ensures final(self).fun_kind == old(self).fun_kind, final(self).semis == old(self).semis, final(self).blocks == old(self).blocks, final(self).matched == old(self).matched, final(self).let_name == old(self).let_name,
      r matches Ok(e) ==> final(self).exprs@ == old(self).exprs@.push(e) { unimplemented!() }
  #[verifier::external_body] pub fn consume_basic(&mut self, kind: TokenKind, message: &str) -> (r: ParseResult<()>)
    ensures final(self).fun_kind == old(self).fun_kind, final(self).exprs == old(self).exprs, final(self).blocks == old(self).blocks, final(self).matched == old(self).matched, final(self).let_name == old(self).let_name,
      r is Ok ==> final(self).semis@ == old(self).semis@ + (if kind == TokenKind::Semicolon { 1nat } else { 0nat }) { unimplemented!() }
  #[verifier::external_body] pub fn error<T>(&mut self, message: &str) -> (r: ParseResult<T>)
    ensures r is Err, final(self).fun_kind == old(self).fun_kind { unimplemented!() }
  /// demand a token of this kind: it becomes `previous`
  #[verifier::external_body] pub fn consume(&mut self, kind: TokenKind, message: &str) -> (r: ParseResult<()>)
    ensures final(self).fun_kind == old(self).fun_kind, final(self).exprs == old(self).exprs, final(self).semis == old(self).semis, final(self).blocks == old(self).blocks,
      final(self).matched == old(self).matched, final(self).let_name == old(self).let_name,
      r is Ok ==> old(self).current.k == kind && final(self).previous == old(self).current { unimplemented!() }
  #[verifier::external_body] pub fn type_(&mut self) -> (r: ParseResult<Type>)
    ensures final(self).fun_kind == old(self).fun_kind, final(self).exprs == old(self).exprs, final(self).semis == old(self).semis, final(self).blocks == old(self).blocks,
      final(self).matched == old(self).matched, final(self).let_name == old(self).let_name { unimplemented!() }
  /// self.let_name.replace(t)
  #[verifier::external_body] pub fn verif_replace_let_name(&mut self, t: Token) -> (r: Option<Token>)
    ensures final(self).fun_kind == old(self).fun_kind, final(self).exprs == old(self).exprs, final(self).semis == old(self).semis, final(self).blocks == old(self).blocks,
      final(self).matched == old(self).matched, final(self).previous == old(self).previous, final(self).current == old(self).current,
      final(self).let_name == Some(t), r == old(self).let_name { unimplemented!() }
  #[verifier::external_body] pub fn error_current<T>(&mut self, message: &str) -> (r: ParseResult<T>) ensures r is Err { unimplemented!() }
  #[verifier::external_body] pub fn block(&mut self, block_return: BlockReturn) -> (r: ParseResult<Block>)
    ensures final(self).fun_kind == old(self).fun_kind, final(self).exprs == old(self).exprs, final(self).semis == old(self).semis, final(self).matched == old(self).matched,
      r matches Ok(b) ==> final(self).blocks@ == old(self).blocks@.push(b) { unimplemented!() }
  #[verifier::external_body] pub fn node<T>(&self, t: T) -> (r: Box<T>) ensures *r == t { unimplemented!() }
}
