"""C01 (explicit returns; if / else-if / else chains): Parser::{return_, if_}, extracted as they are.  An if statement is (the expression after
the keyword, the block after it, and — only when an `else` follows — either the block after `else {` or the whole if statement after `else if`),
in that order of the source; anything else after `else` is a diagnostic.  A let declaration is (the identifier after the keyword, an optional `: type`, an optional
`= expression`, the semicolon): without `=` it has NO value (the compiler stores nil), with one the expression parsed after it.  A launch statement is an expression that ENDS in a call (what Compiler::launch relies on: launchc unit) and a
semicolon; a raise statement an expression and a semicolon.  A return outside every function is a diagnostic; `return;` is a return without a
value (also in an initialiser, which answers its instance); `return e;` returns the expression parsed after the keyword — in an initialiser it is
a diagnostic; the semicolon is demanded.  expr / match_kind / consume_basic / error are stubs."""
UNIT = dict(
  name='parserret',
  properties=['C01', 'C07', 'C04', 'C02'],
  items=[
    ('laythe_core/src/object/fun.rs', ['enum FunKind']),
    ('laythe_vm/src/compiler/parser.rs', [("impl<'a> Parser<'a>", ['return_', 'if_', 'let_', 'launch', 'raise'])]),
  ],
  rewrites=[
    ('R11', 'enum FunKind', dict(drop=['Debug'], add=['Structural'])),
    ('R5', 'kind:implhdr', dict(pat="impl<'a> Parser<'a> {", rep='impl Parser {', count=1)),
    ('R5', 'Parser::*', dict(pat=r"<'a>", rep='', regex=True, optional=True)),
    ('R7', 'Parser::*', dict(pat=r'^(\s*(?:///?[^\n]*\n\s*)*)fn ', rep=r'\1pub fn ', regex=True, optional=True)),
    # R4: Result::map with a closure over self -> match
    ('R4', 'Parser::return_', dict(pat=r'(?s)let result = self\s*\.consume_basic\((.*?)\)\s*\.map\(\|\(\)\| (.*?)\);\n',
      rep=r'let result = match self.consume_basic(\1) { Ok(()) => Ok(\2), Err(verif_e) => Err(verif_e) };\n', regex=True, count=1)),
    # let_: Option::replace on a field and a Result::map closure
    ('R6', 'Parser::let_', dict(pat='self.let_name.replace(name.clone())', rep='self.verif_replace_let_name(name.clone())', count=1)),
    ('R4', 'Parser::let_', dict(pat=r'(?s)self\s*\.consume_basic\(\s*TokenKind::Semicolon,\s*("[^"]*"),?\s*\)\s*\.map\(\|\(\)\| (.*?)\)\s*\}\s*$',
      rep=r'match self.consume_basic(TokenKind::Semicolon, \1) { Ok(()) => Ok(\2), Err(verif_e) => Err(verif_e) }\n  }\n', regex=True, count=1)),
    ('R3', 'Parser::if_', dict(pat='unreachable!()', rep='verif_unreachable()', count=1)),
  ],
  assumption_ids=['A-parser'],
)
