// =====================================================================================================
// ops unit — trusted model of the interpreter state the op handlers run against (A-fiber, A-heap, A-float)
// Everything in this file is an ASSUMPTION about code that is not verified here; the handlers in vm/ops.rs
// are the real text and are verified against these contracts.
// =====================================================================================================

// ---- values (A-heap; the Value contract itself is what C14 proves with Kani on the real type) -----------------
#[verifier::external_body]
#[derive(Clone, Copy)]
pub struct Value { bits: u64 }

#[verifier::external_body]
#[derive(Clone, Copy)]
pub struct LyStr { p: usize }

#[verifier::external_body]
#[derive(Clone, Copy)]
pub struct ObjectRef { p: usize }

pub uninterp spec fn v_is_num(v: Value) -> bool;
pub uninterp spec fn v_num(v: Value) -> f64;
pub uninterp spec fn v_is_nil(v: Value) -> bool;
pub uninterp spec fn v_is_false(v: Value) -> bool;
pub uninterp spec fn v_is_obj(v: Value) -> bool;
pub uninterp spec fn v_obj(v: Value) -> ObjectRef;
pub uninterp spec fn o_kind(o: ObjectRef) -> ObjectKind;
pub uninterp spec fn o_str(o: ObjectRef) -> LyStr;
pub uninterp spec fn v_eq(a: Value, b: Value) -> bool;          // Value's PartialEq
pub uninterp spec fn from_num(f: f64) -> Value;
pub uninterp spec fn from_bool(b: bool) -> Value;
pub uninterp spec fn from_str(s: LyStr) -> Value;
pub uninterp spec fn nil_value() -> Value;
pub uninterp spec fn true_value() -> Value;

/// string content and the language's string operations, uninterpreted but named
pub uninterp spec fn str_concat(a: LyStr, b: LyStr) -> LyStr;
pub uninterp spec fn str_less(a: LyStr, b: LyStr) -> bool;       // Ord::cmp == Less on the content
pub uninterp spec fn str_greater(a: LyStr, b: LyStr) -> bool;    // Ord::cmp == Greater on the content

/// A-float: IEEE operators, uninterpreted but named (a swapped operand or a wrong operator changes the term)
pub uninterp spec fn f_add(a: f64, b: f64) -> f64;
pub uninterp spec fn f_sub(a: f64, b: f64) -> f64;
pub uninterp spec fn f_mul(a: f64, b: f64) -> f64;
pub uninterp spec fn f_div(a: f64, b: f64) -> f64;
pub uninterp spec fn f_neg(a: f64) -> f64;
pub uninterp spec fn f_lt(a: f64, b: f64) -> bool;
pub uninterp spec fn f_le(a: f64, b: f64) -> bool;
pub uninterp spec fn f_gt(a: f64, b: f64) -> bool;
pub uninterp spec fn f_ge(a: f64, b: f64) -> bool;

#[verifier::external_body] pub fn verif_fadd(a: f64, b: f64) -> (r: f64) ensures r == f_add(a, b) { a + b }
#[verifier::external_body] pub fn verif_fsub(a: f64, b: f64) -> (r: f64) ensures r == f_sub(a, b) { a - b }
#[verifier::external_body] pub fn verif_fmul(a: f64, b: f64) -> (r: f64) ensures r == f_mul(a, b) { a * b }
#[verifier::external_body] pub fn verif_fdiv(a: f64, b: f64) -> (r: f64) ensures r == f_div(a, b) { a / b }
#[verifier::external_body] pub fn verif_fneg(a: f64) -> (r: f64) ensures r == f_neg(a) { -a }
#[verifier::external_body] pub fn verif_flt(a: f64, b: f64) -> (r: bool) ensures r == f_lt(a, b) { a < b }
#[verifier::external_body] pub fn verif_fle(a: f64, b: f64) -> (r: bool) ensures r == f_le(a, b) { a <= b }
#[verifier::external_body] pub fn verif_fgt(a: f64, b: f64) -> (r: bool) ensures r == f_gt(a, b) { a > b }
#[verifier::external_body] pub fn verif_fge(a: f64, b: f64) -> (r: bool) ensures r == f_ge(a, b) { a >= b }
#[verifier::external_body] pub fn verif_val_eq(a: Value, b: Value) -> (r: bool) ensures r == v_eq(a, b) { true }
#[verifier::external_body] pub fn verif_val_ne(a: Value, b: Value) -> (r: bool) ensures r == !v_eq(a, b) { true }
/// `(*l).cmp(&r) == Ordering::Less` / `== Ordering::Greater` on string content
#[verifier::external_body] pub fn verif_str_less(a: LyStr, b: LyStr) -> (r: bool) ensures r == str_less(a, b) { true }
#[verifier::external_body] pub fn verif_str_greater(a: LyStr, b: LyStr) -> (r: bool) ensures r == str_greater(a, b) { true }
/// the `String::with_capacity + push_str + push_str` concatenation buffer of op_add
#[verifier::external_body] pub fn verif_concat(a: LyStr, b: LyStr) -> (r: StrBuf) ensures r.content() == str_concat(a, b) { StrBuf { p: 0 } }
#[verifier::external_body] pub struct StrBuf { p: usize }
impl StrBuf { pub uninterp spec fn content(&self) -> LyStr; }
/// format!(..) — message text is not verified (R8)
#[verifier::external_body] pub fn verif_fmt() -> (r: &'static str) { "" }

impl Value {
  #[verifier::external_body] pub fn is_num(&self) -> (r: bool) ensures r == v_is_num(*self) { true }
  #[verifier::external_body] pub fn is_nil(&self) -> (r: bool) ensures r == v_is_nil(*self) { true }
  #[verifier::external_body] pub fn is_false(&self) -> (r: bool) ensures r == v_is_false(*self) { true }
  #[verifier::external_body] pub fn is_obj(&self) -> (r: bool) ensures r == v_is_obj(*self) { true }
  /// real: panics (enum) / reinterprets (boxed) when the value is not a number
  #[verifier::external_body] pub fn to_num(self) -> (r: f64) requires v_is_num(self) ensures r == v_num(self) { 0.0 }
  #[verifier::external_body] pub fn to_obj(self) -> (r: ObjectRef) requires v_is_obj(self) ensures r == v_obj(self) { ObjectRef { p: 0 } }
  #[verifier::external_body] pub fn is_obj_kind(&self, kind: ObjectKind) -> (r: bool) ensures r == (v_is_obj(*self) && o_kind(v_obj(*self)) == kind) { true }
}

impl ObjectRef {
  #[verifier::external_body] pub fn is_kind(&self, kind: ObjectKind) -> (r: bool) ensures r == (o_kind(*self) == kind) { true }
  #[verifier::external_body] pub fn kind(&self) -> (r: ObjectKind) ensures r == o_kind(*self) { ObjectKind::String }
  /// real: unchecked cast of the payload pointer
  #[verifier::external_body] pub fn to_str(&self) -> (r: LyStr) requires o_kind(*self) == ObjectKind::String ensures r == o_str(*self) { LyStr { p: 0 } }
}

/// `val!(x)` is `Value::from(x)`; the conversions are modelled by this trait (one impl per source type)
pub trait IntoValue: Sized {
  spec fn into_value_spec(self) -> Value;
  fn into_value(self) -> (r: Value) ensures r == self.into_value_spec();
}
impl IntoValue for f64 {
  open spec fn into_value_spec(self) -> Value { from_num(self) }
  #[verifier::external_body] fn into_value(self) -> (r: Value) { Value { bits: 0 } }
}
impl IntoValue for bool {
  open spec fn into_value_spec(self) -> Value { from_bool(self) }
  #[verifier::external_body] fn into_value(self) -> (r: Value) { Value { bits: 0 } }
}
impl IntoValue for LyStr {
  open spec fn into_value_spec(self) -> Value { from_str(self) }
  #[verifier::external_body] fn into_value(self) -> (r: Value) { Value { bits: 0 } }
}

/// the value algebra the handlers rely on (what C14's Kani harnesses establish on the real type)
pub broadcast axiom fn axiom_value_algebra(f: f64, b: bool)
  ensures
    v_is_num(#[trigger] from_num(f)) && v_num(from_num(f)) == f && !v_is_nil(from_num(f)) && !v_is_false(from_num(f)) && !v_is_obj(from_num(f)),
    !v_is_num(#[trigger] from_bool(b)) && !v_is_nil(from_bool(b)) && v_is_false(from_bool(b)) == !b && !v_is_obj(from_bool(b)),
;

#[verifier::external_body] pub exec const VALUE_NIL: Value ensures VALUE_NIL == nil_value() { Value { bits: 1 } }
#[verifier::external_body] pub exec const VALUE_TRUE: Value ensures VALUE_TRUE == true_value() { Value { bits: 3 } }

// A-std: Option::or is eager in its argument
pub assume_specification<T> [Option::<T>::or] (a: Option<T>, b: Option<T>) -> (r: Option<T>)
  ensures r == (if a is Some { a } else { b });

pub assume_specification<T, U, F: FnOnce(T) -> U> [Option::<T>::map_or] (o: Option<T>, default: U, f: F) -> (r: U)
  requires o is Some ==> f.requires((o->0,)),
  ensures o is None ==> r == default, o is Some ==> f.ensures((o->0,), r);

// ---- the fiber's operand stack (A-fiber): the real Fiber keeps a raw stack_top pointer into a Vec; its
// push/pop/peek/peek_set/drop/drop_n are modelled as a Vec, with the depth precondition the real code leaves unchecked
/// a GC pointer: equality is identity
#[derive(Clone, Copy, PartialEq, Eq, Structural)]
pub struct ClassRef { pub p: usize }      // ObjRef<Class>

/// a GC pointer: equality is identity
#[derive(Clone, Copy, PartialEq, Eq, Structural)]
pub struct InstRef { pub p: usize }       // Instance

/// A-heap: the class graph as the handlers observe it
pub uninterp spec fn subclass(a: ClassRef, b: ClassRef) -> bool;     // a.is_subclass(b): a == b or a inherits from b
pub uninterp spec fn class_of_inst(i: InstRef) -> ClassRef;
pub uninterp spec fn o_class(o: ObjectRef) -> ClassRef;
pub uninterp spec fn o_inst(o: ObjectRef) -> InstRef;
pub uninterp spec fn from_inst(i: InstRef) -> Value;

impl ClassRef {
  #[verifier::external_body] pub fn is_subclass(&self, other: ClassRef) -> (r: bool) ensures r == subclass(*self, other) { true }
}
impl InstRef {
  #[verifier::external_body] pub fn class(&self) -> (r: ClassRef) ensures r == class_of_inst(*self) { ClassRef { p: 0 } }
}
pub uninterp spec fn o_methodref(o: ObjectRef) -> MethodRef;
impl ObjectRef {
  #[verifier::external_body] pub fn to_method(&self) -> (r: MethodRef) requires o_kind(*self) == ObjectKind::Method ensures r == o_methodref(*self) { MethodRef { p: 0 } }
  #[verifier::external_body] pub fn to_class(&self) -> (r: ClassRef) requires o_kind(*self) == ObjectKind::Class ensures r == o_class(*self) { ClassRef { p: 0 } }
  #[verifier::external_body] pub fn to_instance(&self) -> (r: InstRef) requires o_kind(*self) == ObjectKind::Instance ensures r == o_inst(*self) { InstRef { p: 0 } }
}
impl IntoValue for InstRef {
  open spec fn into_value_spec(self) -> Value { from_inst(self) }
  #[verifier::external_body] fn into_value(self) -> (r: Value) { Value { bits: 0 } }
}

// ---- classes, instances and bound methods as the handlers see them (A-heap) -------------------------------------
/// field table of a class: name -> slot index (fixed once the class is defined)
pub uninterp spec fn field_index(c: ClassRef, n: LyStr) -> Option<u16>;
/// method table of a class (own and inherited, most-derived first: what Class::get_method answers)
pub uninterp spec fn method_of(c: ClassRef, n: LyStr) -> Option<Value>;
/// the class the runtime assigns to any value (instances: their class; primitives: the builtin class)
pub uninterp spec fn class_of_value(v: Value) -> ClassRef;
pub uninterp spec fn from_method(receiver: Value, method: Value) -> Value;     // a bound method object
pub uninterp spec fn o_method_receiver(o: ObjectRef) -> Value;
pub uninterp spec fn o_method_fn(o: ObjectRef) -> Value;

/// a GC pointer: equality is identity
#[derive(Clone, Copy, PartialEq, Eq, Structural)]
pub struct MethodRef { pub p: usize }     // ObjRef<Method>
pub uninterp spec fn m_receiver(m: MethodRef) -> Value;
pub uninterp spec fn m_method(m: MethodRef) -> Value;
impl MethodRef {
  #[verifier::external_body] pub fn receiver(&self) -> (r: Value) ensures r == m_receiver(*self) { Value { bits: 0 } }
  #[verifier::external_body] pub fn method(&self) -> (r: Value) ensures r == m_method(*self) { Value { bits: 0 } }
}
impl IntoValue for MethodRef {
  open spec fn into_value_spec(self) -> Value { from_method(m_receiver(self), m_method(self)) }
  #[verifier::external_body] fn into_value(self) -> (r: Value) { Value { bits: 0 } }
}
/// `Method::new(receiver, method)` before it is moved to the heap
pub struct Method { pub receiver: Value, pub method: Value }
impl Method { pub fn new(receiver: Value, method: Value) -> (r: Self) ensures r.receiver == receiver, r.method == method { Method { receiver, method } } }

/// the class a class inherits from, if any
pub uninterp spec fn parent_of(c: ClassRef) -> Option<ClassRef>;
impl ClassRef {
  #[verifier::external_body] pub fn super_class(&self) -> (r: Option<ClassRef>) ensures r == parent_of(*self) { None }
  #[verifier::external_body] pub fn get_field_index(&self, name: &LyStr) -> (r: Option<u16>) ensures r == field_index(*self, *name) { None }
  #[verifier::external_body] pub fn get_method(&self, name: &LyStr) -> (r: Option<Value>) ensures r == method_of(*self, *name) { None }
  #[verifier::external_body] pub fn name(&self) -> (r: LyStr) { LyStr { p: 0 } }
}
/// pointer identity of classes (`ObjRef<Class> == ObjRef<Class>`)
#[verifier::external_body] pub fn verif_class_eq(a: ClassRef, b: ClassRef) -> (r: bool) ensures r == (a == b) { true }

pub broadcast axiom fn axiom_instance_class(v: Value)
  requires v_is_obj(v), o_kind(v_obj(v)) == ObjectKind::Instance,
  ensures #[trigger] class_of_value(v) == class_of_inst(o_inst(v_obj(v))),
;

/// A-heap: the class the runtime assigns to a value that is not an instance (a primitive's builtin class, a class
/// object's metaclass) declares no instance fields — fields are only ever added by `Field` ops of a user class body
pub broadcast axiom fn axiom_primitive_classes_have_no_fields(v: Value, n: LyStr)
  requires !(v_is_obj(v) && o_kind(v_obj(v)) == ObjectKind::Instance),
  ensures #[trigger] field_index(class_of_value(v), n) is None,
;

/// an active exception handler: where its catch code starts and how deep the stack was at its try
pub struct Handler { pub offset: int, pub depth: int }

#[derive(Clone, Copy, PartialEq, Eq, Structural)]
pub enum FState { Running, Pending, Blocked }

/// a GC pointer: equality is identity
#[derive(Clone, Copy, PartialEq, Eq, Structural)]
pub struct WaiterRef { pub p: usize }     // Ref<ChannelWaiter>

pub struct Fiber {
  pub stack: Vec<Value>,
  /// FiberState of the real fiber (Running / Pending = asleep and runnable / Blocked = must be woken by a partner)
  pub state: FState,
  /// this fiber's own waiter object
  pub me: WaiterRef,
  /// ghost: the waiters `get_runnable` would hand out next (parked on channels this fiber has used), in order
  pub pool: Ghost<Seq<WaiterRef>>,
  /// ghost: channels recorded as used by this fiber
  pub used: Ghost<Set<ChanRef>>,
  /// ghost: the active exception handlers, innermost last
  pub handlers: Ghost<Seq<Handler>>,
  /// the error in flight while the fiber unwinds
  pub error: Option<InstRef>,
  /// ghost: the fiber was told that an error occurred while it was handling one
  pub error_in_handler: Ghost<bool>,
  /// the call frames (function, argument count), innermost last
  pub frames: Vec<Frame>,
  /// ghost: index in `stack` of the current frame's first slot (`stack_start`), and the current frame's captures
  pub base: Ghost<int>,
  pub caps: Ghost<CapturesRef>,
}

#[derive(Clone, Copy, PartialEq, Eq, Structural)]
pub struct FunRef { pub p: usize }          // ObjRef<Fun>
#[derive(Clone, Copy, PartialEq, Eq, Structural)]
pub struct CapturesRef { pub p: usize }     // Captures
#[derive(Clone, Copy, PartialEq, Eq, Structural)]
pub struct Frame { pub fun: FunRef, pub captures: CapturesRef, pub arg_count: u8 }

/// frame of the stack operations: nothing but the operand stack changes
pub open spec fn only_stack(o: &Fiber, n: &Fiber) -> bool {
  n.state == o.state && n.me == o.me && n.pool == o.pool && n.used == o.used && n.handlers == o.handlers && n.error == o.error && n.error_in_handler == o.error_in_handler
    && n.frames == o.frames && n.base == o.base && n.caps == o.caps
}

/// frame of the channel / scheduling operations: handlers and the in-flight error are untouched
pub open spec fn only_chan(o: &Fiber, n: &Fiber) -> bool { n.handlers == o.handlers && n.error == o.error && n.error_in_handler == o.error_in_handler && n.frames == o.frames && n.base == o.base && n.caps == o.caps }

impl Fiber {
  pub fn frames(&self) -> (r: &Vec<Frame>) ensures r == &self.frames { &self.frames }

  /// R9: `*self.stack_start().offset(slot)` — a slot of the current frame through the raw frame pointer
  #[verifier::external_body]
  pub fn frame_slot_get(&self, slot: isize) -> (r: Value)
    requires 0 <= self.base@ + slot < self.stack@.len()
    ensures r == self.stack@[self.base@ + slot]
  { Value { bits: 0 } }
  #[verifier::external_body]
  pub fn frame_slot_set(&mut self, slot: isize, value: Value)
    requires 0 <= old(self).base@ + slot < old(self).stack@.len()
    ensures final(self).stack@ == old(self).stack@.update(old(self).base@ + slot, value), only_stack(old(self), final(self))
  { }
  #[verifier::external_body]
  pub fn captures(&self) -> (r: CapturesRef) ensures r == self.caps@ { CapturesRef { p: 0 } }

  pub fn error(&self) -> (r: Option<InstRef>) ensures r == self.error { self.error }

  /// real: asserts that a handler is active, then pops it
  #[verifier::external_body]
  pub fn pop_exception_handler(&mut self)
    requires old(self).handlers@.len() > 0
    ensures final(self).handlers@ == old(self).handlers@.drop_last(), final(self).stack == old(self).stack, final(self).state == old(self).state,
            final(self).me == old(self).me, final(self).pool == old(self).pool, final(self).used == old(self).used, final(self).error == old(self).error,
            final(self).error_in_handler == old(self).error_in_handler, final(self).frames == old(self).frames
  { }

  /// R9: `let mut fiber = self.fiber; fiber.push_exception_handler(self, offset, slot_depth)` (root context dropped)
  #[verifier::external_body]
  pub fn push_exception_handler(&mut self, offset: usize, slot_depth: usize)
    ensures final(self).handlers@ == old(self).handlers@.push(Handler { offset: offset as int, depth: slot_depth as int }),
            final(self).stack == old(self).stack, final(self).state == old(self).state,
            final(self).me == old(self).me, final(self).pool == old(self).pool, final(self).used == old(self).used, final(self).error == old(self).error,
            final(self).error_in_handler == old(self).error_in_handler, final(self).frames == old(self).frames
  { }

  #[verifier::external_body]
  pub fn error_while_handling(&mut self)
    ensures final(self).error_in_handler@, final(self).stack == old(self).stack, final(self).state == old(self).state, final(self).handlers == old(self).handlers,
            final(self).me == old(self).me, final(self).pool == old(self).pool, final(self).used == old(self).used, final(self).error == old(self).error, final(self).frames == old(self).frames
  { }

  pub fn push(&mut self, value: Value)
    ensures final(self).stack@ == old(self).stack@.push(value), only_stack(old(self), final(self))
  { self.stack.push(value) }

  pub fn pop(&mut self) -> (r: Value)
    requires old(self).stack@.len() > 0
    ensures r == old(self).stack@.last(), final(self).stack@ == old(self).stack@.drop_last(), only_stack(old(self), final(self))
  { self.stack.pop().unwrap() }

  pub fn drop(&mut self)
    requires old(self).stack@.len() > 0
    ensures final(self).stack@ == old(self).stack@.drop_last(), only_stack(old(self), final(self))
  { let _ = self.stack.pop(); }

  pub fn drop_n(&mut self, count: usize)
    requires old(self).stack@.len() >= count
    ensures final(self).stack@ == old(self).stack@.subrange(0, old(self).stack@.len() - count), only_stack(old(self), final(self))
  { let n = self.stack.len() - count; self.stack.truncate(n); }

  pub fn peek(&self, distance: usize) -> (r: Value)
    requires distance < self.stack@.len()
    ensures r == self.stack@[self.stack@.len() - 1 - distance]
  { self.stack[self.stack.len() - 1 - distance] }

  pub fn waiter(&self) -> (r: WaiterRef) ensures r == self.me { self.me }

  /// real: asserts Running, state = Pending, own waiter becomes runnable
  pub fn sleep(&mut self)
    requires old(self).state == FState::Running
    ensures final(self).state == FState::Pending, final(self).stack == old(self).stack, only_chan(old(self), final(self)), final(self).me == old(self).me, final(self).pool == old(self).pool, final(self).used == old(self).used
  { self.state = FState::Pending; }

  /// real: asserts Running, state = Blocked (not runnable until a channel partner unblocks it)
  pub fn block(&mut self)
    requires old(self).state == FState::Running
    ensures final(self).state == FState::Blocked, final(self).stack == old(self).stack, only_chan(old(self), final(self)), final(self).me == old(self).me, final(self).pool == old(self).pool, final(self).used == old(self).used
  { self.state = FState::Blocked; }

  /// real: scans the used channels and takes (removes) the first runnable waiter parked on one of them
  #[verifier::external_body]
  pub fn get_runnable(&mut self) -> (r: Option<WaiterRef>)
    ensures
      old(self).pool@.len() == 0 ==> r is None && final(self).pool@ == old(self).pool@,
      old(self).pool@.len() > 0 ==> r == Some(old(self).pool@[0]) && final(self).pool@ == old(self).pool@.subrange(1, old(self).pool@.len() as int),
      final(self).stack == old(self).stack, only_chan(old(self), final(self)), final(self).state == old(self).state, final(self).me == old(self).me, final(self).used == old(self).used,
  { None }

  /// R9: `let mut fiber = self.fiber; fiber.add_used_channel(self.gc.borrow_mut(), self, channel)` (allocator and root context dropped)
  #[verifier::external_body]
  pub fn add_used_channel(&mut self, channel: ChanRef)
    ensures final(self).used@ == old(self).used@.insert(channel),
      final(self).stack == old(self).stack, only_chan(old(self), final(self)), final(self).state == old(self).state, final(self).me == old(self).me, final(self).pool == old(self).pool,
  { }

  pub fn peek_set(&mut self, distance: usize, value: Value)
    requires distance < old(self).stack@.len()
    ensures final(self).stack@ == old(self).stack@.update(old(self).stack@.len() - 1 - distance, value), only_stack(old(self), final(self))
  { let i = self.stack.len() - 1 - distance; self.stack.set(i, value); }
}

// ---- channels as the handlers see them: the queue itself is verified in the chanq unit (C07) -------------------
/// a GC pointer: equality is identity
#[derive(Clone, Copy, PartialEq, Eq, Structural)]
pub struct ChanRef { pub p: usize }       // ObjRef<Channel>

/// the answer the channel gives to this send / receive in the current heap (its contract is chanq's)
pub uninterp spec fn send_answer(c: ChanRef, w: WaiterRef, v: Value) -> SendResult;
pub uninterp spec fn receive_answer(c: ChanRef, w: WaiterRef) -> ReceiveResult;
pub uninterp spec fn from_chan(c: ChanRef) -> Value;
pub uninterp spec fn o_chan(o: ObjectRef) -> ChanRef;

impl ChanRef {
  #[verifier::external_body]
  pub fn send(&mut self, waiter: WaiterRef, val: Value) -> (r: SendResult)
    ensures r == send_answer(*old(self), waiter, val), *final(self) == *old(self)
  { SendResult::Ok }
  #[verifier::external_body]
  pub fn receive(&mut self, waiter: WaiterRef) -> (r: ReceiveResult)
    ensures r == receive_answer(*old(self), waiter), *final(self) == *old(self)
  { ReceiveResult::Closed }
}
impl ObjectRef {
  #[verifier::external_body] pub fn to_channel(&self) -> (r: ChanRef) requires o_kind(*self) == ObjectKind::Channel ensures r == o_chan(*self) { ChanRef { p: 0 } }
}
impl IntoValue for ChanRef {
  open spec fn into_value_spec(self) -> Value { from_chan(self) }
  #[verifier::external_body] fn into_value(self) -> (r: Value) { Value { bits: 0 } }
}
/// a channel value is the boxing of its channel reference (object identity)
pub broadcast axiom fn axiom_chan_value(v: Value)
  requires v_is_obj(v), o_kind(v_obj(v)) == ObjectKind::Channel,
  ensures #[trigger] from_chan(o_chan(v_obj(v))) == v,
;

#[derive(Clone, Copy, PartialEq, Eq, Structural)]
pub struct ClosureRef { pub p: usize }     // ObjRef<Closure>
#[derive(Clone, Copy, PartialEq, Eq, Structural)]
pub struct NativeRef { pub p: usize }      // ObjRef<Native>
/// which leaf the call dispatcher handed a call to
pub enum Dispatched { Closure(ClosureRef, u8), Method(MethodRef, u8), Native(NativeRef, u8), Class(ClassRef, u8) }

// ---- the interpreter (projection of laythe_vm::vm::Vm to what the covered handlers touch) ------------------------
pub struct Errors { pub runtime: ClassRef, pub type_: ClassRef, pub value: ClassRef, pub property: ClassRef, pub error: ClassRef, pub import: ClassRef, pub export: ClassRef }
pub struct BuiltIn { pub errors: Errors }

pub struct Vm {
  pub fiber: Fiber,
  /// the fiber the program started on (the handlers under contract only ever use `fiber`)
  pub main_fiber: Fiber,
  pub builtin: BuiltIn,
  /// byte offset of the instruction pointer inside the current function's code
  pub ip: Ghost<int>,
  /// ghost: class of the runtime error raised by this handler execution, if any
  pub raised: Ghost<Option<ClassRef>>,
  /// ghost: the constants table of the current function
  pub constants: Ghost<Seq<Value>>,
  /// ghost: waiters handed to the scheduler's run queue by this handler execution, in order
  pub queued: Ghost<Seq<WaiterRef>>,
  /// the inline cache of the current module (real type from cache.rs; A-slot: the per-module vector index is dropped)
  pub cache: InlineCache,
  /// ghost: instance slots, (instance, slot) -> value
  pub heap: Ghost<Map<(InstRef, int), Value>>,
  /// ghost: the call this handler handed to resolve_call: (callee, argument count, operand stack at that moment)
  pub called: Ghost<Option<(Value, u8, Seq<Value>)>>,
  /// ghost (ncall unit): height of the allocator's temporary-root stack
  pub troots: Ghost<nat>,
  /// ghost (launchops unit): fibers handed to the run queue by a launch, in order
  pub launched: Ghost<Seq<int>>,
  /// ghost (iterops unit): the by-name invocation an iteration handler handed to Vm::invoke: (receiver, method name, argument count, stack)
  pub invoked: Ghost<Option<(Value, LyStr, u8, Seq<Value>)>>,
  /// ghost (calls unit): leaf calls made by the real resolve_call, in order
  pub call_log: Ghost<Seq<Dispatched>>,
  /// the placeholder captures of functions without captures
  pub capture_stub: CapturesRef,
  /// ghost (ncall unit): natives whose body ran during this handler, with the arguments they saw
  pub ran: Ghost<Seq<(NativeRef, Seq<Value>)>>,
  /// ghost (imports unit): the module cache, fully resolved path -> module identity; functions handed to new fibers by this handler
  pub module_cache: Ghost<Map<LyStr, usize>>,
  pub spawned: Ghost<Seq<FunRef>>,
  /// ghost: contents of the LyBox objects (captured locals), box object -> value
  pub boxes: Ghost<Map<ObjectRef, Value>>,
  /// ghost (hooks unit): the unwinding boundaries of the nested interpreter runs started by this hook, in order
  pub nested: Ghost<Seq<Option<int>>>,
  /// the exit code recorded by set_exit
  pub exit_code: u16,
  /// ghost: class-table updates made by this handler, in order (their effect on the tables is the klass unit's contracts)
  pub class_log: Ghost<Seq<ClassOp>>,
  /// ghost: the symbol slots of the module of the function being executed, and its name -> slot table (Module: module unit)
  pub modsyms: Ghost<Seq<Value>>,
  pub modnames: Ghost<Map<LyStr, int>>,
}
pub enum ClassOp { NewClass(ClassRef, LyStr), AddMethod(ClassRef, LyStr, Value), AddField(ClassRef, LyStr), AddStatic(ClassRef, LyStr, Value) }
/// the ghost components only some units look at are untouched
pub open spec fn aux_same(o: &Vm, n: &Vm) -> bool { n.invoked == o.invoked && n.ran == o.ran && n.module_cache == o.module_cache && n.spawned == o.spawned && n.boxes == o.boxes && n.nested == o.nested && n.exit_code == o.exit_code && n.class_log == o.class_log && n.modsyms == o.modsyms && n.modnames == o.modnames }

pub uninterp spec fn code_u8(ip: int) -> u8;
pub uninterp spec fn code_u16(ip: int) -> u16;
pub uninterp spec fn code_u32(ip: int) -> u32;
pub uninterp spec fn string_constant(index: u16) -> LyStr;

impl Vm {
  #[verifier::external_body]
  pub fn read_byte(&mut self) -> (r: u8)
    ensures aux_same(old(self), final(self)), r == code_u8(old(self).ip@), final(self).ip@ == old(self).ip@ + 1,
            final(self).fiber == old(self).fiber, final(self).raised == old(self).raised, final(self).constants == old(self).constants, final(self).builtin == old(self).builtin, final(self).queued == old(self).queued, final(self).cache == old(self).cache, final(self).heap == old(self).heap, final(self).called == old(self).called, final(self).call_log == old(self).call_log, final(self).capture_stub == old(self).capture_stub
  { 0 }

  #[verifier::external_body]
  pub fn read_short(&mut self) -> (r: u16)
    ensures aux_same(old(self), final(self)), r == code_u16(old(self).ip@), final(self).ip@ == old(self).ip@ + 2,
            final(self).fiber == old(self).fiber, final(self).raised == old(self).raised, final(self).constants == old(self).constants, final(self).builtin == old(self).builtin, final(self).queued == old(self).queued, final(self).cache == old(self).cache, final(self).heap == old(self).heap, final(self).called == old(self).called, final(self).call_log == old(self).call_log, final(self).capture_stub == old(self).capture_stub
  { 0 }

  #[verifier::external_body]
  pub fn update_ip(&mut self, offset: isize)
    ensures aux_same(old(self), final(self)), final(self).ip@ == old(self).ip@ + offset,
            final(self).fiber == old(self).fiber, final(self).raised == old(self).raised, final(self).constants == old(self).constants, final(self).builtin == old(self).builtin, final(self).queued == old(self).queued, final(self).cache == old(self).cache, final(self).heap == old(self).heap, final(self).called == old(self).called, final(self).call_log == old(self).call_log, final(self).capture_stub == old(self).capture_stub
  { }

  /// real: get_constant_unchecked — the index is trusted (C06 O-06.9, not decided)
  #[verifier::external_body]
  pub fn read_constant(&self, index: u16) -> (r: Value)
    requires (index as int) < self.constants@.len()
    ensures r == self.constants@[index as int]
  { Value { bits: 0 } }

  /// raise a runtime error of the given class: the handler produces no value; the fiber is handed to the unwinder
  #[verifier::external_body]
  pub fn runtime_error_from_str(&mut self, error: ClassRef, message: &str) -> (r: ExecutionSignal)
    ensures aux_same(old(self), final(self)), final(self).fiber.stack == old(self).fiber.stack, r == ExecutionSignal::RuntimeError, final(self).raised@ == Some(error), final(self).ip == old(self).ip,
            final(self).fiber.used == old(self).fiber.used, final(self).fiber.pool == old(self).fiber.pool,
            final(self).fiber.handlers == old(self).fiber.handlers, final(self).fiber.error_in_handler == old(self).fiber.error_in_handler,
            final(self).cache == old(self).cache, final(self).heap == old(self).heap, final(self).called == old(self).called, final(self).call_log == old(self).call_log, final(self).capture_stub == old(self).capture_stub, final(self).fiber.frames == old(self).fiber.frames,
            final(self).constants == old(self).constants, final(self).builtin == old(self).builtin, final(self).queued == old(self).queued, final(self).cache == old(self).cache, final(self).heap == old(self).heap, final(self).called == old(self).called, final(self).call_log == old(self).call_log, final(self).capture_stub == old(self).capture_stub,
            final(self).troots == old(self).troots
  { ExecutionSignal::RuntimeError }

  /// the 4-byte inline cache slot operand
  #[verifier::external_body]
  pub fn read_slot(&mut self) -> (r: u32)
    ensures r == code_u32(old(self).ip@), final(self).ip@ == old(self).ip@ + 4,
            final(self).fiber == old(self).fiber, final(self).raised == old(self).raised, final(self).constants == old(self).constants, final(self).builtin == old(self).builtin, final(self).queued == old(self).queued, final(self).cache == old(self).cache, final(self).heap == old(self).heap, final(self).called == old(self).called, final(self).call_log == old(self).call_log, final(self).capture_stub == old(self).capture_stub
  { 0 }

  /// the string constant at `index` (real: read_constant(index).to_obj().to_str(), unchecked)
  #[verifier::external_body]
  pub fn read_string(&self, index: u16) -> (r: LyStr)
    ensures r == string_constant(index)
  { LyStr { p: 0 } }

  #[verifier::external_body]
  pub fn value_class(&self, value: Value) -> (r: ClassRef) ensures r == class_of_value(value) { ClassRef { p: 0 } }

  /// R9: `instance[slot]` — an instance is a GC pointer into the heap the interpreter owns
  #[verifier::external_body]
  pub fn heap_get(&self, instance: InstRef, slot: usize) -> (r: Value)
    ensures r == self.heap@[(instance, slot as int)]
  { Value { bits: 0 } }

  /// R9: `instance[slot] = value`
  #[verifier::external_body]
  pub fn heap_set(&mut self, instance: InstRef, slot: usize, value: Value)
    ensures final(self).heap@ == old(self).heap@.insert((instance, slot as int), value),
            final(self).fiber == old(self).fiber, final(self).ip == old(self).ip, final(self).raised == old(self).raised, final(self).constants == old(self).constants,
            final(self).builtin == old(self).builtin, final(self).queued == old(self).queued, final(self).cache == old(self).cache, final(self).called == old(self).called, final(self).call_log == old(self).call_log, final(self).capture_stub == old(self).capture_stub
  { }

  /// R9: `instance.get_field(name)` = `class().get_field_index(&name).map(|i| &self[i])` (laythe_core instance/mod.rs)
  #[verifier::external_body]
  pub fn heap_field(&self, instance: InstRef, name: LyStr) -> (r: Option<Value>)
    ensures r == (match field_index(class_of_inst(instance), name) { Some(k) => Some(self.heap@[(instance, k as int)]), None => None })
  { None }

  /// allocate a bound method
  #[verifier::external_body]
  pub fn manage_obj(&mut self, m: Method) -> (r: MethodRef)
    ensures m_receiver(r) == m.receiver, m_method(r) == m.method,
            final(self).fiber == old(self).fiber, final(self).ip == old(self).ip, final(self).raised == old(self).raised, final(self).constants == old(self).constants,
            final(self).builtin == old(self).builtin, final(self).queued == old(self).queued, final(self).cache == old(self).cache, final(self).heap == old(self).heap, final(self).called == old(self).called, final(self).call_log == old(self).call_log, final(self).capture_stub == old(self).capture_stub
  { MethodRef { p: 0 } }

  /// make `error` the fiber's in-flight error and start unwinding
  #[verifier::external_body]
  pub fn set_error(&mut self, error: InstRef) -> (r: ExecutionSignal)
    ensures r == ExecutionSignal::RuntimeError, final(self).fiber.error == Some(error), final(self).raised == old(self).raised, final(self).ip == old(self).ip, final(self).ran == old(self).ran, final(self).fiber.stack == old(self).fiber.stack,
            final(self).fiber.handlers == old(self).fiber.handlers, final(self).fiber.frames == old(self).fiber.frames, final(self).constants == old(self).constants, final(self).builtin == old(self).builtin,
            final(self).cache == old(self).cache, final(self).heap == old(self).heap, final(self).called == old(self).called, final(self).call_log == old(self).call_log, final(self).capture_stub == old(self).capture_stub, final(self).troots == old(self).troots
  { ExecutionSignal::RuntimeError }

  /// R9: `self.ip.offset_from(&instructions()[0])` — the byte offset of ip inside the current function
  #[verifier::external_body]
  pub fn ip_offset(&self) -> (r: usize)
    requires 0 <= self.ip@ <= usize::MAX
    ensures r == self.ip@
  { 0 }

  /// interning allocation of a string buffer
  #[verifier::external_body]
  pub fn manage_str(&mut self, buffer: StrBuf) -> (r: LyStr)
    ensures r == buffer.content(), final(self).fiber == old(self).fiber, final(self).ip == old(self).ip, final(self).raised == old(self).raised, final(self).cache == old(self).cache, final(self).heap == old(self).heap, final(self).called == old(self).called, final(self).call_log == old(self).call_log, final(self).capture_stub == old(self).capture_stub, final(self).queued == old(self).queued,
            final(self).constants == old(self).constants, final(self).builtin == old(self).builtin, final(self).queued == old(self).queued, final(self).cache == old(self).cache, final(self).heap == old(self).heap, final(self).called == old(self).called, final(self).call_log == old(self).call_log, final(self).capture_stub == old(self).capture_stub
  { LyStr { p: 0 } }

  /// real: unblocks the waiter's fiber and appends it to the run queue
  #[verifier::external_body]
  pub fn queue_blocked_fiber(&mut self, waiter: WaiterRef)
    ensures final(self).queued@ == old(self).queued@.push(waiter), final(self).fiber == old(self).fiber, final(self).ip == old(self).ip, final(self).raised == old(self).raised, final(self).cache == old(self).cache, final(self).heap == old(self).heap, final(self).called == old(self).called, final(self).call_log == old(self).call_log, final(self).capture_stub == old(self).capture_stub,
            final(self).constants == old(self).constants, final(self).builtin == old(self).builtin
  { }

  /// C16: an internal error is a host panic; the handlers must never reach it
  #[verifier::external_body]
  pub fn internal_error(&self, message: &str) -> !
    requires false
  { panic!() }
}


// ---- channel creation (C16, C07): Channel::sync / Channel::with_capacity + manage_obj ---------------------------------
/// GcHooks::new(self): a handle used only to allocate
pub struct GcHooks { }
impl GcHooks { pub fn new(vm: &Vm) -> (r: GcHooks) { GcHooks { } } }
/// laythe_core::object::Channel before it is put on the managed heap
pub struct Channel { pub sync: bool, pub cap: usize }
impl Channel {
  #[verifier::external_body] pub fn sync(hooks: &GcHooks) -> (r: Channel) ensures r.sync, r.cap == 1 { Channel { sync: true, cap: 1 } }
  /// precondition = the contract of ChannelQueue::with_capacity VERIFIED in the chanq unit (Channel::with_capacity passes its argument through)
  #[verifier::external_body] pub fn with_capacity(hooks: &GcHooks, capacity: usize) -> (r: Channel) requires capacity > 0 ensures !r.sync, r.cap == capacity { Channel { sync: false, cap: capacity } }
}
pub uninterp spec fn chan_sync(c: ChanRef) -> bool;
pub uninterp spec fn chan_cap(c: ChanRef) -> usize;
pub uninterp spec fn f_has_fract(a: f64) -> bool;          // a.fract() != 0.0 (true for NaN and the infinities)
pub uninterp spec fn f_to_usize(a: f64) -> usize;          // `a as usize` (saturating, NaN -> 0)
#[verifier::external_body] pub fn verif_has_fract(a: f64) -> (r: bool) ensures r == f_has_fract(a) { a.fract() != 0.0 }
#[verifier::external_body] pub fn verif_f64_to_usize(a: f64) -> (r: usize) ensures r == f_to_usize(a) { a as usize }
/// A-float: an f64 with no fractional part that is not below 1.0 casts to a usize >= 1.  Discharged for all 2^64 bit patterns
/// by the Kani harness kx/value o16_f64_cast_positive (complete, loop-free).
pub broadcast axiom fn axiom_integral_cast_positive(c: f64)
  requires !f_has_fract(c), !f_lt(c, 1.0f64),
  ensures #[trigger] f_to_usize(c) >= 1,
;
impl Vm {
  /// allocate a channel
  #[verifier::external_body]
  pub fn manage_chan(&mut self, c: Channel) -> (r: ChanRef)
    ensures chan_sync(r) == c.sync, chan_cap(r) == c.cap,
            final(self).fiber == old(self).fiber, final(self).ip == old(self).ip, final(self).raised == old(self).raised, final(self).constants == old(self).constants,
            final(self).builtin == old(self).builtin, final(self).queued == old(self).queued, final(self).cache == old(self).cache, final(self).heap == old(self).heap, final(self).called == old(self).called, final(self).call_log == old(self).call_log, final(self).capture_stub == old(self).capture_stub
  { ChanRef { p: 0 } }
}

// ---- locals, boxes (captured locals) and captures (C01, C06, C12's abstract machine is this behaviour) ------------------
pub uninterp spec fn undefined_value() -> Value;
#[verifier::external_body] pub exec const VALUE_UNDEFINED: Value ensures VALUE_UNDEFINED == undefined_value() { Value { bits: 0 } }
/// ObjRef<LyBox>
#[derive(Clone, Copy, PartialEq, Eq, Structural)]
pub struct BoxObj { pub p: usize }
pub uninterp spec fn from_box(b: BoxObj) -> Value;
pub uninterp spec fn box_obj(b: BoxObj) -> ObjectRef;
impl IntoValue for BoxObj {
  open spec fn into_value_spec(self) -> Value { from_box(self) }
  #[verifier::external_body] fn into_value(self) -> (r: Value) { Value { bits: 0 } }
}
/// a box value is an object of kind LyBox, and it is the boxing of its own object
pub broadcast axiom fn axiom_box_value(b: BoxObj)
  ensures v_is_obj(#[trigger] from_box(b)), v_obj(from_box(b)) == box_obj(b), o_kind(box_obj(b)) == ObjectKind::LyBox,
;
pub uninterp spec fn capture_box(c: CapturesRef, i: int) -> ObjectRef;
pub uninterp spec fn captures_len(c: CapturesRef) -> int;
impl Vm {
  /// allocate a box holding `value` (manage_obj(LyBox::new(value)) / LyBox::default())
  #[verifier::external_body]
  pub fn manage_box(&mut self, value: Value) -> (r: BoxObj)
    ensures !old(self).boxes@.dom().contains(box_obj(r)), final(self).boxes@ == old(self).boxes@.insert(box_obj(r), value),
            final(self).fiber == old(self).fiber, final(self).ip == old(self).ip, final(self).raised == old(self).raised, final(self).builtin == old(self).builtin
  { BoxObj { p: 0 } }
  /// R9: `X.to_obj().to_box().value` read / write through the GC pointer
  #[verifier::external_body]
  pub fn box_get(&self, b: ObjectRef) -> (r: Value) requires o_kind(b) == ObjectKind::LyBox ensures r == self.boxes@[b] { Value { bits: 0 } }
  #[verifier::external_body]
  pub fn box_set(&mut self, b: ObjectRef, value: Value)
    requires o_kind(b) == ObjectKind::LyBox
    ensures final(self).boxes@ == old(self).boxes@.insert(b, value), final(self).fiber == old(self).fiber, final(self).ip == old(self).ip, final(self).raised == old(self).raised, final(self).builtin == old(self).builtin
  { }
  /// the (wrongly module-level) name lookup of op_get_box's undefined-variable message
  #[verifier::external_body] pub fn verif_symbol_name_by_slot(&self, slot: usize) -> (r: Option<LyStr>) { None }
  /// Captures::get_capture_value / set_capture_value: the i-th capture is a box
  #[verifier::external_body]
  pub fn capture_get(&self, c: CapturesRef, i: usize) -> (r: Value) requires (i as int) < captures_len(c) ensures r == self.boxes@[capture_box(c, i as int)] { Value { bits: 0 } }
  #[verifier::external_body]
  pub fn capture_set(&mut self, c: CapturesRef, i: usize, value: Value)
    requires (i as int) < captures_len(c)
    ensures final(self).boxes@ == old(self).boxes@.insert(capture_box(c, i as int), value), final(self).fiber == old(self).fiber, final(self).ip == old(self).ip, final(self).raised == old(self).raised, final(self).builtin == old(self).builtin
  { }
}

impl Fiber {
  /// real: `stack_slice(n)` = the top n slots as a slice through the raw stack pointer
  #[verifier::external_body]
  pub fn stack_copy(&self, count: usize) -> (r: Vec<Value>)
    requires count <= self.stack@.len()
    ensures r@ == self.stack@.subrange(self.stack@.len() - count, self.stack@.len() as int)
  { Vec::new() }
}


// ---- list / tuple literals (C01): the elements are the top n stack values in stack (= source) order -----------------------
#[derive(Clone, Copy, PartialEq, Eq, Structural)]
pub struct SeqObj { pub p: usize }          // ObjRef of a List or a Tuple
pub uninterp spec fn from_seqobj(l: SeqObj) -> Value;
pub uninterp spec fn seq_elems(l: SeqObj) -> Seq<Value>;
pub uninterp spec fn seq_is_list(l: SeqObj) -> bool;
impl IntoValue for SeqObj {
  open spec fn into_value_spec(self) -> Value { from_seqobj(self) }
  #[verifier::external_body] fn into_value(self) -> (r: Value) { Value { bits: 0 } }
}
impl Vm {
  /// manage_obj(list!(args)) / manage_obj(args): a fresh list / tuple holding a copy of the slice
  #[verifier::external_body]
  pub fn manage_seq(&mut self, elems: &[Value], list: bool) -> (r: SeqObj)
    ensures seq_elems(r) == elems@, seq_is_list(r) == list, final(self).fiber == old(self).fiber, final(self).ip == old(self).ip, final(self).raised == old(self).raised,
            final(self).builtin == old(self).builtin, aux_same(old(self), final(self))
  { SeqObj { p: 0 } }
}

// ---- closures (C02): op_closure builds the capture table of a new closure -----------------------------------------------
pub uninterp spec fn o_closure(o: ObjectRef) -> ClosureRef;
pub uninterp spec fn o_fun(o: ObjectRef) -> FunRef;
pub uninterp spec fn closure_fun(c: ClosureRef) -> FunRef;
pub uninterp spec fn closure_captures(c: ClosureRef) -> CapturesRef;
pub uninterp spec fn from_closure(c: ClosureRef) -> Value;
pub uninterp spec fn fun_capture_count(f: FunRef) -> usize;
/// A-enc: the two operand bytes decode to the CaptureIndex the encoder wrote (transmute of the u16; bytecode unit: verif_capture_bytes)
pub uninterp spec fn decode_capture(x: u16) -> CaptureIndex;
impl IntoValue for ClosureRef {
  open spec fn into_value_spec(self) -> Value { from_closure(self) }
  #[verifier::external_body] fn into_value(self) -> (r: Value) { Value { bits: 0 } }
}
impl ObjectRef {
  #[verifier::external_body] pub fn to_fun(&self) -> (r: FunRef) requires o_kind(*self) == ObjectKind::Fun ensures r == o_fun(*self) { FunRef { p: 0 } }
  /// ObjRef<LyBox> of a box object
  #[verifier::external_body] pub fn to_box(&self) -> (r: BoxObj) requires o_kind(*self) == ObjectKind::LyBox ensures box_obj(r) == *self { BoxObj { p: 0 } }
}
impl FunRef { #[verifier::external_body] pub fn capture_count(&self) -> (r: usize) ensures r == fun_capture_count(*self) { 0 } }
impl Vm {
  /// R6: `mem::transmute(self.read_short())` — read the two operand bytes and reinterpret them as a CaptureIndex
  #[verifier::external_body]
  pub fn read_capture_index(&mut self) -> (r: CaptureIndex)
    ensures r == decode_capture(code_u16(old(self).ip@)), final(self).ip@ == old(self).ip@ + 2, aux_same(old(self), final(self)),
            final(self).fiber == old(self).fiber, final(self).raised == old(self).raised, final(self).constants == old(self).constants, final(self).builtin == old(self).builtin
  { CaptureIndex::Local(0) }
  /// `ly_box.value` read through an ObjRef<LyBox>
  #[verifier::external_body] pub fn verif_box_value(&self, b: BoxObj) -> (r: Value) ensures r == self.boxes@[box_obj(b)] { Value { bits: 0 } }
  /// Captures::get_capture: the i-th capture box of a capture table
  #[verifier::external_body]
  pub fn capture_box_get(&self, c: CapturesRef, i: usize) -> (r: BoxObj) requires (i as int) < captures_len(c) ensures box_obj(r) == capture_box(c, i as int) { BoxObj { p: 0 } }
  /// Captures::new(self.manage(&*boxes)): a capture table holding exactly these box pointers, in order
  #[verifier::external_body]
  pub fn manage_captures(&mut self, boxes: &Vec<BoxObj>) -> (r: CapturesRef)
    ensures captures_len(r) == boxes@.len(), forall|j: int| 0 <= j < boxes@.len() ==> capture_box(r, j) == box_obj(#[trigger] boxes@[j]),
            final(self).fiber == old(self).fiber, final(self).ip == old(self).ip, final(self).raised == old(self).raised, final(self).builtin == old(self).builtin, aux_same(old(self), final(self))
  { CapturesRef { p: 0 } }
  /// manage_obj(Closure::new(fun, captures))
  #[verifier::external_body]
  pub fn manage_closure(&mut self, fun: FunRef, captures: CapturesRef) -> (r: ClosureRef)
    ensures closure_fun(r) == fun, closure_captures(r) == captures,
            final(self).fiber == old(self).fiber, final(self).ip == old(self).ip, final(self).raised == old(self).raised, final(self).builtin == old(self).builtin, aux_same(old(self), final(self))
  { ClosureRef { p: 0 } }
}

// ---- class body handlers (C03): Class / Method / Field / StaticMethod --------------------------------------------------------
pub uninterp spec fn from_class(c: ClassRef) -> Value;
pub uninterp spec fn class_meta(c: ClassRef) -> Option<ClassRef>;
impl IntoValue for ClassRef {
  open spec fn into_value_spec(self) -> Value { from_class(self) }
  #[verifier::external_body] fn into_value(self) -> (r: Value) { Value { bits: 0 } }
}
impl Vm {
  /// manage_obj(Class::bare(name)) (Class::bare is verified in the klass unit)
  #[verifier::external_body]
  pub fn manage_bare_class(&mut self, name: LyStr) -> (r: ClassRef)
    ensures final(self).class_log@ == old(self).class_log@.push(ClassOp::NewClass(r, name)), final(self).fiber == old(self).fiber, final(self).ip == old(self).ip, final(self).raised == old(self).raised, final(self).builtin == old(self).builtin
  { ClassRef { p: 0 } }
  /// R9: `class.add_method(name, method)` through the GC pointer (Class::add_method: klass unit)
  #[verifier::external_body]
  pub fn class_add_method(&mut self, class: ClassRef, name: LyStr, method: Value)
    ensures final(self).class_log@ == old(self).class_log@.push(ClassOp::AddMethod(class, name, method)), final(self).fiber == old(self).fiber, final(self).ip == old(self).ip, final(self).raised == old(self).raised, final(self).builtin == old(self).builtin
  { }
  #[verifier::external_body]
  pub fn class_add_field(&mut self, class: ClassRef, name: LyStr)
    ensures final(self).class_log@ == old(self).class_log@.push(ClassOp::AddField(class, name)), final(self).fiber == old(self).fiber, final(self).ip == old(self).ip, final(self).raised == old(self).raised, final(self).builtin == old(self).builtin
  { }
  /// `class.meta_class_mut()` : the meta class, if set
  #[verifier::external_body]
  pub fn class_meta_get(&self, class: ClassRef) -> (r: Option<ClassRef>) ensures r == class_meta(class) { None }
}

// ---- module-level variables (C17, C01): the current module's symbol slots (Module::{get,set}_symbol_by_slot, insert_symbol: module unit) ----
pub uninterp spec fn global_symbol(name: LyStr) -> Option<Value>;
pub uninterp spec fn symbol_name_of_slot(slot: int) -> Option<LyStr>;
pub enum SymSetErr { SymbolDoesNotExist }
pub enum SymInsErr { SymbolAlreadyExists }
impl Vm {
  /// R9: self.current_fun.module().get_symbol_by_slot(slot)
  #[verifier::external_body]
  pub fn verif_mod_get(&self, slot: usize) -> (r: Option<Value>)
    ensures r == (if (slot as int) < self.modsyms@.len() { Some(self.modsyms@[slot as int]) } else { None::<Value> }) { None }
  #[verifier::external_body]
  pub fn verif_mod_set(&mut self, slot: usize, value: Value) -> (r: Result<(), SymSetErr>)
    ensures (slot as int) < old(self).modsyms@.len() ==> r is Ok && final(self).modsyms@ == old(self).modsyms@.update(slot as int, value),
            (slot as int) >= old(self).modsyms@.len() ==> r is Err && final(self).modsyms == old(self).modsyms,
            final(self).modnames == old(self).modnames, final(self).fiber == old(self).fiber, final(self).ip == old(self).ip, final(self).raised == old(self).raised, final(self).builtin == old(self).builtin
  { Ok(()) }
  /// Module::insert_symbol: a new name gets the next dense slot
  #[verifier::external_body]
  pub fn verif_mod_insert(&mut self, name: LyStr, value: Value) -> (r: Result<usize, SymInsErr>)
    ensures !old(self).modnames@.dom().contains(name) ==> r == Ok::<usize, SymInsErr>(old(self).modsyms@.len() as usize) && final(self).modsyms@ == old(self).modsyms@.push(value)
              && final(self).modnames@ == old(self).modnames@.insert(name, old(self).modsyms@.len() as int),
            old(self).modnames@.dom().contains(name) ==> r is Err && final(self).modsyms == old(self).modsyms,
            final(self).fiber == old(self).fiber, final(self).ip == old(self).ip, final(self).raised == old(self).raised, final(self).builtin == old(self).builtin
  { Ok(0) }
  #[verifier::external_body] pub fn verif_mod_symbol_name(&self, slot: usize) -> (r: Option<LyStr>) ensures r == symbol_name_of_slot(slot as int) { None }
  #[verifier::external_body] pub fn verif_global_get(&self, name: LyStr) -> (r: Option<Value>) ensures r == global_symbol(name) { None }
}

// ---- string interpolation (C01, C16): n-ary concatenation buffer -------------------------------------------------------------
pub uninterp spec fn str_empty() -> LyStr;
pub open spec fn concat_all(parts: Seq<LyStr>) -> LyStr decreases parts.len() {
  if parts.len() == 0 { str_empty() } else { str_concat(concat_all(parts.drop_last()), parts.last()) }
}
impl StrBuf {
  /// String::with_capacity(n)
  #[verifier::external_body] pub fn verif_with_capacity(n: usize) -> (r: StrBuf) ensures r.content() == str_empty() { StrBuf { p: 0 } }
  /// push_str(&s)
  #[verifier::external_body] pub fn verif_push(&mut self, s: LyStr) ensures final(self).content() == str_concat(old(self).content(), s) { }
}
pub uninterp spec fn str_len(s: LyStr) -> nat;
impl LyStr {
  #[verifier::external_body] pub fn len(&self) -> (r: usize) ensures r == str_len(*self) { 0 }
}
/// total byte length of the first k string values of a sequence
pub open spec fn sum_len(parts: Seq<Value>, k: int) -> nat decreases k {
  if k <= 0 { 0 } else { sum_len(parts, k - 1) + str_len(o_str(v_obj(parts[k - 1]))) }
}
pub proof fn lemma_sum_len_mono(parts: Seq<Value>, j: int, k: int)
  requires 0 <= j <= k,
  ensures sum_len(parts, j) <= sum_len(parts, k),
  decreases k - j
{ if j < k { lemma_sum_len_mono(parts, j, k - 1); } }

// R12: if_let_obj! / to_obj_kind! copied from laythe_core/src/macros.rs with the `$crate::` prefixes and `use` lines removed
macro_rules! to_obj_kind {
  ($o:expr, Channel) => {
    $o.to_channel()
  };
  ($o:expr, Class) => {
    $o.to_class()
  };
  ($o:expr, Instance) => {
    $o.to_instance()
  };
  ($o:expr, Enumerator) => {
    $o.to_enumerator()
  };
  ($o:expr, String) => {
    $o.to_str()
  };
  ($o:expr, Method) => {
    $o.to_method()
  };
}

macro_rules! if_let_obj {
  (ObjectKind::$obj_kind:ident($p:pat) = ($v:expr) $b:block) => {{
    let val: Value = $v;
    if val.is_obj() {
      let obj = val.to_obj();

      if obj.is_kind(ObjectKind::$obj_kind) {
        let $p = to_obj_kind!(obj, $obj_kind);
        $b
      }
    }
  }};
  (ObjectKind::$obj_kind:ident(mut $p:pat) = ($v:expr) $b:block) => {{
    let val: Value = $v;
    if val.is_obj() {
      let obj = val.to_obj();

      if obj.is_kind(ObjectKind::$obj_kind) {
        let mut $p = to_obj_kind!(obj, $obj_kind);
        $b
      }
    }
  }};
  (ObjectKind::$obj_kind:ident($p:pat) = ($v:expr) $b1:block else $b2:block) => {{
    let val: Value = $v;
    if val.is_obj() {
      let obj = val.to_obj();

      if obj.is_kind(ObjectKind::$obj_kind) {
        let $p = to_obj_kind!(obj, $obj_kind);
        $b1
      } else $b2
    } else $b2
  }};
  (ObjectKind::$obj_kind:ident(mut $p:pat) = ($v:expr) $b1:block else $b2:block) => {{
    let val: Value = $v;
    if val.is_obj() {
      let obj = val.to_obj();

      if obj.is_kind(ObjectKind::$obj_kind) {
        let mut $p = to_obj_kind!(obj, $obj_kind);
        $b1
      } else $b2
    } else $b2
  }};
}

macro_rules! val {
  ( $x:expr ) => { IntoValue::into_value($x) };
}
