// ---- ops unit: specification helpers -------------------------------------------------------------------
/// falsiness by the language rule: only nil and false
pub open spec fn falsey(v: Value) -> bool { v_is_nil(v) || v_is_false(v) }

pub open spec fn is_string(v: Value) -> bool { v_is_obj(v) && o_kind(v_obj(v)) == ObjectKind::String }
pub open spec fn str_of(v: Value) -> LyStr { o_str(v_obj(v)) }

/// the stack below the top n values
pub open spec fn below(s: Seq<Value>, n: int) -> Seq<Value> { s.subrange(0, s.len() - n) }
/// i-th value from the top (0 = top)
pub open spec fn top(s: Seq<Value>, i: int) -> Value { s[s.len() - 1 - i] }

/// a binary operator handler completed normally: both operands replaced by `result`, ip untouched, nothing raised
pub open spec fn binary_ok(o: &Vm, n: &Vm, sig: ExecutionSignal, result: Value) -> bool {
  &&& sig == ExecutionSignal::Ok
  &&& n.fiber.stack@ =~= below(o.fiber.stack@, 2).push(result)
  &&& n.ip == o.ip && n.raised == o.raised
}

/// a handler raised: RuntimeError of exactly this class, and no result value was pushed
pub open spec fn raised_with(o: &Vm, n: &Vm, sig: ExecutionSignal, class: ClassRef) -> bool {
  &&& sig == ExecutionSignal::RuntimeError
  &&& n.raised@ == Some(class)
}
