// ---- ops unit: specification helpers -------------------------------------------------------------------
/// falsiness by the language rule: only nil and false
pub open spec fn falsey(v: Value) -> bool { v_is_nil(v) || v_is_false(v) }

pub open spec fn is_string(v: Value) -> bool { v_is_obj(v) && o_kind(v_obj(v)) == ObjectKind::String }
pub open spec fn str_of(v: Value) -> LyStr { o_str(v_obj(v)) }

/// the stack below the top n values
pub open spec fn below(s: Seq<Value>, n: int) -> Seq<Value> { s.subrange(0, s.len() - n) }
/// i-th value from the top (0 = top)
pub open spec fn top(s: Seq<Value>, i: int) -> Value { s[s.len() - 1 - i] }

/// a binary operator handler completed normally: both operands replaced by `result`, ip untouched, nothing raised
pub open spec fn binary_ok(o: &Vm, n: &Vm, sig: ExecutionSignal, result: Value) -> bool {
  &&& sig == ExecutionSignal::Ok
  &&& n.fiber.stack@ =~= below(o.fiber.stack@, 2).push(result)
  &&& n.ip == o.ip && n.raised == o.raised
}

/// a handler raised: RuntimeError of exactly this class, and no result value was pushed
pub open spec fn raised_with(o: &Vm, n: &Vm, sig: ExecutionSignal, class: ClassRef) -> bool {
  &&& sig == ExecutionSignal::RuntimeError
  &&& n.raised@ == Some(class)
}

// ---- channel ops (C07): each execution of a send/receive instruction either COMPLETES or RETRIES ---------------
pub open spec fn is_chan(v: Value) -> bool { v_is_obj(v) && o_kind(v_obj(v)) == ObjectKind::Channel }
pub open spec fn chan_of(v: Value) -> ChanRef { o_chan(v_obj(v)) }

/// waiters that left a wait structure during this execution: the one the channel handed back, else the first of
/// the fiber's pool.  C07/C08: every one of them must reach the run queue (none is forgotten), and no other does
pub open spec fn woken(o: &Vm, n: &Vm, from_channel: Option<WaiterRef>) -> bool {
  match from_channel {
    Some(w) => n.queued@ == o.queued@.push(w) && n.fiber.pool@ == o.fiber.pool@,
    None => if o.fiber.pool@.len() > 0 {
        n.queued@ == o.queued@.push(o.fiber.pool@[0]) && n.fiber.pool@ == o.fiber.pool@.subrange(1, o.fiber.pool@.len() as int)
      } else { n.queued@ == o.queued@ && n.fiber.pool@ == o.fiber.pool@ },
  }
}

// ---- inline caches (C13) and class dispatch (C03) -----------------------------------------------------------
impl InlineCache {
  pub open spec fn prop_hit(&self, slot: int, c: ClassRef) -> Option<usize> {
    match self.property@[slot] { Some(pc) => if pc.class == c { Some(pc.property_index) } else { None }, None => None }
  }
  pub open spec fn invoke_hit(&self, slot: int, c: ClassRef) -> Option<Value> {
    match self.invoke@[slot] { Some(ic) => if ic.class == c { Some(ic.method) } else { None }, None => None }
  }
}

/// A-slot: every cache slot of the module belongs to exactly one instruction site, which has one property name
pub uninterp spec fn prop_site_name(slot: int) -> LyStr;
pub uninterp spec fn invoke_site_name(slot: int) -> LyStr;
pub uninterp spec fn invoke_site_is_super(slot: int) -> bool;

/// the cache never disagrees with the slow path: a property entry is the field index the class table gives for the
/// site's name; an invoke entry is the method the class table gives, and (for ordinary invoke sites) no instance of
/// that class has a field of that name that would shadow it
pub open spec fn coherent(cache: &InlineCache) -> bool {
  &&& forall|s: int| 0 <= s < cache.property@.len() ==> (#[trigger] cache.property@[s] matches Some(pc) ==>
        (field_index(pc.class, prop_site_name(s)) matches Some(k) && k as usize == pc.property_index))
  &&& forall|s: int| 0 <= s < cache.invoke@.len() ==> (#[trigger] cache.invoke@[s] matches Some(ic) ==>
        method_of(ic.class, invoke_site_name(s)) == Some(ic.method)
        && (invoke_site_is_super(s) || field_index(ic.class, invoke_site_name(s)) is None))
}

pub open spec fn is_instance(v: Value) -> bool { v_is_obj(v) && o_kind(v_obj(v)) == ObjectKind::Instance }
pub open spec fn inst_of(v: Value) -> InstRef { o_inst(v_obj(v)) }

/// C03, the slow path of a method call `receiver.name(args)`: a field holding a callable shadows the method
/// (the field's value is called and takes the receiver slot), else the most-derived method of the receiver's class
pub open spec fn invoke_lookup(vm: &Vm, receiver: Value, name: LyStr) -> Option<(Value, bool)> {
  if is_instance(receiver) && field_index(class_of_inst(inst_of(receiver)), name) is Some {
    Some((vm.heap@[(inst_of(receiver), field_index(class_of_inst(inst_of(receiver)), name)->0 as int)], true))
  } else {
    match method_of(class_of_value(receiver), name) { Some(m) => Some((m, false)), None => None }
  }
}

/// C03, the slow path of a property read `receiver.name`: the field, else the method bound to the receiver
pub open spec fn get_lookup(vm: &Vm, receiver: Value, name: LyStr) -> Option<Value> {
  if is_instance(receiver) && field_index(class_of_inst(inst_of(receiver)), name) is Some {
    Some(vm.heap@[(inst_of(receiver), field_index(class_of_inst(inst_of(receiver)), name)->0 as int)])
  } else {
    match method_of(class_of_value(receiver), name) { Some(m) => Some(from_method(receiver, m)), None => None }
  }
}

pub open spec fn set_top(s: Seq<Value>, i: int, v: Value) -> Seq<Value> { s.update(s.len() - 1 - i, v) }

pub open spec fn is_box(v: Value) -> bool { v_is_obj(v) && o_kind(v_obj(v)) == ObjectKind::LyBox }

// ---- op_closure (C02): the capture operands that follow the Closure instruction -------------------------------------------
/// the j-th capture operand (two bytes after the function slot, two bytes each)
pub open spec fn capture_operand(vm: &Vm, j: int) -> CaptureIndex { decode_capture(code_u16(vm.ip@ + 2 + 2 * j)) }
/// the cell the j-th operand names: the box in a local slot of the CURRENT frame, or a capture of the CURRENT closure
pub open spec fn captured_cell(vm: &Vm, j: int) -> ObjectRef {
  match capture_operand(vm, j) {
    CaptureIndex::Local(i) => v_obj(vm.fiber.stack@[vm.fiber.base@ + i as int]),
    CaptureIndex::Enclosing(i) => capture_box(vm.fiber.caps@, i as int),
  }
}
/// A-shape (resolver + compiler): a Local operand names a slot of the frame that holds a box, an Enclosing operand an existing capture
pub open spec fn closure_operands_ok(vm: &Vm, f: FunRef) -> bool {
  forall|j: int| 0 <= j < fun_capture_count(f) ==> (match #[trigger] capture_operand(vm, j) {
    CaptureIndex::Local(i) => 0 <= vm.fiber.base@ + i as int && vm.fiber.base@ + (i as int) < vm.fiber.stack@.len() && is_box(vm.fiber.stack@[vm.fiber.base@ + i as int]),
    CaptureIndex::Enclosing(i) => (i as int) < captures_len(vm.fiber.caps@),
  })
}

pub open spec fn is_kind(v: Value, k: ObjectKind) -> bool { v_is_obj(v) && o_kind(v_obj(v)) == k }

pub open spec fn is_str_value(v: Value) -> bool { v_is_obj(v) && o_kind(v_obj(v)) == ObjectKind::String }
