// ---- ops unit: specification helpers -------------------------------------------------------------------
/// falsiness by the language rule: only nil and false
pub open spec fn falsey(v: Value) -> bool { v_is_nil(v) || v_is_false(v) }

pub open spec fn is_string(v: Value) -> bool { v_is_obj(v) && o_kind(v_obj(v)) == ObjectKind::String }
pub open spec fn str_of(v: Value) -> LyStr { o_str(v_obj(v)) }

/// the stack below the top n values
pub open spec fn below(s: Seq<Value>, n: int) -> Seq<Value> { s.subrange(0, s.len() - n) }
/// i-th value from the top (0 = top)
pub open spec fn top(s: Seq<Value>, i: int) -> Value { s[s.len() - 1 - i] }

/// a binary operator handler completed normally: both operands replaced by `result`, ip untouched, nothing raised
pub open spec fn binary_ok(o: &Vm, n: &Vm, sig: ExecutionSignal, result: Value) -> bool {
  &&& sig == ExecutionSignal::Ok
  &&& n.fiber.stack@ =~= below(o.fiber.stack@, 2).push(result)
  &&& n.ip == o.ip && n.raised == o.raised
}

/// a handler raised: RuntimeError of exactly this class, and no result value was pushed
pub open spec fn raised_with(o: &Vm, n: &Vm, sig: ExecutionSignal, class: ClassRef) -> bool {
  &&& sig == ExecutionSignal::RuntimeError
  &&& n.raised@ == Some(class)
}

// ---- channel ops (C07): each execution of a send/receive instruction either COMPLETES or RETRIES ---------------
pub open spec fn is_chan(v: Value) -> bool { v_is_obj(v) && o_kind(v_obj(v)) == ObjectKind::Channel }
pub open spec fn chan_of(v: Value) -> ChanRef { o_chan(v_obj(v)) }

/// waiters that left a wait structure during this execution: the one the channel handed back, else the first of
/// the fiber's pool.  C07/C08: every one of them must reach the run queue (none is forgotten), and no other does
pub open spec fn woken(o: &Vm, n: &Vm, from_channel: Option<WaiterRef>) -> bool {
  match from_channel {
    Some(w) => n.queued@ == o.queued@.push(w) && n.fiber.pool@ == o.fiber.pool@,
    None => if o.fiber.pool@.len() > 0 {
        n.queued@ == o.queued@.push(o.fiber.pool@[0]) && n.fiber.pool@ == o.fiber.pool@.subrange(1, o.fiber.pool@.len() as int)
      } else { n.queued@ == o.queued@ && n.fiber.pool@ == o.fiber.pool@ },
  }
}
