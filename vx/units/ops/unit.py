_A = ['op_literal', 'op_drop', 'op_drop_n', 'op_dup', 'op_loop', 'op_jump_if_false', 'op_jump', 'op_negate', 'op_not',
      'op_add', 'op_sub', 'op_mul', 'op_div', 'op_and', 'op_or', 'op_less', 'op_less_equal', 'op_greater', 'op_greater_equal',
      'op_equal', 'op_not_equal', 'op_constant', 'op_constant_long', 'op_send', 'op_receive',
      'op_push_handler', 'op_pop_handler', 'op_check_handler', 'op_continue_unwind', 'op_get_error', 'op_raise',
      'op_invoke', 'invoke', 'op_super_invoke', 'op_get_super', 'bind_method', 'call_method', 'invoke_from_class',
      'op_get_prop_by_name', 'op_set_prop_by_name', 'op_get_prop', 'op_set_prop', 'op_channel', 'op_buffered_channel',
      'op_get_local', 'op_set_local', 'op_box', 'op_empty_box', 'op_fill_box', 'op_get_box', 'op_set_box', 'op_get_capture', 'op_set_capture', 'op_list', 'op_tuple', 'op_closure']

UNIT = dict(
  name='ops',
  properties=['C01', 'C16', 'C06', 'C07', 'C04', 'C03', 'C13'],
  shared=['isa.rs'],
  prelude_files=['prelude.rs', 'prelude_resolve_stub.rs'],
  items=[
    ('laythe_vm/src/byte_code.rs', ['struct Label', 'enum CaptureIndex', 'enum SymbolicByteCode']),
    ('laythe_core/src/object/mod.rs', ['enum ObjectKind']),
    ('laythe_core/src/utils.rs', ['fn is_falsey']),
    ('laythe_vm/src/vm/mod.rs', ['enum ExecutionSignal']),
    ('laythe_core/src/object/channel/mod.rs', ['enum SendResult', 'enum ReceiveResult']),
    ('laythe_vm/src/cache.rs', ['struct PropertyCache', 'struct InvokeCache', 'struct InlineCache',
                                ('impl InlineCache', ['get_property_cache', 'set_property_cache', 'clear_property_cache', 'get_invoke_cache',
                                                      'set_invoke_cache', 'clear_invoke_cache', 'set_property', 'set_invoke'])]),
    ('laythe_vm/src/vm/ops.rs', [('impl Vm', _A)]),
  ],
  rewrites=[
    ('R7f', 'struct Label'), ('R11', 'struct Label', dict(drop=['Debug'], add=['Structural'])),
    ('R11', 'enum CaptureIndex', dict(drop=['Debug'], add=['Structural'])),
    ('R11', 'enum SymbolicByteCode', dict(drop=['Debug', 'Default'], add=['Structural'])),
    ('R11', 'enum SymbolicByteCode', dict(pat='  #[default]\n', rep='', count=1)),
    ('R11', 'enum SymbolicByteCode', dict(pat='  #[allow(dead_code)]\n', rep='', count=1)),
    ('R11', 'enum ObjectKind', dict(drop=['Debug', 'Hash'], add=['Structural'])),
    ('R11', 'enum ExecutionSignal', dict(drop=['Debug'], add=['Structural'])),
    ('R7', 'enum ExecutionSignal', dict(pat='enum ExecutionSignal', rep='pub enum ExecutionSignal', count=1)),
    ('R7', 'Vm::*', dict(pat='pub(super) unsafe fn', rep='pub unsafe fn', optional=True)),
    ('R11', 'enum SendResult', dict(drop=['Debug', 'PartialEq', 'Eq', 'Clone'])),
    ('R11', 'enum ReceiveResult', dict(drop=['Debug', 'PartialEq', 'Eq', 'Clone'])),
    ('R6', 'enum SendResult', dict(pat='Option<Ref<ChannelWaiter>>', rep='Option<WaiterRef>', count=2)),
    ('R6', 'enum ReceiveResult', dict(pat='Option<Ref<ChannelWaiter>>', rep='Option<WaiterRef>', count=2)),
    # R9: the fiber is a GC pointer copied into a local; in the model it is a field of Vm (allocator / root-context arguments dropped)
    ('R9', 'Vm::op_send', dict(pat='let mut fiber = self.fiber;\n      fiber.add_used_channel(self.gc.borrow_mut(), self, channel);', rep='self.fiber.add_used_channel(channel);', count=1)),
    ('R9', 'Vm::op_receive', dict(pat='let mut fiber = self.fiber;\n      fiber.add_used_channel(self.gc.borrow_mut(), self, channel);', rep='self.fiber.add_used_channel(channel);', count=1)),
    ('R9', 'Vm::op_push_handler', dict(pat='''let start = &self.fiber.fun().chunk().instructions()[0] as *const u8;
    let offset = self.ip.offset_from(start) as usize + jump;
    let mut fiber = self.fiber;
    fiber.push_exception_handler(self, offset, slot_depth);''', rep='''let offset = self.ip_offset() + jump;
    self.fiber.push_exception_handler(offset, slot_depth);''', count=1)),
    ('R7', 'Vm::op_pop_handler', dict(pat='pub(super) unsafe fn', rep='pub unsafe fn', optional=True)),
    # ---- cache.rs (C13) ----
    ('R7f', 'struct PropertyCache'), ('R7f', 'struct InvokeCache'), ('R7f', 'struct InlineCache'),
    ('R7', 'struct PropertyCache', dict(pat='struct PropertyCache', rep='pub struct PropertyCache', count=1)),
    ('R7', 'struct InvokeCache', dict(pat='struct InvokeCache', rep='pub struct InvokeCache', count=1)),
    ('R11', 'struct PropertyCache', dict(drop=['Debug', 'Clone'])), ('R11', 'struct InvokeCache', dict(drop=['Debug', 'Clone'])), ('R11', 'struct InlineCache', dict(drop=['Debug'])),
    ('R6', 'struct PropertyCache', dict(pat='ObjRef<Class>', rep='ClassRef', count=1)),
    ('R6', 'struct InvokeCache', dict(pat='ObjRef<Class>', rep='ClassRef', count=1)),
    ('R6', 'InlineCache::*', dict(pat='ObjRef<Class>', rep='ClassRef', optional=True)),
    # unchecked indexing -> checked indexing: the bound becomes a proof obligation (it is the debug_assert! above it)
    ('R6', 'InlineCache::*', dict(pat=r'unsafe \{ \*self\.(\w+)\.get_unchecked_mut\((\w+)\) = (\w+) \};', rep=r'self.\1[\2] = \3;', regex=True, optional=True)),
    ('R6', 'InlineCache::*', dict(pat=r'unsafe \{ self\.(\w+)\.get_unchecked_mut\((\w+)\) \}', rep=r'(&mut self.\1[\2])', regex=True, optional=True)),
    ('R6', 'InlineCache::*', dict(pat=r'unsafe \{ self\.(\w+)\.get_unchecked\((\w+)\) \}', rep=r'(&self.\1[\2])', regex=True, optional=True)),
    ('R14', 'InlineCache::*', dict(pat=r'(\w+(?:\.\w+)*)\.class == (\w+(?:\.\w+)*)', rep=r'verif_class_eq(\1.class, \2)', regex=True, optional=True)),
    # ---- property / invoke handlers (C03, C13) ----
    ('R8', 'Vm::*'),
    # R9: the per-module cache lookup `self.inline_cache()[_mut]()` is the field `self.cache` of the model (A-slot)
    ('R9', 'Vm::*', dict(pat=r'self\s*\.inline_cache(?:_mut)?\(\)', rep='self.cache', regex=True, optional=True)),
    ('R9', 'Vm::*', dict(pat=r'let cache = self\.cache;\s*cache\.', rep='self.cache.', regex=True, optional=True)),
    # R9: instances are GC pointers into the heap the interpreter owns
    ('R9', 'Vm::*', dict(pat=r'instance\[([^\]]+)\] = value;', rep=r'self.heap_set(instance, \1, value);', regex=True, optional=True)),
    ('R9', 'Vm::*', dict(pat=r'instance\[([^\]]+)\]', rep=r'self.heap_get(instance, \1)', regex=True, optional=True)),
    ('R9', 'Vm::*', dict(pat=r'instance\.get_field\((\w+)\)', rep=r'self.heap_field(instance, \1)', regex=True, optional=True)),
    ('R9', 'Vm::*', dict(pat=r'\*field\b', rep='field', regex=True, optional=True)),
    ('R6', 'Vm::*', dict(pat='ObjRef<Class>', rep='ClassRef', optional=True)),
    ('R6', 'Vm::*', dict(pat='ObjRef<Method>', rep='MethodRef', optional=True)),
    ('R7', 'Vm::*', dict(pat=r'^(\s*(?:///[^\n]*\n\s*)*)unsafe fn', rep=r'\1pub unsafe fn', regex=True, optional=True)),
    # R4: Option::or_else with a closure that captures &mut self
    ('R4', 'Vm::op_send', dict(pat=r'(\w+)\.or_else\(\|\|\s*self\.fiber\.get_runnable\(\)\)', rep=r'(match \1 { Some(verif_w) => Some(verif_w), None => self.fiber.get_runnable() })', regex=True, optional=True)),
    ('R4', 'Vm::op_receive', dict(pat=r'(\w+)\.or_else\(\|\|\s*self\.fiber\.get_runnable\(\)\)', rep=r'(match \1 { Some(verif_w) => Some(verif_w), None => self.fiber.get_runnable() })', regex=True, optional=True)),
    # ---- op_closure (C02): the iterator chain becomes the loop it runs (R13m); decode / frame slot / capture table through the model (R6, R9) ----
    ('R13m', 'Vm::op_closure'),
    ('R6', 'Vm::op_closure', dict(pat='let capture_index: CaptureIndex = mem::transmute(self.read_short());', rep='let capture_index: CaptureIndex = self.read_capture_index();', count=1)),
    ('R9', 'Vm::op_closure', dict(pat=r'\(\*self\.fiber\.stack_start\(\)\.offset\((\w+) as isize\)\)\s*\.to_obj\(\)\s*\.to_box\(\)', rep=r'self.fiber.frame_slot_get(\1 as isize).to_obj().to_box()', regex=True, count=1)),
    ('R9', 'Vm::op_closure', dict(pat='self.fiber.captures().get_capture(index as usize)', rep='self.capture_box_get(self.fiber.captures(), index as usize)', count=1)),
    ('R6', 'Vm::op_closure', dict(pat='ObjRef<LyBox>', rep='BoxObj', count=2)),
    ('R9', 'Vm::op_closure', dict(pat='let captures = Captures::new(self.manage(&*captures));', rep='let captures = self.manage_captures(&captures);', count=1)),
    ('R9', 'Vm::op_closure', dict(pat='self.manage_obj(Closure::new(fun, captures))', rep='self.manage_closure(fun, captures)', count=1)),
    # ---- list / tuple literals: the argument slice aliases the stack through a raw pointer; the model copies it at the same moment ----
    ('R9', 'Vm::op_list', dict(pat='let args = self.fiber.stack_slice(arg_count);', rep='let verif_args = self.fiber.stack_copy(arg_count);\n    let args: &[Value] = verif_args.as_slice();', count=1)),
    ('R9', 'Vm::op_tuple', dict(pat='let args = self.fiber.stack_slice(arg_count);', rep='let verif_args = self.fiber.stack_copy(arg_count);\n    let args: &[Value] = verif_args.as_slice();', count=1)),
    ('R9', 'Vm::op_list', dict(pat='self.manage_obj(list!(args))', rep='self.manage_seq(args, true)', count=1)),
    ('R9', 'Vm::op_tuple', dict(pat='self.manage_obj(args)', rep='self.manage_seq(args, false)', count=1)),
    # ---- locals / boxes / captures (R9: raw frame pointer and GC pointers into the model's stack vector and box heap) ----
    ('R9', 'Vm::op_box', dict(pat=r'let slot = self\.stack_start\(\)\.offset\(slot\);\s*let local = \*slot;\s*\*slot = val!\(self\.manage_obj\(LyBox::new\(local\)\)\);',
                              rep='let local = self.fiber.frame_slot_get(slot);\n    let verif_box = val!(self.manage_box(local));\n    self.fiber.frame_slot_set(slot, verif_box);', regex=True, count=1)),
    ('R9', 'Vm::op_empty_box', dict(pat='self.manage_obj(LyBox::default())', rep='self.manage_box(VALUE_UNDEFINED)', count=1)),
    ('R9', 'Vm::op_fill_box', dict(pat='self.fiber.peek(0).to_obj().to_box().value = value;', rep='let verif_b = self.fiber.peek(0).to_obj(); self.box_set(verif_b, value);', count=1)),
    ('R9', 'Vm::op_set_local', dict(pat='*self.stack_start().offset(slot) = copy;', rep='self.fiber.frame_slot_set(slot, copy);', count=1)),
    ('R9', 'Vm::op_set_box', dict(pat='(*self.stack_start().offset(slot)).to_obj().to_box().value = copy;', rep='let verif_b = self.fiber.frame_slot_get(slot).to_obj(); self.box_set(verif_b, copy);', count=1)),
    ('R9', 'Vm::op_get_local', dict(pat='let local = *self.stack_start().offset(slot);', rep='let local = self.fiber.frame_slot_get(slot);', count=1)),
    ('R9', 'Vm::op_get_box', dict(pat='let local = *self.stack_start().offset(slot);', rep='let local = self.fiber.frame_slot_get(slot);', count=1)),
    ('R9', 'Vm::op_get_box', dict(pat='let local = local.to_obj().to_box().value;', rep='let local = self.box_get(local.to_obj());', count=1)),
    ('R14', 'Vm::op_get_box', dict(pat='local == VALUE_UNDEFINED', rep='verif_val_eq(local, VALUE_UNDEFINED)', count=1)),
    ('R9', 'Vm::op_get_box', dict(pat=r'match self\s*\.current_fun\s*\.module\(\)\s*\.get_symbol_name_by_slot\(slot as usize\)', rep='match self.verif_symbol_name_by_slot(slot as usize)', regex=True, count=1)),
    ('R9', 'Vm::op_get_capture', dict(pat='self.fiber.captures().get_capture_value(slot as usize)', rep='self.capture_get(self.fiber.captures(), slot as usize)', count=1)),
    ('R9', 'Vm::op_set_capture', dict(pat=r'self\s*\.fiber\s*\.captures\(\)\s*\.set_capture_value\(slot as usize, value\);', rep='let verif_c = self.fiber.captures(); self.capture_set(verif_c, slot as usize, value);', regex=True, count=1)),
    # channel creation: manage_obj is generic over the managed type; the model has one allocation stub per type (R6); float tests through named stubs (R14)
    ('R6', 'Vm::op_channel', dict(pat='self.manage_obj(Channel::', rep='self.manage_chan(Channel::', count=1)),
    ('R6', 'Vm::op_buffered_channel', dict(pat='self.manage_obj(Channel::', rep='self.manage_chan(Channel::', count=1)),
    ('R14', 'Vm::op_buffered_channel', dict(pat=r'(\w+)\.fract\(\) != 0\.0', rep=r'verif_has_fract(\1)', regex=True, count=1)),
    ('R14', 'Vm::op_buffered_channel', dict(pat=r'\b(\w+) < (\d+\.\d+)', rep=r'verif_flt(\1, \2)', regex=True, optional=True)),
    ('R14', 'Vm::op_buffered_channel', dict(pat=r'\b(\w+) <= (\d+\.\d+)', rep=r'verif_fle(\1, \2)', regex=True, optional=True)),
    ('R14', 'Vm::op_buffered_channel', dict(pat=r'\b(\w+) as usize', rep=r'verif_f64_to_usize(\1)', regex=True, count=1)),
    # R14: float operators, string content comparison and Value equality routed through named stubs (generic, order-preserving)
    ('R14', 'Vm::*'),
    # the String::with_capacity + push_str + push_str concatenation buffer (str byte reasoning unsupported)
    ('R14b', 'Vm::op_add', dict(pat=r'let mut buffer = String::with_capacity\((\w+)\.len\(\) \+ (\w+)\.len\(\)\);\s*buffer\.push_str\(&(\w+)\);\s*buffer\.push_str\(&(\w+)\);',
                                rep=r'let buffer = verif_concat(\3, \4);', regex=True, count=1)),
  ],
  assumption_ids=['A-fiber', 'A-heap', 'A-float'],
  # every handler under contract also carries C16: internal_error requires false, unchecked stack access has a depth precondition
  extra_tags={'Vm::*': ['C16']},
)
