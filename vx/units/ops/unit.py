_A = ['op_literal', 'op_drop', 'op_drop_n', 'op_dup', 'op_loop', 'op_jump_if_false', 'op_jump', 'op_negate', 'op_not',
      'op_add', 'op_sub', 'op_mul', 'op_div', 'op_and', 'op_or', 'op_less', 'op_less_equal', 'op_greater', 'op_greater_equal',
      'op_equal', 'op_not_equal', 'op_constant', 'op_constant_long']

UNIT = dict(
  name='ops',
  properties=['C01', 'C16', 'C06'],
  shared=[],
  items=[
    ('laythe_core/src/object/mod.rs', ['enum ObjectKind']),
    ('laythe_core/src/utils.rs', ['fn is_falsey']),
    ('laythe_vm/src/vm/mod.rs', ['enum ExecutionSignal']),
    ('laythe_vm/src/vm/ops.rs', [('impl Vm', _A)]),
  ],
  rewrites=[
    ('R11', 'enum ObjectKind', dict(drop=['Debug', 'Hash'], add=['Structural'])),
    ('R11', 'enum ExecutionSignal', dict(drop=['Debug'], add=['Structural'])),
    ('R7', 'enum ExecutionSignal', dict(pat='enum ExecutionSignal', rep='pub enum ExecutionSignal', count=1)),
    ('R7', 'Vm::*', dict(pat='pub(super) unsafe fn', rep='pub unsafe fn', count=1)),
    # R14: float operators, string content comparison and Value equality routed through named stubs (generic, order-preserving)
    ('R14', 'Vm::*'),
    # the String::with_capacity + push_str + push_str concatenation buffer (str byte reasoning unsupported)
    ('R14b', 'Vm::op_add', dict(pat=r'let mut buffer = String::with_capacity\((\w+)\.len\(\) \+ (\w+)\.len\(\)\);\s*buffer\.push_str\(&(\w+)\);\s*buffer\.push_str\(&(\w+)\);',
                                rep=r'let buffer = verif_concat(\3, \4);', regex=True, count=1)),
  ],
  assumption_ids=['A-fiber', 'A-heap', 'A-float'],
)
