// the call dispatcher as the property/invoke handlers see it: a recording stub.  The real resolve_call is verified in the
// `calls` unit against the dispatch contract (C16).
impl Vm {
  /// dispatch a call on `callee` with `arg_count` arguments on the stack (its own contract: stage E / C16)
  #[verifier::external_body]
  pub fn resolve_call(&mut self, callee: Value, arg_count: u8) -> (r: ExecutionSignal)
    ensures final(self).called@ == Some((callee, arg_count, old(self).fiber.stack@)),
            final(self).cache == old(self).cache, final(self).heap == old(self).heap, final(self).raised == old(self).raised,
            final(self).constants == old(self).constants, final(self).builtin == old(self).builtin
  { ExecutionSignal::Ok }

}
