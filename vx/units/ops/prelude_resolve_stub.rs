pub uninterp spec fn is_builtin_error_class(callee: Value) -> bool;
// the call dispatcher as the property/invoke handlers see it: a recording stub.  The real resolve_call is verified in the
// `calls` unit against the dispatch contract (C16).
impl Vm {
  /// dispatch a call on `callee` with `arg_count` arguments on the stack (its own contract: stage E / C16)
  #[verifier::external_body]
  pub fn resolve_call(&mut self, callee: Value, arg_count: u8) -> (r: ExecutionSignal)
    ensures final(self).called@ == Some((callee, arg_count, old(self).fiber.stack@)),
            final(self).cache == old(self).cache, final(self).heap == old(self).heap, final(self).raised == old(self).raised,
            final(self).constants == old(self).constants, final(self).builtin == old(self).builtin, final(self).nested == old(self).nested,
            // a callee that completes at once (a native) leaves its result on the stack
            r == ExecutionSignal::OkReturn ==> final(self).fiber.stack@.len() > 0,
            // the signals a call can end with (proved for the real resolve_call / call_native / call / call_closure in the calls and ncall units)
            r == ExecutionSignal::Ok || r == ExecutionSignal::OkReturn || r == ExecutionSignal::RuntimeError || r == ExecutionSignal::Exit,
            // A-hist: a runtime error signal means the error object is in flight (runtime_error -> set_error; the ops model records only its class)
            r == ExecutionSignal::RuntimeError ==> final(self).fiber.error is Some,
            // A-errctor: calling one of the builtin error classes with a message completes (their init is native)
            is_builtin_error_class(callee) ==> (r == ExecutionSignal::Ok || r == ExecutionSignal::OkReturn),
            (is_builtin_error_class(callee) && r == ExecutionSignal::OkReturn) ==> (v_is_obj(final(self).fiber.stack@.last()) && o_kind(v_obj(final(self).fiber.stack@.last())) == ObjectKind::Instance),
            // the call protocol (call_class / call_native / call / call_closure: calls, ncall units): the callee slot and the arguments are the
            // top arg_count + 1 slots; a callee that completes at once replaces them by its result, one that needs the interpreter loop gets a
            // frame that remembers arg_count and leaves the stack as it is; nothing BELOW the callee slot is touched
            (r == ExecutionSignal::OkReturn && old(self).fiber.stack@.len() >= arg_count as int + 1) ==> final(self).fiber.stack@.len() == old(self).fiber.stack@.len() - arg_count as int
              && final(self).fiber.stack@.subrange(0, old(self).fiber.stack@.len() - (arg_count as int + 1)) == old(self).fiber.stack@.subrange(0, old(self).fiber.stack@.len() - (arg_count as int + 1))
              && final(self).fiber.frames == old(self).fiber.frames,
            r == ExecutionSignal::Ok ==> final(self).fiber.frames@.len() == old(self).fiber.frames@.len() + 1 && final(self).fiber.frames@.last().arg_count == arg_count
              && final(self).fiber.stack@.len() == old(self).fiber.stack@.len()
              && (old(self).fiber.stack@.len() >= arg_count as int + 1 ==> final(self).fiber.stack@.subrange(0, old(self).fiber.stack@.len() - (arg_count as int + 1)) == old(self).fiber.stack@.subrange(0, old(self).fiber.stack@.len() - (arg_count as int + 1)))
  { ExecutionSignal::Ok }

}
