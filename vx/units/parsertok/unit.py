"""C01 / C15 (the token primitives every parse function stands on): Parser::{advance, check, match_kind, consume}, extracted as they are, over
the real enum TokenKind.  advance makes the current token the previous one and the scanner's next token the current one, and is a diagnostic
when that token is an error token; check compares the CURRENT token's kind; match_kind consumes the current token exactly when it is of the
kind asked for and leaves everything as it is otherwise; consume demands the kind: the token is consumed or it is a diagnostic and nothing
moves.  These are the statements the stubs of the other parser units use.  The scanner is a stub delivering a ghost token stream."""
UNIT = dict(
  name='parsertok',
  properties=['C01', 'C15'],
  items=[
    ('laythe_vm/src/compiler/ir/token.rs', ['enum TokenKind']),
    ('laythe_vm/src/compiler/parser.rs', [("impl<'a> Parser<'a>", ['advance', 'check', 'match_kind', 'consume'])]),
  ],
  rewrites=[
    ('R11', 'enum TokenKind', dict(drop=['Debug', 'Hash', 'VariantCount'], add=['Structural'])),
    ('R5', 'kind:implhdr', dict(pat="impl<'a> Parser<'a> {", rep='impl Parser {', count=1)),
    ('R5', 'Parser::*', dict(pat=r"<'a>", rep='', regex=True, optional=True)),
    ('R7', 'Parser::*', dict(pat=r'^(\s*(?:///?[^\n]*\n\s*)*(?:#\[inline\]\s*)?)fn ', rep=r'\1pub fn ', regex=True, optional=True)),
    ('R6', 'Parser::advance', dict(pat='mem::replace(&mut self.current, self.scanner.scan_token())', rep='self.verif_replace_current()', count=1)),
  ],
  assumption_ids=['A-parser', 'A-scanner'],
)
