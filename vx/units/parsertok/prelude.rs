// ---- trusted model: tokens by kind and identity; the scanner a ghost stream (A-scanner) ---------------------------------------------------------------
pub struct Diag { }
pub type ParseResult<T> = Result<T, Diag>;
#[derive(Clone, Copy)]
pub struct Token { pub k: TokenKind, pub id: int }
impl Token {
  pub fn kind(&self) -> (r: TokenKind) ensures r == self.k { self.k }
  pub fn clone(&self) -> (r: Token) ensures r == *self { *self }
  #[verifier::external_body] pub fn str(&self) -> (r: &str) { "" }
}
pub struct Parser {
  pub previous: Token,
  pub current: Token,
  /// ghost: the tokens the scanner has still to deliver
  pub rest: Ghost<Seq<Token>>,
  pub errors: Ghost<nat>,
}
impl Parser {
  /// mem::replace(&mut self.current, self.scanner.scan_token()): the scanner's next token becomes current, the old current one is answered
  #[verifier::external_body] pub fn verif_replace_current(&mut self) -> (r: Token)
    requires old(self).rest@.len() > 0,
    ensures r == old(self).current, final(self).current == old(self).rest@[0], final(self).rest@ == old(self).rest@.subrange(1, old(self).rest@.len() as int),
      final(self).previous == old(self).previous, final(self).errors == old(self).errors { unimplemented!() }
  #[verifier::external_body] pub fn error_current<T>(&mut self, message: &str) -> (r: ParseResult<T>)
    ensures r is Err, final(self).previous == old(self).previous, final(self).current == old(self).current, final(self).rest == old(self).rest, final(self).errors@ == old(self).errors@ + 1 { unimplemented!() }
}
