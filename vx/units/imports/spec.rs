pub open spec fn is_kind(v: Value, k: ObjectKind) -> bool { v_is_obj(v) && o_kind(v_obj(v)) == k }
