// ---- additional trusted model for the import / export instructions (imports unit) -------------------------------------
/// Ref<Module>: identity is the module
#[derive(Clone, Copy, PartialEq, Eq, Structural)]
pub struct ModRef { pub p: usize }
#[derive(Clone, Copy, PartialEq, Eq, Structural)]
pub struct ImportRef { pub p: usize }      // Ref<Import>
#[derive(Clone, Copy, PartialEq, Eq, Structural)]
pub struct FiberRef { pub p: usize }       // Ref<Fiber>
#[derive(Clone, Copy, PartialEq, Eq, Structural)]
pub struct ListRef { pub p: usize }        // List (the constant holding the import path)
/// Vec<LyStr>: the path segments
pub struct PathSegs { pub p: usize }
impl PathSegs { #[verifier::external_body] pub fn verif_as_slice(&self) -> (r: &PathSegs) ensures *r == *self { self } }

/// what Module::get_exported_symbol_by_name answers NOW (its contract — Some(v) iff the name is exported, v the symbol's current
/// value — is VERIFIED in the module unit); get_symbol_by_name is the unfiltered lookup
pub uninterp spec fn mod_exported(m: ModRef, name: LyStr) -> Option<Value>;
pub uninterp spec fn mod_symbol(m: ModRef, name: LyStr) -> Option<Value>;
pub uninterp spec fn mod_instance(m: ModRef) -> InstRef;
pub uninterp spec fn export_answer(m: ModRef, name: LyStr) -> Result<(), SymbolExportError>;
impl ModRef {
  #[verifier::external_body] pub fn get_exported_symbol_by_name(&self, name: LyStr) -> (r: Option<Value>) ensures r == mod_exported(*self, name) { None }
  #[verifier::external_body] pub fn get_symbol_by_name(&self, name: LyStr) -> (r: Option<Value>) ensures r == mod_symbol(*self, name) { None }
  #[verifier::external_body] pub fn module_instance(&self, hooks: &GcHooks) -> (r: InstRef) ensures r == mod_instance(*self) { InstRef { p: 0 } }
  #[verifier::external_body] pub fn name(&self) -> (r: LyStr) { LyStr { p: 0 } }
  #[verifier::external_body] pub fn export_symbol(&mut self, name: LyStr) -> (r: Result<(), SymbolExportError>) ensures r == export_answer(*old(self), name), *final(self) == *old(self) { Ok(()) }
}
impl ObjectRef { #[verifier::external_body] pub fn to_list(&self) -> (r: ListRef) requires o_kind(*self) == ObjectKind::List ensures r == o_list(*self) { ListRef { p: 0 } } }
pub uninterp spec fn o_list(o: ObjectRef) -> ListRef;
pub uninterp spec fn segs_of(l: ListRef) -> PathSegs;
pub uninterp spec fn resolved_of(s: PathSegs) -> LyStr;
pub uninterp spec fn import_of(s: PathSegs) -> ImportRef;
/// what import_module answers for this import at the moment the handler runs (source_loader.rs; NOT under contract)
pub uninterp spec fn import_answer(i: ImportRef) -> ImportResult;

impl Vm {
  #[verifier::external_body] pub fn extract_import_path(&mut self, path: ListRef) -> (r: PathSegs) ensures r == segs_of(path), *final(self) == *old(self) { PathSegs { p: 0 } }
  #[verifier::external_body] pub fn full_import_path(&mut self, segs: &PathSegs) -> (r: LyStr) ensures r == resolved_of(*segs), *final(self) == *old(self) { LyStr { p: 0 } }
  #[verifier::external_body] pub fn build_import(&mut self, segs: &PathSegs) -> (r: ImportRef) ensures r == import_of(*segs), *final(self) == *old(self) { ImportRef { p: 0 } }
  #[verifier::external_body] pub fn import_module(&mut self, import: ImportRef) -> (r: ImportResult)
    ensures r == import_answer(import), final(self).fiber == old(self).fiber, final(self).ip == old(self).ip, final(self).raised == old(self).raised,
            aux_same(old(self), final(self)), final(self).builtin == old(self).builtin, final(self).constants == old(self).constants
  { ImportResult::NotFound }
  #[verifier::external_body] pub fn push_root<T>(&self, x: T) { }
  #[verifier::external_body] pub fn pop_roots(&self, n: usize) { }
  #[verifier::external_body] pub fn verif_create_fiber(&mut self, fun: FunRef) -> (r: FiberRef)
    ensures fiber_fun(r) == fun, final(self).fiber == old(self).fiber, final(self).ip == old(self).ip, final(self).raised == old(self).raised, aux_same(old(self), final(self)), final(self).builtin == old(self).builtin
  { FiberRef { p: 0 } }
  #[verifier::external_body] pub fn verif_queue_fiber(&mut self, f: FiberRef)
    ensures final(self).spawned@ == old(self).spawned@.push(fiber_fun(f)), final(self).fiber == old(self).fiber, final(self).ip == old(self).ip, final(self).raised == old(self).raised,
            final(self).module_cache == old(self).module_cache, final(self).ran == old(self).ran, final(self).builtin == old(self).builtin
  { }
  /// the module cache (R9: a field of the real Vm)
  #[verifier::external_body] pub fn verif_cache_get(&self, k: &LyStr) -> (r: Option<ModRef>)
    ensures (r is Some) == self.module_cache@.dom().contains(*k), r is Some ==> r->0.p == self.module_cache@[*k] { None }
  #[verifier::external_body] pub fn verif_cache_insert(&mut self, k: LyStr, v: ModRef)
    ensures final(self).module_cache@ == old(self).module_cache@.insert(k, v.p), final(self).fiber == old(self).fiber, final(self).ip == old(self).ip, final(self).raised == old(self).raised,
            final(self).spawned == old(self).spawned, final(self).ran == old(self).ran, final(self).builtin == old(self).builtin
  { }
  #[verifier::external_body] pub fn verif_current_module(&self) -> (r: ModRef) ensures r == current_module_of() { ModRef { p: 0 } }
}
pub uninterp spec fn fiber_fun(f: FiberRef) -> FunRef;
/// the module of the function being executed (fixed during one handler)
pub uninterp spec fn current_module_of() -> ModRef;
