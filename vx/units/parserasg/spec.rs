/// the compound operator a token spells
pub open spec fn spec_asg_op(k: TokenKind) -> Option<AssignBinaryOp> {
  match k {
    TokenKind::PlusEqual => Some(AssignBinaryOp::Add), TokenKind::MinusEqual => Some(AssignBinaryOp::Sub),
    TokenKind::StarEqual => Some(AssignBinaryOp::Mul), TokenKind::SlashEqual => Some(AssignBinaryOp::Div), _ => None,
  }
}
