// ---- trusted model of the parser around assign (A-parser) ----------------------------------------------------------------------------------------------
pub struct Diag { }
pub type ParseResult<T> = Result<T, Diag>;
#[derive(Clone, Copy, PartialEq, Eq, Structural)]
pub enum TokenKind { Equal, LeftArrow, PlusEqual, MinusEqual, StarEqual, SlashEqual, Other }
#[derive(Clone, Copy)]
pub struct Token { pub k: TokenKind }
impl Token { pub fn kind(&self) -> (r: TokenKind) ensures r == self.k { self.k } }
pub struct Atom { pub id: u64 }
pub enum Expr { Leaf(u64), Assign(Box<Assign>), Send(Box<Send>), AssignBinary(Box<AssignBinary>), Atom(Box<Atom>) }
pub struct Parser {
  pub previous: Token,
  pub current: Token,
  /// ghost: the expressions parsed, in order, and the number of tokens stepped over
  pub exprs: Ghost<Seq<Expr>>,
  pub advances: Ghost<nat>,
}
impl Parser {
  #[verifier::external_body] pub fn advance(&mut self) -> (r: ParseResult<()>)
    ensures final(self).exprs == old(self).exprs, r is Ok ==> final(self).advances@ == old(self).advances@ + 1 { unimplemented!() }
  #[verifier::external_body] pub fn expr(&mut self) -> (r: ParseResult<Expr>)
    ensures final(self).advances == old(self).advances, r matches Ok(e) ==> final(self).exprs@ == old(self).exprs@.push(e) { unimplemented!() }
  #[verifier::external_body] pub fn node<T>(&self, t: T) -> (r: Box<T>) ensures *r == t { unimplemented!() }
}
