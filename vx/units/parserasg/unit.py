"""C01 (assignment as an expression, compound assignment): Parser::assign, extracted as it is, with the real AssignBinaryOp and the real node
constructors.  After an assignable target, `=` builds Assign(target, e), `<-` Send(target, e), `+=` `-=` `*=` `/=` AssignBinary(target, Add / Sub /
Mul / Div, e) where e is the whole expression parsed after the operator (assignment is right associative); any other token leaves the target
as it is.  advance / expr / node are stubs."""
UNIT = dict(
  name='parserasg',
  properties=['C01'],
  items=[
    ('laythe_vm/src/compiler/ir/ast.rs', ['enum AssignBinaryOp', 'struct Assign', 'struct Send', 'struct AssignBinary',
      ("impl<'a> Assign<'a>", ['new']), ("impl<'a> Send<'a>", ['new']), ("impl<'a> AssignBinary<'a>", ['new'])]),
    ('laythe_vm/src/compiler/parser.rs', [("impl<'a> Parser<'a>", ['assign'])]),
  ],
  rewrites=[
    ('R5', 'kind:implhdr', dict(pat=r"impl<'a> (\w+)<'a> \{", rep=r'impl \1 {', regex=True, optional=True)),
    ('R5', '*', dict(pat=r"<'a>", rep='', regex=True, optional=True)),
    ('R7', 'Parser::*', dict(pat=r'^(\s*(?:///?[^\n]*\n\s*)*)fn ', rep=r'\1pub fn ', regex=True, optional=True)),
    # R4: `self.advance().and_then(|()| self.expr()).map(|rhs| BODY)` (closures over self) -> nested match, BODY copied unchanged
    ('R4', 'Parser::assign', dict(pat=r'(?s)self\s*\.advance\(\)\s*\.and_then\(\|\(\)\| self\.expr\(\)\)\s*\.map\(\|rhs\| (.*?)\),\n',
      rep=r'match self.advance() { Ok(()) => match self.expr() { Ok(rhs) => Ok(\1), Err(verif_e) => Err(verif_e) }, Err(verif_e) => Err(verif_e) },\n', regex=True, min=1)),
  ],
  assumption_ids=['A-parser'],
)
