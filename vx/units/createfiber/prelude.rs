// ---- trusted model (A-fiber) ------------------------------------------------------------------------------------------------------------------------------
#[derive(Clone, Copy)] pub struct FunRef { pub id: int }
#[derive(Clone, Copy)] pub struct FiberRef { pub id: int }
pub struct FiberObj { pub id: int }
pub uninterp spec fn fun_max_slots(f: FunRef) -> usize;
impl FunRef { #[verifier::external_body] pub fn max_slots(&self) -> (r: usize) ensures r == fun_max_slots(*self) { unimplemented!() } }
pub enum Ev { PushRoot(FunRef), PopRoots(usize), New(Option<FiberRef>, FunRef, usize, int), Manage(int), SetWaiter(FiberRef) }
pub struct Vm { pub log: Ghost<Seq<Ev>>, pub fresh: Ghost<int> }
impl Vm {
  #[verifier::external_body] pub fn verif_push_root(&mut self, f: FunRef) ensures final(self).log@ == old(self).log@.push(Ev::PushRoot(f)), final(self).fresh == old(self).fresh { }
  #[verifier::external_body] pub fn verif_pop_roots(&mut self, n: usize) ensures final(self).log@ == old(self).log@.push(Ev::PopRoots(n)), final(self).fresh == old(self).fresh { }
  /// Fiber::new(vm, parent, fun, capture_stub, stack_count): may allocate (and so collect)
  #[verifier::external_body] pub fn verif_fiber_new(&mut self, parent: Option<FiberRef>, fun: FunRef, stack_count: usize) -> (r: FiberObj)
    ensures r.id == old(self).fresh@, final(self).fresh@ == old(self).fresh@ + 1, final(self).log@ == old(self).log@.push(Ev::New(parent, fun, stack_count, r.id)) { unimplemented!() }
  #[verifier::external_body] pub fn verif_manage(&mut self, f: FiberObj) -> (r: FiberRef)
    ensures r.id == f.id, final(self).fresh == old(self).fresh, final(self).log@ == old(self).log@.push(Ev::Manage(f.id)) { unimplemented!() }
  #[verifier::external_body] pub fn verif_set_waiter(&mut self, f: FiberRef) ensures final(self).log@ == old(self).log@.push(Ev::SetWaiter(f)), final(self).fresh == old(self).fresh { }
}
