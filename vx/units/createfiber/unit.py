"""C07 / C20 / C05 (creating a fiber): Vm::create_fiber (vm/basic.rs), extracted as it is.  The function is a temporary GC root exactly while
the fiber object is built (pushed before, popped after: the temporary-root stack is back at its height), the fiber gets the function's
max_slots + 1 slots (the callee slot and everything the function needs: C06), is handed to the collector, and its own channel waiter is pointed
back at it (what queue_blocked_fiber relies on: basicvm unit).  Fiber::new (its stack-building statements: fiberstack unit), manage and the
waiter are stubs that log."""
UNIT = dict(
  name='createfiber',
  properties=['C07', 'C20', 'C05'],
  items=[('laythe_vm/src/vm/basic.rs', [('impl Vm', ['create_fiber'])])],
  rewrites=[
    ('R7', 'Vm::create_fiber', dict(pat=r'pub\(super\) fn', rep='pub fn', regex=True, count=1)),
    ('R6', 'Vm::create_fiber', dict(pat='ObjRef<Fun>', rep='FunRef', count=1)),
    ('R6', 'Vm::create_fiber', dict(pat='Option<Ref<Fiber>>', rep='Option<FiberRef>', count=1)),
    ('R6', 'Vm::create_fiber', dict(pat='-> Ref<Fiber>', rep='-> FiberRef', count=1)),
    # the GC context argument of Fiber::new is dropped (the stub needs none); the waiter is reached through the vm (GC pointers)
    ('R6', 'Vm::create_fiber', dict(pat='Fiber::new(self, parent, fun, self.capture_stub, ', rep='self.verif_fiber_new(parent, fun, ', count=1)),
    ('R16', 'Vm::create_fiber', dict(pat=r'let mut waiter = fiber\.waiter\(\);\s*waiter\.set_waiter\(fiber\);', rep='self.verif_set_waiter(fiber);', regex=True, count=1)),
    # push_root / pop_roots / manage go through a RefCell (`&self`): the model's take `&mut self` so that they can log
    ('R16', 'Vm::create_fiber', dict(pat='self.push_root(fun);', rep='self.verif_push_root(fun);', count=1)),
    ('R16', 'Vm::create_fiber', dict(pat=r'self\.pop_roots\((\d+)\);', rep=r'self.verif_pop_roots(\1);', regex=True, count=1)),
    ('R16', 'Vm::create_fiber', dict(pat='self.manage(fiber)', rep='self.verif_manage(fiber)', count=1)),
  ],
  assumption_ids=['A-fiber'],
)
