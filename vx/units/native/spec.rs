/// the number of arguments fits the declared arity
pub open spec fn count_ok(a: Arity, n: int) -> bool {
  match a {
    Arity::Fixed(k) => n == k as int,
    Arity::Variadic(k) => n >= k as int,
    Arity::Default(lo, hi) => lo as int <= n <= hi as int,
  }
}

/// the declared parameter that governs argument i (the variadic tail shares the last declared parameter)
pub open spec fn param_for(a: Arity, ps: Seq<Parameter>, i: int) -> Parameter {
  match a { Arity::Variadic(k) => if i >= k as int { ps[k as int] } else { ps[i] }, _ => ps[i] }
}

/// A-sig: what NativeMetaBuilder constructs — one declared parameter per positional argument (the receiver of a method
/// included), plus the variadic one
pub open spec fn sig_wf(s: &NativeSignature) -> bool {
  match s.arity {
    Arity::Fixed(k) => s.parameters@.len() == k as int,
    Arity::Variadic(k) => s.parameters@.len() == k as int + 1,
    Arity::Default(lo, hi) => lo <= hi && s.parameters@.len() == hi as int,
  }
}

/// C16/C11: exactly the calls the declared signature admits
pub open spec fn call_ok(s: &NativeSignature, args: Seq<Value>) -> bool {
  count_ok(s.arity, args.len() as int)
    && forall|i: int| 0 <= i < args.len() ==> kind_valid(#[trigger] param_for(s.arity, s.parameters@, i).kind, args[i])
}
