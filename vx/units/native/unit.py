UNIT = dict(
  name='native',
  properties=['C16', 'C11', 'C01'],
  items=[
    ('laythe_core/src/signature.rs', ['enum Arity', 'enum ArityError', 'type ArityResult', ('impl Arity', ['check']),
                                      'struct Parameter', 'enum ParameterKind']),
    ('laythe_core/src/object/native.rs', [('impl Native', ['check_if_valid_call', 'real_arg_count'])]),
    ('laythe_core/src/object/fun.rs', [('impl Fun', ['check_if_valid_call'])]),
  ],
  rewrites=[
    ('R11', 'enum Arity', dict(drop=['Debug'], add=['Structural'])),
    ('R11', 'enum ArityError', dict(drop=['Debug'], add=['Structural'])),
    ('R11', 'struct Parameter', dict(drop=['Debug'])),
    ('R11', 'enum ParameterKind', dict(drop=['Debug'], add=['Structural'])),
    ('R8', 'Native::*'), ('R8', 'Fun::*'),
    # the error string is built by a caller-supplied closure that allocates; its text is not verified (R8): R6 drops the
    # closure parameter and routes the Err payload through an opaque stub
    ('R6', 'Native::check_if_valid_call', dict(pat="check_if_valid_call<'a, F: FnOnce() -> GcHooks<'a>>(&self, hooks_gen: F, ", rep='check_if_valid_call(&self, ', count=1)),
    ('R6', 'Fun::check_if_valid_call', dict(pat="check_if_valid_call<'a, F: FnOnce() -> GcHooks<'a>>(&self, hooks_gen: F, ", rep='check_if_valid_call(&self, ', count=1)),
    ('R6', 'Native::check_if_valid_call', dict(pat=r'hooks_gen\(\)\.manage_str\((?:verif_fmt\(\)|"todo")\)', rep='verif_err()', regex=True, min=1)),
    ('R6', 'Fun::check_if_valid_call', dict(pat=r'hooks_gen\(\)\.manage_str\(verif_fmt\(\)\)', rep='verif_err()', regex=True, min=1)),
    ('R6', 'Native::check_if_valid_call', dict(pat='&*self.meta.signature.parameters', rep='self.meta.signature.parameters.as_slice()', count=1)),
    ('R13i', 'Native::check_if_valid_call'),
    ('R7', 'Native::real_arg_count', dict(pat='fn real_arg_count', rep='pub fn real_arg_count', count=1)),
  ],
)
