// ---- trusted model for the native signature gate (A-heap, A-sig) -----------------------------------------------
#[verifier::external_body]
#[derive(Clone, Copy)]
pub struct Value { bits: u64 }

#[verifier::external_body]
#[derive(Clone, Copy)]
pub struct LyStr { p: usize }

/// does a value satisfy a declared parameter kind (ParameterKind::is_valid; its real body is verified against the table of admitted values in the sigkind unit)
pub uninterp spec fn kind_valid(k: ParameterKind, v: Value) -> bool;
impl ParameterKind {
  #[verifier::external_body] pub fn is_valid(&self, value: Value) -> (r: bool) ensures r == kind_valid(*self, value) { true }
}

/// the opaque error string (R8)
#[verifier::external_body] pub fn verif_err() -> LyStr { LyStr { p: 0 } }

/// projection of laythe_core::object::Native / NativeMeta / NativeSignature to what the gate reads
pub struct NativeSignature { pub arity: Arity, pub parameters: Vec<Parameter> }
pub struct NativeMeta { pub signature: NativeSignature, pub is_method: bool }
pub struct Native { pub meta: NativeMeta }
impl Native {
  pub fn is_method(&self) -> (r: bool) ensures r == self.meta.is_method { self.meta.is_method }
  #[verifier::external_body] pub fn name(&self) -> LyStr { LyStr { p: 0 } }
}
/// projection of laythe_core::object::Fun
pub struct Fun { pub arity: Arity }
impl Fun { #[verifier::external_body] pub fn name(&self) -> LyStr { LyStr { p: 0 } } }
