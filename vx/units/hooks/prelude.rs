// ---- additional trusted model for the native -> interpreter hooks (hooks unit) --------------------------------------------
pub type Call = Result<Value, LyError>;
/// what the nested interpreter loop answers (Vm::execute with the given mode; NOT under contract)
pub uninterp spec fn execute_answer(vm: &Vm) -> ExecutionResult;
impl Fiber {
  /// real: grows the value stack so that `additional` more slots fit (may move it; raw pointers are rebased)
  #[verifier::external_body] pub fn ensure_stack(&mut self, additional: usize) ensures *final(self) == *old(self) { }
}
impl Vm {
  /// the nested interpreter loop. `mode` is recorded: it is the unwinding boundary of this run (Fiber::stack_unwind's bottom_frame)
  #[verifier::external_body]
  pub fn execute(&mut self, mode: ExecutionMode) -> (r: ExecutionResult)
    ensures final(self).nested@ == old(self).nested@.push(mode_depth(mode)), final(self).builtin == old(self).builtin,
            // A-hist: the loop only answers RuntimeError after set_error; it never compiles
            r is RuntimeError ==> final(self).fiber.error is Some, !(r is CompileError)
  { ExecutionResult::RuntimeError }
}
pub open spec fn mode_depth(m: ExecutionMode) -> Option<int> { match m { ExecutionMode::Normal => None, ExecutionMode::CallingNativeCode(d) => Some(d as int) } }
