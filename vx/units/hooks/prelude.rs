// ---- additional trusted model for the native -> interpreter hooks (hooks unit) --------------------------------------------
pub type Call = Result<Value, LyError>;
/// what the nested interpreter loop answers (Vm::execute with the given mode; NOT under contract)
pub uninterp spec fn execute_answer(vm: &Vm) -> ExecutionResult;
impl Fiber {
  /// real: grows the value stack so that `additional` more slots fit (may move it; raw pointers are rebased)
  #[verifier::external_body] pub fn ensure_stack(&mut self, additional: usize) ensures *final(self) == *old(self) { }
}
impl Vm {
  /// the nested interpreter loop. `mode` is recorded: it is the unwinding boundary of this run (Fiber::stack_unwind's bottom_frame)
  #[verifier::external_body]
  pub fn execute(&mut self, mode: ExecutionMode) -> (r: ExecutionResult)
    ensures final(self).nested@ == old(self).nested@.push(mode_depth(mode)), final(self).builtin == old(self).builtin,
            // A-hist: the loop only answers RuntimeError after set_error; it never compiles
            r is RuntimeError ==> final(self).fiber.error is Some, !(r is CompileError),
            // A-errctor (see resolve_call): the nested run started for a builtin error constructor hands back the instance
            (old(self).called@ matches Some(c) && is_builtin_error_class(c.0)) ==> (r matches ExecutionResult::Ok(v) && v_is_obj(v) && o_kind(v_obj(v)) == ObjectKind::Instance),
            final(self).called == old(self).called,
            // call protocol: when the frame the run was started for returns, the frame's slots (callee + arguments, everything above) are gone and
            // the result is handed back; nothing below the callee slot was touched
            (r is Ok && old(self).fiber.frames@.len() > 0 && old(self).fiber.stack@.len() >= old(self).fiber.frames@.last().arg_count as int + 1) ==>
              final(self).fiber.stack@ == old(self).fiber.stack@.subrange(0, old(self).fiber.stack@.len() - (old(self).fiber.frames@.last().arg_count as int + 1))
  { ExecutionResult::RuntimeError }
}
pub open spec fn mode_depth(m: ExecutionMode) -> Option<int> { match m { ExecutionMode::Normal => None, ExecutionMode::CallingNativeCode(d) => Some(d as int) } }

impl Vm {
  /// manage_str(message) of an already managed string: interning returns the same string
  #[verifier::external_body]
  pub fn verif_reintern(&mut self, s: LyStr) -> (r: LyStr) ensures r == s, *final(self) == *old(self) { s }
}
