// ---- trusted model (A-compiler): every other compiler method is a stub that logs --------------------------------------------------------------
pub struct Node { pub id: int }
pub enum Decl { Symbol(Box<Node>), Export(Box<Node>), Stmt(Box<Node>), Error(Box<Node>) }
pub struct Block { pub decls: Vec<Decl> }
pub enum Which { Symbol, Export, Stmt, VisitError }
pub enum Ev { Ran(Which, int) }
pub struct Compiler { pub log: Ghost<Seq<Ev>> }
impl Compiler {
  #[verifier::external_body] pub fn symbol(&mut self, n: &Node) ensures final(self).log@ == old(self).log@.push(Ev::Ran(Which::Symbol, n.id)) { }
  #[verifier::external_body] pub fn export(&mut self, n: &Node) ensures final(self).log@ == old(self).log@.push(Ev::Ran(Which::Export, n.id)) { }
  #[verifier::external_body] pub fn stmt(&mut self, n: &Node) ensures final(self).log@ == old(self).log@.push(Ev::Ran(Which::Stmt, n.id)) { }
  #[verifier::external_body] pub fn visit_error(&mut self, n: &Node) ensures final(self).log@ == old(self).log@.push(Ev::Ran(Which::VisitError, n.id)) { }
}
pub open spec fn decl_ev(d: Decl) -> Ev {
  match d { Decl::Symbol(n) => Ev::Ran(Which::Symbol, n.id), Decl::Export(n) => Ev::Ran(Which::Export, n.id), Decl::Stmt(n) => Ev::Ran(Which::Stmt, n.id), Decl::Error(n) => Ev::Ran(Which::VisitError, n.id) }
}
pub open spec fn decls_evs(s: Seq<Decl>, n: int) -> Seq<Ev> { Seq::new(n as nat, |i: int| decl_ev(s[i])) }
