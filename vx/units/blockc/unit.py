"""C01 (statements run in the order they are written): Compiler::{block, decl}, extracted as they are.  A block compiles every one of its
declarations, each exactly once, in source order; a declaration is compiled by the method of its form.  symbol / export / stmt / visit_error are
stubs that log."""
UNIT = dict(
  name='blockc',
  properties=['C01'],
  items=[('laythe_vm/src/compiler/mod.rs', [("impl<'a, 'src: 'a> Compiler<'a, 'src>", ['block', 'decl'])])],
  rewrites=[
    ('R5', 'kind:implhdr', dict(pat=r"impl<'a, 'src: 'a> Compiler<'a, 'src> \{", rep='impl Compiler {', regex=True, optional=True)),
    ('R5', 'Compiler::*', dict(pat=r"&'a (?:ast::)?(\w+)<'src>", rep=r'&\1', regex=True, optional=True)),
    ('R7', 'Compiler::*', dict(pat=r'^(\s*(?:///?[^\n]*\n\s*)*)fn ', rep=r'\1pub fn ', regex=True, optional=True)),
    # R13: `for decl in &block.decls {` -> index loop (same order)
    ('R13', 'Compiler::block', dict(pat=r'for decl in &block\.decls \{', rep='let mut verif_i: usize = 0;\n    while verif_i < block.decls.len() {\n      let decl = &block.decls[verif_i];', regex=True, count=1)),
    ('R13', 'Compiler::block', dict(pat=r'(?s)(let decl = &block\.decls\[verif_i\];.*?)(\n    \})', rep=r'\1\n      verif_i += 1;\2', regex=True, count=1)),
  ],
  assumption_ids=['A-compiler'],
)
