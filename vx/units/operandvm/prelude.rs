// ---- trusted model: the instruction pointer as an offset into the chunk's bytes (A-fiber) -------------------------------------------------------------
pub struct Code { pub bytes: Ghost<Seq<u8>> }
#[derive(Clone, Copy)] pub struct Ip { pub at: isize }
impl Ip {
  /// <*const u8>::offset
  pub fn offset(self, n: isize) -> (r: Ip) requires isize::MIN <= self.at + n <= isize::MAX ensures r.at == self.at + n { Ip { at: self.at + n } }
}
/// the native-endian value of 2 / 4 bytes: what the encoder's to_ne_bytes writes (A-enc)
pub uninterp spec fn ne_u16(b: Seq<u8>) -> u16;
pub uninterp spec fn ne_u32(b: Seq<u8>) -> u32;
pub struct Bytes { pub b: Ghost<Seq<u8>> }
/// ptr::read(ip)
#[verifier::external_body] pub fn verif_read(code: &Code, ip: Ip) -> (r: u8) requires 0 <= ip.at < code.bytes@.len() ensures r == code.bytes@[ip.at as int] { unimplemented!() }
/// slice::from_raw_parts(ip, n) (+ try_into into [u8; n])
#[verifier::external_body] pub fn verif_bytes(code: &Code, ip: Ip, n: usize) -> (r: Bytes) requires 0 <= ip.at, ip.at + n <= code.bytes@.len() ensures r.b@ == code.bytes@.subrange(ip.at as int, ip.at + n) { unimplemented!() }
#[verifier::external_body] pub fn verif_u16_from_ne(b: Bytes) -> (r: u16) requires b.b@.len() == 2 ensures r == ne_u16(b.b@) { unimplemented!() }
#[verifier::external_body] pub fn verif_u32_from_ne(b: Bytes) -> (r: u32) requires b.b@.len() == 4 ensures r == ne_u32(b.b@) { unimplemented!() }
pub struct Vm { pub code: Code, pub ip: Ip }
