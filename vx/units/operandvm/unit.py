"""C06 / C01 (operands are read as the encoder wrote them): Vm::{read_byte, read_short, read_slot, update_ip} (vm/basic.rs), extracted as they
are.  The instruction pointer is a model (an offset into the byte sequence of the current chunk); ptr::read / slice::from_raw_parts + try_into /
from_ne_bytes become named operations on that sequence.  Contract: a read answers the bytes AT the instruction pointer — one, two (native-endian
u16) or four (native-endian u32), the widths the encoder writes (A-enc) — and advances the pointer by exactly that width, never reading past the
end of the chunk when the operand is inside it."""
UNIT = dict(
  name='operandvm',
  properties=['C06', 'C01'],
  items=[('laythe_vm/src/vm/basic.rs', [('impl Vm', ['update_ip', 'read_byte', 'read_short', 'read_slot'])])],
  rewrites=[
    ('R7', 'Vm::*', dict(pat=r'pub\(super\) unsafe fn', rep='pub fn', regex=True, count=1)),
    ('R7', 'Vm::*', dict(pat=r'\{ unsafe \{', rep='{ {', regex=True, count=1)),
    # raw pointer operations -> named operations on the byte sequence of the chunk (operands kept as written)
    ('R6', 'Vm::update_ip', dict(pat='self.ip.offset(offset)', rep='self.ip.offset(offset)', count=1)),
    ('R6', 'Vm::read_byte', dict(pat='ptr::read(self.ip)', rep='verif_read(&self.code, self.ip)', count=1)),
    ('R6', 'Vm::*', dict(pat=r'std::slice::from_raw_parts\(self\.ip, (\d+)\)', rep=r'verif_bytes(&self.code, self.ip, \1)', regex=True, optional=True)),
    ('R6', 'Vm::*', dict(pat=r'slice\.try_into\(\)\.expect\("[^"]*"\)', rep='slice', regex=True, optional=True)),
    ('R6', 'Vm::read_short', dict(pat='u16::from_ne_bytes(buffer)', rep='verif_u16_from_ne(buffer)', count=1)),
    ('R6', 'Vm::read_slot', dict(pat='u32::from_ne_bytes(buffer)', rep='verif_u32_from_ne(buffer)', count=1)),
  ],
  assumption_ids=['A-fiber', 'A-enc'],
)
