"""C02 / C15 (every syntactic form is resolved by the code for THAT form, none is skipped): the dispatchers Resolver::{stmt, expr}, extracted as
they are.  The AST enums are a model (each variant carries a node identity), the per-form methods are stubs that log their own name and node —
enums, stubs and the table are generated below.  break / continue have nothing to resolve; an expression statement and an implicit return
resolve their expression.  Of Resolver::atom the match over the primary form is taken (R18): a lambda, a grouping, a list / tuple / map literal, an
interpolated string, a channel and every kind of name are resolved; the five plain literals have nothing to resolve."""
FORMS = {
  'Expr': [('Assign', 'assign'), ('Send', 'send'), ('AssignBinary', 'assign_binary'), ('Ternary', 'ternary'), ('Binary', 'binary'), ('Unary', 'unary'), ('Atom', 'atom')],
  'Primary': [('Channel', 'channel'), ('Grouping', 'expr!'), ('Interpolation', 'interpolation'), ('Ident', 'identifier'), ('InstanceAccess', 'instance_access'),
              ('Self_', 'self_'), ('Super', 'super_'), ('Lambda', 'lambda'), ('List', 'collection'), ('Tuple', 'collection'), ('Map', 'map'),
              ('False', None), ('Nil', None), ('Number', None), ('String', None), ('True', None)],
  'Stmt': [('Expr', 'expr!'), ('ImplicitReturn', 'expr!'), ('Import', 'import'), ('For', 'for_'), ('If', 'if_'), ('Return', 'return_'), ('Launch', 'launch'),
           ('Raise', 'raise'), ('While', 'while_'), ('Try', 'try_'), ('Continue', None), ('Break', None)],
}
def _w(m): return 'Which::M' + ''.join(p.capitalize() for p in m.split('_') if p)

def generate(repo):
  methods = []
  for forms in FORMS.values():
    for _, m in forms:
      if m and m != 'expr!' and m not in methods: methods.append(m)
  which = 'pub enum Which { %s }\n' % ', '.join(_w(m)[7:] for m in methods)
  enums = ''
  for en, forms in FORMS.items():
    enums += 'pub enum %s { %s }\n' % (en, ', '.join('%s(Box<%s>)' % (v, 'Expr' if m == 'expr!' else 'Node') for v, m in forms))
  stubs = ''.join('  #[verifier::external_body] pub fn %s(&mut self, n: &mut Node) ensures final(self).log@ == old(self).log@.push(Ev::Ran(%s, old(n).id)), final(n).id == old(n).id { unimplemented!() }\n' % (m, _w(m)) for m in methods)
  prelude = ('pub struct Node { pub id: int }\n' + which + enums + 'pub enum Ev { Ran(Which, int) }\npub struct Resolver { pub log: Ghost<Seq<Ev>> }\nimpl Resolver {\n' + stubs + '}\n')
  def table(en):
    arms = []
    for v, m in FORMS[en]:
      if m is None: arms.append('%s::%s(_) => Seq::<Ev>::empty(),' % (en, v))
      elif m == 'expr!': arms.append('%s::%s(e) => expr_evs(*e),' % (en, v))
      else: arms.append('%s::%s(n) => seq![Ev::Ran(%s, n.id)],' % (en, v, _w(m)))
    return ' '.join(arms)
  spec = ('pub open spec fn expr_evs(e: Expr) -> Seq<Ev> { match e { %s } }\n' % table('Expr')
          + 'pub open spec fn stmt_evs(s: Stmt) -> Seq<Ev> { match s { %s } }\n' % table('Stmt')
          + 'pub open spec fn primary_evs(p: Primary) -> Seq<Ev> { match p { %s } }\n' % table('Primary'))
  return dict(prelude=prelude + spec, contracts='')

UNIT = dict(
  name='dispatchr',
  properties=['C02', 'C15'],
  items=[('laythe_vm/src/compiler/resolver.rs', [("impl<'a, 'src> Resolver<'a, 'src>", ['stmt', 'expr', 'atom'])])],
  rewrites=[
    ('R5', 'kind:implhdr', dict(pat=r"^impl<'a, 'src> Resolver<'a, 'src> \{", rep='impl Resolver {', regex=True, count=1)),
    ('R5', 'Resolver::*', dict(pat=r"<'src>", rep='', regex=True, optional=True)),
    ('R5', 'Resolver::*', dict(pat='ast::', rep='', optional=True)),
    ('R7', 'Resolver::*', dict(pat=r'^(\s*(?:///?[^\n]*\n\s*)*)fn ', rep=r'\1pub fn ', regex=True, optional=True)),
    # atom: only the match over the primary form is taken (R18); the walk over the trailers (split_first_mut) is dropped from this unit
    ('R18', 'Resolver::atom', dict(scrutinee=r'&mut atom\.primary', sig='pub fn verif_atom_primary(&mut self, verif_primary: &mut Primary)', var='verif_primary')),
  ],
  generate=generate,
  assumption_ids=['A-resolver'],
)
