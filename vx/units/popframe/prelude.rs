// ---- trusted model: frames as a vector, the current-frame pointer as an index (A-fiber) ------------------------------------------------------------------
#[derive(Clone, Copy)] pub struct FunRef { pub id: int }
#[derive(Clone, Copy)] pub struct Ptr { pub off: isize }
#[derive(Clone, Copy)] pub struct CallFrame { pub fun: FunRef, pub stack_start: Ptr }
impl CallFrame {
  pub fn fun(&self) -> (r: FunRef) ensures r == self.fun { self.fun }
  pub fn stack_start(&self) -> (r: Ptr) ensures r == self.stack_start { self.stack_start }
}
pub enum FiberPopResult { Ok(FunRef), Emptied, Empty }
/// a pointer into the frame vector: None is null
#[derive(Clone, Copy)] pub struct FramePtr { pub idx: Option<usize> }
impl FramePtr {
  pub fn null() -> (r: FramePtr) ensures r.idx is None { FramePtr { idx: None } }
  #[verifier::external_body] pub fn offset(self, n: isize) -> (r: FramePtr) requires self.idx is Some, 0 <= self.idx.unwrap() + n ensures r.idx == Some((self.idx.unwrap() + n) as usize) { unimplemented!() }
}
pub struct Frames { pub v: Vec<CallFrame> }
impl Frames {
  pub fn len(&self) -> (r: usize) ensures r == self.v@.len() { self.v.len() }
  pub fn pop(&mut self) -> (r: Option<CallFrame>) ensures old(self).v@.len() > 0 ==> final(self).v@ == old(self).v@.drop_last(), old(self).v@.len() == 0 ==> final(self).v@ == old(self).v@ { self.v.pop() }
}
pub struct Fiber { pub frames: Frames, pub frame: FramePtr, pub stack_top: Ptr }
/// the current-frame pointer points at the top frame
pub open spec fn frames_wf(f: &Fiber) -> bool { if f.frames.v@.len() == 0 { f.frame.idx is None } else { f.frame.idx == Some((f.frames.v@.len() - 1) as usize) } }
impl Fiber {
  /// `&*self.frame`
  #[verifier::external_body] pub fn frame(&self) -> (r: &CallFrame) requires self.frame.idx is Some, self.frame.idx.unwrap() < self.frames.v@.len() ensures *r == self.frames.v@[self.frame.idx.unwrap() as int] { unimplemented!() }
}
