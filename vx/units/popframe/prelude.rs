// ---- trusted model: frames as a vector, the current-frame pointer as an index (A-fiber) ------------------------------------------------------------------
#[derive(Clone, Copy)] pub struct FunRef { pub id: int }
pub uninterp spec fn fun_max_slots(f: FunRef) -> usize;
impl FunRef { #[verifier::external_body] pub fn max_slots(&self) -> (r: usize) ensures r == fun_max_slots(*self) { unimplemented!() } }
impl Ptr { #[verifier::external_body] pub fn sub(self, n: usize) -> (r: Ptr) requires isize::MIN <= self.off - n ensures r.off == self.off - n { unimplemented!() } }
#[derive(Clone, Copy)] pub struct Ptr { pub off: isize }
#[derive(Clone, Copy)] pub struct Captures { pub id: int }
#[derive(Clone, Copy)] pub struct CallFrame { pub fun: FunRef, pub captures: Captures, pub stack_start: Ptr }
impl CallFrame {
  pub fn new(fun: FunRef, captures: Captures, stack_start: Ptr) -> (r: CallFrame) ensures r.fun == fun, r.captures == captures, r.stack_start == stack_start { CallFrame { fun, captures, stack_start } }
  pub fn fun(&self) -> (r: FunRef) ensures r == self.fun { self.fun }
  pub fn stack_start(&self) -> (r: Ptr) ensures r == self.stack_start { self.stack_start }
}
pub enum FiberPopResult { Ok(FunRef), Emptied, Empty }
/// a pointer into the frame vector: None is null
#[derive(Clone, Copy)] pub struct FramePtr { pub idx: Option<usize> }
impl FramePtr {
  pub fn null() -> (r: FramePtr) ensures r.idx is None { FramePtr { idx: None } }
  #[verifier::external_body] pub fn add(self, n: usize) -> (r: FramePtr) requires self.idx is Some, self.idx.unwrap() + n <= usize::MAX ensures r.idx == Some((self.idx.unwrap() + n) as usize) { unimplemented!() }
  #[verifier::external_body] pub fn offset(self, n: isize) -> (r: FramePtr) requires self.idx is Some, 0 <= self.idx.unwrap() + n ensures r.idx == Some((self.idx.unwrap() + n) as usize) { unimplemented!() }
}
pub struct Frames { pub v: Vec<CallFrame> }
impl Frames {
  pub fn len(&self) -> (r: usize) ensures r == self.v@.len() { self.v.len() }
  pub fn push(&mut self, f: CallFrame) ensures final(self).v@ == old(self).v@.push(f) { self.v.push(f); }
  /// the pointer to the first frame
  #[verifier::external_body] pub fn as_mut_ptr(&mut self) -> (r: FramePtr) ensures r.idx == Some(0usize), final(self).v == old(self).v { unimplemented!() }
  pub fn pop(&mut self) -> (r: Option<CallFrame>) ensures old(self).v@.len() > 0 ==> final(self).v@ == old(self).v@.drop_last(), old(self).v@.len() == 0 ==> final(self).v@ == old(self).v@ { self.v.pop() }
}
pub struct Fiber { pub frames: Frames, pub frame: FramePtr, pub stack_top: Ptr, pub reserved: Ghost<int> }
/// the current-frame pointer points at the top frame
pub open spec fn frames_wf(f: &Fiber) -> bool { if f.frames.v@.len() == 0 { f.frame.idx is None } else { f.frame.idx == Some((f.frames.v@.len() - 1) as usize) } }
impl Fiber {
  /// `&*self.frame`
  #[verifier::external_body] pub fn frame(&self) -> (r: &CallFrame) requires self.frame.idx is Some, self.frame.idx.unwrap() < self.frames.v@.len() ensures *r == self.frames.v@[self.frame.idx.unwrap() as int] { unimplemented!() }
  /// room for `additional` more slots above the top; offsets into the stack keep their meaning (the real one relocates every pointer)
  #[verifier::external_body] pub fn ensure_stack(&mut self, additional: usize)
    ensures final(self).frames == old(self).frames, final(self).frame == old(self).frame, final(self).stack_top == old(self).stack_top,
      final(self).reserved@ >= old(self).stack_top.off + additional { unimplemented!() }
}
