"""C01 / C06 (returning from a function): Fiber::pop_frame (fiber/mod.rs), extracted as it is.  The frame vector is a model vector, the
`frame` pointer an index into it (None = null); `stack_top` is set to the slot where the returning frame STARTED — the callee slot, where the
caller expects the result (retops unit) —, the frame below becomes current and its function is answered; popping the last frame empties the
fiber; popping with no frame is reported, not a crash.  Fiber::push_frame is its inverse: the new frame starts at the callee slot — arg_count + 1 slots below the top —
after room for the callee's max_slots has been ensured, and becomes current."""
UNIT = dict(
  name='popframe',
  properties=['C01', 'C06'],
  items=[('laythe_vm/src/fiber/mod.rs', [('impl Fiber', ['pop_frame', 'push_frame'])])],
  rewrites=[
    ('R3d', 'Fiber::pop_frame', dict(pat=r'#\[cfg\(debug_assertions\)\]\s*self\.assert_frame_inbounds\(\);\s*', rep='', regex=True, optional=True)),
    ('R6', 'Fiber::pop_frame', dict(pat='ptr::null_mut()', rep='FramePtr::null()', count=1)),
    ('R7', 'Fiber::pop_frame', dict(pat=r'unsafe \{\s*(self\.frame = self\.frame\.offset\(-1\);)\s*\}', rep=r'\1', regex=True, count=1)),
    # push_frame: the allocator context is dropped from the signature and from the vector push (the model vector needs none)
    ('R6', 'Fiber::push_frame', dict(pat=r'pub fn push_frame<C: TraceRoot \+ GcContext>\(\s*&mut self,\s*context: &C,\s*fun: ObjRef<Fun>,\s*captures: Captures,\s*arg_count: usize,\s*\)', rep='pub fn push_frame(&mut self, fun: FunRef, captures: Captures, arg_count: usize)', regex=True, count=1)),
    ('R6', 'Fiber::push_frame', dict(pat=r'unsafe \{', rep='{', regex=True, count=1)),
    ('R6', 'Fiber::push_frame', dict(pat='self.ensure_stack(context, fun.max_slots());', rep='self.ensure_stack(fun.max_slots());', count=1)),
    ('R6', 'Fiber::push_frame', dict(pat=r'self\.frames\.push\(\s*context\.gc\(\),\s*context,\s*(CallFrame::new\(fun, captures, stack_start\)),\s*\);', rep=r'self.frames.push(\1);', regex=True, count=1)),
    ('R3d', 'Fiber::push_frame', dict(pat=r'#\[cfg\(debug_assertions\)\]\s*(?:assert_inbounds\(&self\.stack, stack_start\);|self\.assert_frame_inbounds\(\);)\s*', rep='', regex=True, optional=True)),
  ],
  assumption_ids=['A-fiber'],
)
