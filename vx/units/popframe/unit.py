"""C01 / C06 (returning from a function): Fiber::pop_frame (fiber/mod.rs), extracted as it is.  The frame vector is a model vector, the
`frame` pointer an index into it (None = null); `stack_top` is set to the slot where the returning frame STARTED — the callee slot, where the
caller expects the result (retops unit) —, the frame below becomes current and its function is answered; popping the last frame empties the
fiber; popping with no frame is reported, not a crash."""
UNIT = dict(
  name='popframe',
  properties=['C01', 'C06'],
  items=[('laythe_vm/src/fiber/mod.rs', [('impl Fiber', ['pop_frame'])])],
  rewrites=[
    ('R3d', 'Fiber::pop_frame', dict(pat=r'#\[cfg\(debug_assertions\)\]\s*self\.assert_frame_inbounds\(\);\s*', rep='', regex=True, optional=True)),
    ('R6', 'Fiber::pop_frame', dict(pat='ptr::null_mut()', rep='FramePtr::null()', count=1)),
    ('R7', 'Fiber::pop_frame', dict(pat=r'unsafe \{\s*(self\.frame = self\.frame\.offset\(-1\);)\s*\}', rep=r'\1', regex=True, count=1)),
  ],
  assumption_ids=['A-fiber'],
)
