UNIT = dict(
  name='intern',
  properties=['C09', 'C20'],
  items=[
    ('laythe_core/src/allocator.rs', [('impl Allocator', ['manage_str', 'has_str', 'sweep_intern_cache'])]),
  ],
  rewrites=[
    # R6: generic source / root-context parameters dropped (the context only matters if the allocation collects: C05)
    ('R6', 'Allocator::manage_str', dict(pat=r'pub fn manage_str<S, C>\(&mut self, src: S, context: &C\) -> LyStr\s*where\s*S: AsRef<str>,\s*C: TraceRoot \+ \?Sized,\s*\{',
                                         rep='pub fn manage_str(&mut self, src: StrArg) -> LyStr {', regex=True, count=1)),
    ('R6', 'Allocator::manage_str', dict(pat='self.allocate_obj(string, context)', rep='self.allocate_obj(string)', count=1)),
    # the key stored is a 'static view of the managed string's own bytes (raw pointer cast)
    ('R6', 'Allocator::manage_str', dict(pat="let static_str: &'static str = unsafe { &*(&*managed as *const str) };", rep='let static_str = verif_own_bytes(managed);', count=1)),
    ('R6', 'Allocator::has_str', dict(pat='pub fn has_str<S: AsRef<str>>(&self, src: S) -> Option<LyStr> {', rep='pub fn has_str(&self, src: StrArg) -> Option<LyStr> {', count=1)),
    # R4: retain with a closure -> the stub's retain_marked (keeps exactly the entries whose VALUE is marked)
    ('R4', 'Allocator::sweep_intern_cache', dict(pat='self.intern_cache.retain(|_, &mut string| string.marked());', rep='self.intern_cache.retain_marked();', count=1)),
    ('R7', 'Allocator::sweep_intern_cache', dict(pat='fn sweep_intern_cache', rep='pub fn sweep_intern_cache', count=1)),
  ],
)
