// ---- trusted model for the intern table (A-std: hashbrown HashMap<&'static str, LyStr> == mathematical map keyed by content) ----
/// an interned string object: identity
#[derive(Clone, Copy, PartialEq, Eq, Structural)]
pub struct LyStr { pub p: usize }
/// the characters of a managed string
pub uninterp spec fn content(s: LyStr) -> Seq<char>;
/// the mark bit of a managed string at the time of the sweep
pub uninterp spec fn marked(s: LyStr) -> bool;

/// a borrowed string argument (`S: AsRef<str>`)
#[verifier::external_body]
pub struct StrArg { p: usize }
/// a `&str` view
#[verifier::external_body]
#[derive(Clone, Copy)]
pub struct StrView { p: usize }
impl StrArg {
  pub uninterp spec fn chars(&self) -> Seq<char>;
  #[verifier::external_body] pub fn as_ref(&self) -> (r: StrView) ensures r.chars() == self.chars() { StrView { p: 0 } }
}
impl StrView { pub uninterp spec fn chars(&self) -> Seq<char>; }
/// `&*(&*managed as *const str)`: the managed string's own bytes as a key
#[verifier::external_body]
pub fn verif_own_bytes(s: LyStr) -> (r: StrView) ensures r.chars() == content(s) { StrView { p: 0 } }

#[verifier::external_body]
pub struct InternMap { p: usize }
impl InternMap {
  pub uninterp spec fn view(&self) -> Map<Seq<char>, LyStr>;
  #[verifier::external_body] pub fn get(&self, k: StrView) -> (r: Option<&LyStr>)
    ensures (r is Some) == self@.dom().contains(k.chars()), r is Some ==> *r->0 == self@[k.chars()] { None }
  #[verifier::external_body] pub fn insert(&mut self, k: StrView, v: LyStr) -> (r: Option<LyStr>)
    ensures final(self)@ == old(self)@.insert(k.chars(), v) { None }
  /// HashMap::retain(|_, &mut string| string.marked())
  #[verifier::external_body] pub fn retain_marked(&mut self)
    ensures final(self)@.dom() == old(self)@.dom().filter(|k: Seq<char>| marked(old(self)@[k])),
            forall|k: Seq<char>| final(self)@.dom().contains(k) ==> #[trigger] final(self)@[k] == old(self)@[k] { }
}

pub struct Allocator {
  pub intern_cache: InternMap,
  /// ghost: every string object allocated so far
  pub strings: Ghost<Set<LyStr>>,
}
impl Allocator {
  /// allocate a fresh string object with the given content (the real allocate_obj also accounts bytes and may collect: C20/C05)
  #[verifier::external_body]
  pub fn allocate_obj(&mut self, s: StrView) -> (r: LyStr)
    ensures content(r) == s.chars(), !old(self).strings@.contains(r), final(self).strings@ == old(self).strings@.insert(r),
            final(self).intern_cache == old(self).intern_cache
  { LyStr { p: 0 } }
}

// A-std
pub assume_specification<'a, T: Copy> [std::option::Option::<&'a T>::copied] (o: Option<&'a T>) -> (r: Option<T>)
  ensures (r is Some) == (o is Some), o is Some ==> r->0 == *o->0;
