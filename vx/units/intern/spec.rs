impl Allocator {
  /// C09: every key is the content of its own value (so lookup by content finds the object with that content), and
  /// table entries are allocated strings
  pub open spec fn intern_wf(&self) -> bool {
    forall|k: Seq<char>| self.intern_cache@.dom().contains(k) ==> content(#[trigger] self.intern_cache@[k]) == k && self.strings@.contains(self.intern_cache@[k])
  }
}

/// C09 as a lemma over the contracts: interning equal content twice, with nothing evicted in between, yields the same object
pub proof fn lemma_intern_twice_same(m0: Map<Seq<char>, LyStr>, a: LyStr, c: Seq<char>)
  requires !m0.dom().contains(c),
  ensures m0.insert(c, a).dom().contains(c) && m0.insert(c, a)[c] == a,
{ }
