// ---- additional trusted model for native / class calls (ncall unit) --------------------------------------------------
pub type Call = Result<Value, LyError>;
pub uninterp spec fn native_is_method(n: NativeRef) -> bool;
pub uninterp spec fn native_env(n: NativeRef) -> NativeEnvironment;
/// do these arguments pass the native's declared signature (Native::check_if_valid_call, VERIFIED in the native unit)
pub uninterp spec fn native_accepts(n: NativeRef, args: Seq<Value>) -> bool;
pub uninterp spec fn class_init(c: ClassRef) -> Option<Value>;
pub uninterp spec fn new_instance_of(c: ClassRef) -> InstRef;

impl NativeRef {
  #[verifier::external_body] pub fn is_method(&self) -> (r: bool) ensures r == native_is_method(*self) { true }
  #[verifier::external_body] pub fn environment(&self) -> (r: NativeEnvironment) ensures r == native_env(*self) { NativeEnvironment::StackLess }
  #[verifier::external_body] pub fn name(&self) -> (r: LyStr) { LyStr { p: 0 } }
  #[verifier::external_body] pub fn check_if_valid_call(&self, args: &[Value]) -> (r: Result<(), LyStr>) ensures (r is Ok) == native_accepts(*self, args@) { Ok(()) }
}
impl FunRef { #[verifier::external_body] pub fn set_name(&mut self, name: LyStr) ensures *final(self) == *old(self) { } }
impl ClassRef { #[verifier::external_body] pub fn init(&self) -> (r: Option<Value>) ensures r == class_init(*self) { None } }

pub open spec fn vm_frame(o: &Vm, n: &Vm) -> bool {
  n.raised == o.raised && n.ip == o.ip && n.builtin == o.builtin && n.call_log == o.call_log && n.capture_stub == o.capture_stub && n.called == o.called
}
/// ... and the temporary-root stack keeps its height
pub open spec fn same_roots(o: &Vm, n: &Vm) -> bool { n.troots == o.troots
}

impl Vm {
  /// C16: a native body indexes its argument slice and unwraps value kinds directly; it may only run on arguments that passed its
  /// declared signature.  A-native: a native leaves the operand stack and the frame stack as it found them.
  #[verifier::external_body]
  pub fn verif_native_call(&mut self, native: NativeRef, args: &[Value]) -> (r: Call)
    requires native_accepts(native, args@)
    ensures final(self).ran@ == old(self).ran@.push((native, args@)), final(self).fiber.stack == old(self).fiber.stack, final(self).fiber.frames == old(self).fiber.frames,
            vm_frame(old(self), final(self)),
            // a native pops what it pushed when it returns normally (assert_roots in debug builds); a `?` on the way skips the pops
            r is Ok ==> final(self).troots == old(self).troots, final(self).troots@ >= old(self).troots@
  { Ok(Value { bits: 0 }) }
  #[verifier::external_body]
  pub fn verif_take_stub(&mut self, native: NativeRef) -> (r: FunRef)
    ensures final(self).fiber == old(self).fiber, final(self).ran@ == old(self).ran@, vm_frame(old(self), final(self)), same_roots(old(self), final(self))
  { FunRef { p: 0 } }
  #[verifier::external_body]
  pub fn verif_return_stub(&mut self, stub: FunRef)
    ensures final(self).fiber == old(self).fiber, final(self).ran@ == old(self).ran@, vm_frame(old(self), final(self)), same_roots(old(self), final(self))
  { }
  /// push / pop on the allocator's temporary-root stack (through the RefCell: `&self`): balanced pairs in the extracted code, except the release
  #[verifier::external_body] pub fn push_root(&self, x: FunRef) { }
  #[verifier::external_body] pub fn pop_roots(&self, n: usize) { }
  #[verifier::external_body] pub fn verif_temp_roots(&self) -> (r: usize) ensures r == self.troots@ { 0 }
  /// pop_roots(n) as release_native_roots uses it
  #[verifier::external_body] pub fn verif_pop_roots(&mut self, n: usize)
    requires n <= old(self).troots@
    ensures final(self).troots@ == old(self).troots@ - n, final(self).fiber == old(self).fiber, final(self).ran == old(self).ran, vm_frame(old(self), final(self)) { }
  /// real: store ip, Fiber::push_frame, load ip
  #[verifier::external_body]
  pub fn push_frame(&mut self, closure: FunRef, captures: CapturesRef, arg_count: u8)
    ensures final(self).fiber.frames@ == old(self).fiber.frames@.push(Frame { fun: closure, captures, arg_count }),
            final(self).fiber.stack == old(self).fiber.stack, final(self).ran@ == old(self).ran@, vm_frame(old(self), final(self)), same_roots(old(self), final(self))
  { }
  /// real: drops the frame and resets the stack top to the frame's first slot (callee + arguments go)
  #[verifier::external_body]
  pub fn pop_frame(&mut self) -> (r: Option<ExecutionSignal>)
    requires old(self).fiber.frames@.len() > 0, old(self).fiber.stack@.len() >= old(self).fiber.frames@.last().arg_count as int + 1
    ensures final(self).fiber.frames@ == old(self).fiber.frames@.drop_last(),
            final(self).fiber.stack@ == old(self).fiber.stack@.subrange(0, old(self).fiber.stack@.len() - (old(self).fiber.frames@.last().arg_count as int + 1)),
            final(self).ran@ == old(self).ran@, vm_frame(old(self), final(self)), same_roots(old(self), final(self))
  { None }
  #[verifier::external_body]
  pub fn set_exit(&mut self, code: u16) -> (r: ExecutionSignal)
    ensures r == ExecutionSignal::Exit, final(self).fiber.frames == old(self).fiber.frames, final(self).ran@ == old(self).ran@, vm_frame(old(self), final(self)), same_roots(old(self), final(self))
  { ExecutionSignal::Exit }
  #[verifier::external_body]
  pub fn runtime_error(&mut self, error: ClassRef, message: LyStr) -> (r: ExecutionSignal)
    ensures r == ExecutionSignal::RuntimeError, final(self).raised@ == Some(error), final(self).fiber.frames == old(self).fiber.frames, final(self).fiber.stack == old(self).fiber.stack,
            final(self).ran@ == old(self).ran@, final(self).builtin == old(self).builtin, final(self).called == old(self).called, same_roots(old(self), final(self))
  { ExecutionSignal::RuntimeError }
  /// allocate an instance of `class`
  #[verifier::external_body]
  pub fn verif_new_instance(&mut self, class: ClassRef) -> (r: InstRef)
    ensures r == new_instance_of(class), class_of_inst(r) == class, final(self).fiber == old(self).fiber, final(self).ran@ == old(self).ran@, vm_frame(old(self), final(self)), same_roots(old(self), final(self))
  { InstRef { p: 0 } }
}

// A-std: <[T]>::to_vec copies the slice
pub assume_specification<T: Clone> [<[T]>::to_vec] (s: &[T]) -> (r: Vec<T>)
  ensures r@ == s@;
