// ---- trusted model: the handlers are stubs that log their name (generated in unit.py); what each does is proved in the handler units --------------
#[derive(Clone, Copy)] pub struct Value { pub bits: u64 }
pub uninterp spec fn lit_nil() -> Value;
pub uninterp spec fn lit_true() -> Value;
pub uninterp spec fn lit_false() -> Value;
/// VALUE_NIL, val!(true), val!(false)
#[verifier::external_body] pub fn lit_nil_exec() -> (r: Value) ensures r == lit_nil() { unimplemented!() }
#[verifier::external_body] pub fn lit_true_exec() -> (r: Value) ensures r == lit_true() { unimplemented!() }
#[verifier::external_body] pub fn lit_false_exec() -> (r: Value) ensures r == lit_false() { unimplemented!() }
pub enum ExecutionSignal { Ok, OkReturn, RuntimeError, ContextSwitch, Exit }
/// what the k-th handler run answers (arbitrary)
pub uninterp spec fn signal_of(k: nat) -> ExecutionSignal;
/// ghost: the handler run last
pub struct Vm { pub ran: Ghost<Ev> }
impl Vm {
  #[verifier::external_body] pub fn op_literal(&mut self, v: Value) -> (r: ExecutionSignal)
    ensures final(self).ran@ == Ev::Literal(v) { unimplemented!() }
}
