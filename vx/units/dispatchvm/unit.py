"""C01 / C06 (every instruction is executed by the handler of THAT instruction): the opcode match of Vm::execute (R18: the arms of
`match op_code {` copied unchanged; the loop around it, the decoding of the opcode and the handling of the signal are dropped from this unit).
The real enum ByteCode is extracted; the handlers are stubs that log their own name — stubs and the table `opcode -> handler` are generated
below from the variant names of the REAL enum (CamelCase -> op_snake_case, with the listed irregular names), so a new opcode without an entry,
or an arm that runs another opcode's handler, fails.  The three literal opcodes run op_literal with their own value.  What each handler does is
the ops / calls / imports / launchops / iterops / mapops / retops units."""
import re, os
IRREGULAR = {'Subtract': 'op_sub', 'Multiply': 'op_mul', 'Divide': 'op_div', 'LoadGlobal': 'op_load_global_symbol', 'DeclareModSym': 'op_declare_module_symbol',
             'GetModSym': 'op_get_module_symbol', 'SetModSym': 'op_set_module_symbol', 'ImportSym': 'op_import_symbol'}
LITERALS = {'Nil': 'lit_nil()', 'True': 'lit_true()', 'False': 'lit_false()'}
# opcodes that are never executed: they only reserve an inline-cache slot / mark arguments behind the instruction before them (read as operands)
NOT_EXECUTED = ['ArgumentDelimiter', 'InvokeSlot', 'PropertySlot', 'CaptureIndex', 'Slot']

def _snake(v): return 'op_' + re.sub(r'(?<!^)([A-Z])', r'_\1', v).lower()

def generate(repo):
  src = open(os.path.join(repo, 'laythe_vm/src/byte_code.rs'), encoding='utf-8').read()
  m = re.search(r'pub enum ByteCode \{(.*?)\n\}', src, re.S)
  variants = [re.match(r'\s*(\w+)', l).group(1) for l in m.group(1).split('\n') if re.match(r'\s*[A-Z]\w*\s*(,|=)', l)]
  handlers, arms = [], []
  for v in variants:
    if v in LITERALS: arms.append('ByteCode::%s => Ev::Literal(%s),' % (v, LITERALS[v])); continue
    h = IRREGULAR.get(v, _snake(v))
    if h not in handlers: handlers.append(h)
    arms.append('ByteCode::%s => Ev::Ran(Which::%s),' % (v, h))
  which = '#[allow(non_camel_case_types)]\npub enum Which { %s }\n' % ', '.join(handlers)
  stubs = ''.join('  #[verifier::external_body] pub fn %s(&mut self) -> (r: ExecutionSignal) ensures final(self).ran@ == Ev::Ran(Which::%s) { unimplemented!() }\n' % (h, h) for h in handlers)
  prelude = (which + 'pub enum Ev { Ran(Which), Literal(Value) }\n'
             '/// the instruction set gives every opcode its handler\n'
             'pub open spec fn handler_of(op: ByteCode) -> Ev { match op { %s } }\n' % ' '.join(arms)
             + 'impl Vm {\n' + stubs + '}\n')
  return dict(prelude=prelude, contracts='')

UNIT = dict(
  name='dispatchvm',
  properties=['C01', 'C06'],
  items=[('laythe_vm/src/byte_code.rs', ['enum ByteCode']), ('laythe_vm/src/vm/mod.rs', [('impl Vm', ['execute'])])],
  rewrites=[
    ('R11', 'enum ByteCode', dict(drop=['Debug', 'VariantCount'], add=['Structural'], optional=True)),
    ('R18', 'Vm::execute', dict(scrutinee=r'op_code', sig='pub fn execute(&mut self, op_code: ByteCode) -> ExecutionSignal', var='op_code')),
    ('R6', 'Vm::execute', dict(pat='self.op_literal(VALUE_NIL)', rep='self.op_literal(lit_nil_exec())', optional=True)),
    ('R6', 'Vm::execute', dict(pat='self.op_literal(val!(true))', rep='self.op_literal(lit_true_exec())', optional=True)),
    ('R6', 'Vm::execute', dict(pat='self.op_literal(val!(false))', rep='self.op_literal(lit_false_exec())', optional=True)),
  ],
  generate=generate,
  assumption_ids=['A-fiber'],
)
