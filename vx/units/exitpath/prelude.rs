// ---- trusted model (A-fiber) -----------------------------------------------------------------------------------------------------------------
pub struct Value { pub bits: u64 }
pub enum ExecutionResult { Ok(Value), Exit(u16), RuntimeError, CompileError }
pub struct FunRef { pub p: usize }
pub struct WaiterRef { pub id: int }
pub enum FiberPopResult { Ok(FunRef), Emptied, Empty }
/// a fiber handle: identity and how many frames it has
pub struct FiberRef { pub id: Ghost<int>, pub frames: Ghost<nat>, pub done_waiter: Ghost<Option<int>> }
impl FiberRef {
  /// identity of the GC pointer
  #[verifier::external_body] pub fn same(&self, other: &FiberRef) -> (r: bool) ensures r == (self.id@ == other.id@) { true }
  /// pop the top frame: Empty with no frame, Emptied when it was the last one
  #[verifier::external_body] pub fn pop_frame(&mut self) -> (r: FiberPopResult)
    ensures final(self).id == old(self).id, final(self).done_waiter == old(self).done_waiter,
      old(self).frames@ == 0 ==> r is Empty && final(self).frames@ == 0,
      old(self).frames@ == 1 ==> r is Emptied && final(self).frames@ == 0,
      old(self).frames@ > 1 ==> r is Ok && final(self).frames@ == old(self).frames@ - 1 { FiberPopResult::Empty }
  /// mark the fiber complete; the waiter blocked on its completion, if any
  #[verifier::external_body] pub fn complete(&mut self) -> (r: Option<WaiterRef>)
    ensures final(self).id == old(self).id, final(self).frames == old(self).frames,
      old(self).done_waiter@ is None ==> r is None, old(self).done_waiter@ matches Some(w) ==> (r matches Some(x) && x.id == w) { None }
}
pub struct Vm { pub fiber: FiberRef, pub main_fiber: FiberRef, pub current_fun: FunRef, pub exit_code: u16, pub queued: Ghost<Seq<int>> }
impl Vm {
  #[verifier::external_body] pub fn load_ip(&mut self) ensures *final(self) == *old(self) { }
  #[verifier::external_body] pub fn queue_blocked_fiber(&mut self, waiter: WaiterRef)
    ensures final(self).fiber == old(self).fiber, final(self).main_fiber == old(self).main_fiber, final(self).exit_code == old(self).exit_code, final(self).queued@ == old(self).queued@.push(waiter.id) { }
  /// internal_error: never reached
  #[verifier::external_body] pub fn internal_error<T>(&self, message: &str) -> T requires false { unimplemented!() }
}
