"""C18 (exit status) / C08 (the program ends when the main fiber ends): Vm::pop_frame — the main fiber returning from its last frame is the Exit
signal (with the exit code untouched: 0 unless exit(n) set it), any other fiber completing hands its completion waiter to the run queue and
switches — and the status match of Vm::run (R18 slice: Exit(0) -> (0, Ok), Exit(n) -> (n, RuntimeError), a runtime or compile error -> 1)."""
UNIT = dict(
  name='exitpath',
  properties=['C18', 'C16'],
  items=[
    ('laythe_vm/src/vm/mod.rs', ['enum ExecutionSignal', 'enum VmExit', ('impl Vm', ['run'])]),
    ('laythe_vm/src/vm/basic.rs', [('impl Vm', ['pop_frame'])]),
  ],
  rewrites=[
    ('R11', 'enum ExecutionSignal', dict(drop=['Debug'], add=['Structural'])),
    ('R7', 'enum ExecutionSignal', dict(pat='enum ExecutionSignal', rep='pub enum ExecutionSignal', count=1)),
    ('R11', 'enum VmExit', dict(drop=['Debug'], add=['Structural'])),
    # R18: of Vm::run only the status match is taken; the file-system / module set-up and interpret() are dropped
    ('R18', 'Vm::run', dict(scrutinee=r'self\.interpret\(false, main_module, &source, file_id\)', sig='pub fn run(&mut self, verif_res: ExecutionResult) -> (i32, VmExit)', var='verif_res')),
    ('R7', 'Vm::pop_frame', dict(pat='pub(super) unsafe fn', rep='pub unsafe fn', count=1)),
    ('R6', 'Vm::pop_frame', dict(pat=r'self\.fiber == self\.main_fiber', rep='self.fiber.same(&self.main_fiber)', regex=True, optional=True)),
    ('R6', 'Vm::pop_frame', dict(pat=r'self\.fiber != self\.main_fiber', rep='!self.fiber.same(&self.main_fiber)', regex=True, optional=True)),
  ],
  assumption_ids=['A-fiber'],
)
