"""C13 (A-slot) / C16 / C15: the inline caches are indexed by MODULE ID — the statements of Vm::compile that install a freshly compiled module's
cache (R18b slice): afterwards the vector has a slot for this module's id, that slot holds the new cache, and no other module's cache has moved.
(D35: a module whose compilation failed took an id without leaving a cache; the next module's cache was appended one slot too low.)"""
UNIT = dict(
  name='cacheidx',
  properties=['C13', 'C16', 'C15'],
  items=[('laythe_vm/src/vm/source_loader.rs', [('impl Vm', ['compile'])])],
  rewrites=[
    ('R18b', 'Vm::compile', dict(start=r'//[^\n]*\n\s*//[^\n]*\n\s*while self\.inline_cache\.len\(\)|while self\.inline_cache\.len\(\)|if module\.id\(\) < self\.inline_cache\.len\(\)',
                                 end=r'self\.inline_cache\[module\.id\(\)\] = cache;(\s*\} else \{\s*self\.inline_cache\.push\(cache\);\s*\})?',
                                 sig='pub fn compile(&mut self, module: &ModuleRef, cache: InlineCache)')),
  ],
  assumption_ids=['A-std'],
)
