#[derive(PartialEq, Eq)] pub struct InlineCache { pub id: int, pub empty: bool }
impl InlineCache { #[verifier::external_body] pub fn new(p: usize, i: usize) -> (r: InlineCache) ensures r.empty { unimplemented!() } }
pub struct ModuleRef { pub mid: usize }
impl ModuleRef { pub fn id(&self) -> (r: usize) ensures r == self.mid { self.mid } }
pub struct Vm { pub inline_cache: Vec<InlineCache> }
