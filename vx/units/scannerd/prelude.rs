// ---- trusted model of the scanner's character stream (A-scanner) -------------------------------------------------------------------------
pub struct Token { pub kind: TokenKind, pub lo: int, pub hi: int }
pub struct LineOffsets { pub lines: Ghost<Seq<int>> }
pub struct StrBuf { pub chars: Ghost<Seq<char>> }
impl StrBuf {
  #[verifier::external_body] pub fn with_capacity(n: usize) -> (r: StrBuf) ensures r.chars@ == Seq::<char>::empty() { unimplemented!() }
  #[verifier::external_body] pub fn push(&mut self, c: char) ensures final(self).chars@ == old(self).chars@.push(c) { }
}
// std's ASCII classes (their documentation)
pub assume_specification [char::is_ascii_digit] (c: &char) -> (r: bool) ensures r == ('0' <= *c && *c <= '9');
pub assume_specification [char::is_ascii_uppercase] (c: &char) -> (r: bool) ensures r == ('A' <= *c && *c <= 'Z');
pub assume_specification [char::is_ascii_lowercase] (c: &char) -> (r: bool) ensures r == ('a' <= *c && *c <= 'z');
// other std character classes: no contract (nothing is assumed about their result), so a character class built on them is checked
// against its _spec function instead of ending UNDECIDED
pub assume_specification [char::is_numeric] (c: char) -> (r: bool);
pub assume_specification [char::is_alphabetic] (c: char) -> (r: bool);
pub assume_specification [char::is_alphanumeric] (c: char) -> (r: bool);
pub assume_specification [char::is_ascii_alphabetic] (c: &char) -> (r: bool);
pub assume_specification [char::is_ascii_alphanumeric] (c: &char) -> (r: bool);
pub open spec fn is_digit_spec(c: char) -> bool { '0' <= c && c <= '9' }
pub open spec fn is_alpha_spec(c: char) -> bool { ('A' <= c && c <= 'Z') || ('a' <= c && c <= 'z') || c == '_' }
pub open spec fn is_identifier_postfix_spec(c: char) -> bool { c == '?' || c == '!' }
/// u32::from_str_radix(_, 16) accepts an optional '+' and hexadecimal digits only (std documentation); all the contracts need: no line break
#[verifier::external_body] pub fn verif_from_str_radix(s: &str, radix: u32) -> (r: Result<u32, ()>)
  ensures r is Ok ==> no_nl(s@) { unimplemented!() }
pub open spec fn no_nl(s: Seq<char>) -> bool { forall|i: int| 0 <= i < s.len() ==> #[trigger] s[i] != '\n' }
#[verifier::external_body] pub fn verif_char_from_u32(v: u32) -> (r: Option<char>) { None }

/// `src` is the whole source as characters, `pos` the index of the next unread one, `start` where the current token began, `lines` the
/// positions pushed by new_line (the real vector also holds a leading 0)
pub struct Scanner { pub interpolations: Vec<Interpolation>, pub src: Ghost<Seq<char>>, pub pos: Ghost<int>, pub start: Ghost<int>, pub lines: Ghost<Seq<int>> }
/// nothing but the read position moved
pub open spec fn only_pos(o: &Scanner, n: &Scanner) -> bool { n.src == o.src && n.start == o.start && n.lines == o.lines && n.interpolations == o.interpolations }
impl Scanner {
  pub open spec fn at(&self, i: int) -> char { self.src@[i] }
  pub open spec fn in_range(&self) -> bool { 0 <= self.pos@ <= self.src@.len() }
  pub open spec fn more(&self) -> bool { self.pos@ < self.src@.len() }
  pub open spec fn head(&self) -> char { self.src@[self.pos@] }
  /// Peekable::next_if
  #[verifier::external_body] pub fn verif_next_if(&mut self, p: Ghost<spec_fn(char) -> bool>) -> (r: Option<char>)
    requires old(self).in_range()
    ensures only_pos(old(self), final(self)),
      (old(self).more() && p@(old(self).head())) ==> r == Some(old(self).head()) && final(self).pos@ == old(self).pos@ + 1,
      !(old(self).more() && p@(old(self).head())) ==> r is None && final(self).pos@ == old(self).pos@
  { None }
  #[verifier::external_body] pub fn next(&mut self) -> (r: Option<char>)
    requires old(self).in_range()
    ensures only_pos(old(self), final(self)), old(self).more() ==> r == Some(old(self).head()) && final(self).pos@ == old(self).pos@ + 1,
      !old(self).more() ==> r is None && final(self).pos@ == old(self).pos@
  { None }
  #[verifier::external_body] pub fn peek(&mut self) -> (r: Option<char>)
    requires old(self).in_range()
    ensures *final(self) == *old(self), old(self).more() ==> r == Some(old(self).head()), !old(self).more() ==> r is None
  { None }
  /// the character after the next one
  #[verifier::external_body] pub fn verif_peek_second(&self) -> (r: Option<char>)
    requires self.in_range()
    ensures self.pos@ + 1 < self.src@.len() ==> r == Some(self.at(self.pos@ + 1)), self.pos@ + 1 >= self.src@.len() ==> r is None
  { None }
  /// line_offsets.push(current_offset()): the offset just after the character read last
  #[verifier::external_body] pub fn new_line(&mut self)
    ensures final(self).src == old(self).src, final(self).pos == old(self).pos, final(self).start == old(self).start, final(self).interpolations == old(self).interpolations,
      final(self).lines@ == old(self).lines@.push(old(self).pos@)
  { }
  /// start = current: the token starts at the character read last
  #[verifier::external_body] pub fn verif_mark_start(&mut self)
    ensures final(self).src == old(self).src, final(self).pos == old(self).pos, final(self).lines == old(self).lines, final(self).interpolations == old(self).interpolations,
      final(self).start@ == (if old(self).pos@ > 0 { old(self).pos@ - 1 } else { 0 })
  { }
  /// offsets are counted in characters in the model (bytes in the real scanner; the map between the two is monotone)
  #[verifier::external_body] pub fn current_offset(&self) -> (r: usize) requires self.in_range(), self.src@.len() < 0xFFFF_FFFF ensures r as int == self.pos@ { 0 }
  /// &source[start..current]: from `start` up to, not including, the character read last
  #[verifier::external_body] pub fn verif_slice_from(&self, start: usize) -> (r: &str) requires start as int <= self.pos@ - 1, self.in_range() ensures r@ == self.src@.subrange(start as int, self.pos@ - 1) { "" }
  #[verifier::external_body] pub fn identifier_type(&self) -> (r: TokenKind) ensures r != TokenKind::Error, r != TokenKind::Eof, r != TokenKind::Number { TokenKind::Identifier }
  #[verifier::external_body] pub fn make_token_source(&self, kind: TokenKind) -> (r: Token) ensures r.kind == kind, r.lo == self.start@, r.hi == self.pos@ { unimplemented!() }
  #[verifier::external_body] pub fn verif_token_owned(&self, kind: TokenKind, buffer: StrBuf) -> (r: Token) ensures r.kind == kind, r.lo == self.start@, r.hi == self.pos@ { unimplemented!() }
  #[verifier::external_body] pub fn verif_eof_token(&self) -> (r: Token) ensures r.kind == TokenKind::Eof, r.lo == self.start@, r.hi == self.pos@ { unimplemented!() }
  #[verifier::external_body] pub fn error_token(&self, message: &str) -> (r: Token) ensures r.kind == TokenKind::Error, r.lo == self.start@, r.hi == self.pos@ { unimplemented!() }
  #[verifier::external_body] pub fn verif_error_token_fmt(&self) -> (r: Token) ensures r.kind == TokenKind::Error, r.lo == self.start@ { unimplemented!() }
  #[verifier::external_body] pub fn verif_into_line_offsets(self) -> (r: LineOffsets) ensures r.lines@ == self.lines@ { unimplemented!() }
}
