// ---- what the scanner promises ---------------------------------------------------------------------------------------------------------
/// positions just after every '\n' among the first n characters
pub open spec fn nl_positions(s: Seq<char>, n: int) -> Seq<int>
  decreases n
{
  if n <= 0 { Seq::<int>::empty() } else if s[n - 1] == '\n' { nl_positions(s, n - 1).push(n) } else { nl_positions(s, n - 1) }
}
pub proof fn lemma_no_nl(s: Seq<char>, a: int, b: int)
  requires 0 <= a <= b <= s.len(), forall|k: int| a <= k < b ==> #[trigger] s[k] != '\n',
  ensures nl_positions(s, b) == nl_positions(s, a),
  decreases b - a
{
  if a < b { lemma_no_nl(s, a, b - 1); }
}
impl Scanner {
  /// C18: the line table is exact for the text read so far
  pub open spec fn lines_exact(&self) -> bool { self.lines@ == nl_positions(self.src@, self.pos@) }
  pub open spec fn interp_ok(&self) -> bool {
    forall|i: int| 0 <= i < self.interpolations@.len() ==> 1 <= (#[trigger] self.interpolations@[i]).brackets <= self.pos@
  }
  pub open spec fn wf(&self) -> bool { self.in_range() && self.interp_ok() && self.src@.len() < 0xFFFF_FFFF }
}
pub open spec fn is_ws(c: char) -> bool { c == ' ' || c == '\r' || c == '\t' || c == '\n' }
pub open spec fn string_kind(k: TokenKind) -> bool { k == TokenKind::String || k == TokenKind::StringStart || k == TokenKind::StringSegment || k == TokenKind::StringEnd }

// ---- the shape of a number lexeme ------------------------------------------------------------------------------------------------------
/// first index >= i that does not hold a digit (or the end)
pub open spec fn digits_end(s: Seq<char>, i: int) -> int
  decreases s.len() - i
{
  if 0 <= i < s.len() && is_digit_spec(s[i]) { digits_end(s, i + 1) } else { i }
}
pub proof fn lemma_digits_end(s: Seq<char>, i: int, j: int)
  requires 0 <= i <= j <= s.len(), forall|k: int| i <= k < j ==> is_digit_spec(#[trigger] s[k]), j == s.len() || !is_digit_spec(s[j]),
  ensures digits_end(s, i) == j,
  decreases j - i
{
  if i < j { lemma_digits_end(s, i + 1, j); }
}
/// s[lo..hi) is  D+ [ . D+ ] [ (e|E) [+|-] D+ ]
pub open spec fn valid_number(s: Seq<char>, lo: int, hi: int) -> bool {
  let t = s.subrange(0, hi);
  let a = digits_end(t, lo);
  &&& lo < a
  &&& {
    let b = if a + 1 < hi && t[a] == '.' && is_digit_spec(t[a + 1]) { digits_end(t, a + 1) } else { a };
    b == hi || ((t[b] == 'e' || t[b] == 'E') && {
      let c = if b + 1 < hi && (t[b + 1] == '+' || t[b + 1] == '-') { b + 2 } else { b + 1 };
      c < hi && is_digit_spec(t[c]) && digits_end(t, c) == hi
    })
  }
}
/// the positions the scanner went through ARE the decomposition valid_number asks for
pub proof fn lemma_number_shape(s: Seq<char>, lo: int, a: int, b: int, hi: int)
  requires 0 <= lo < a <= b <= hi <= s.len(),
    forall|k: int| lo <= k < a ==> is_digit_spec(#[trigger] s[k]), a == s.len() || !is_digit_spec(s[a]),
    (a + 1 < s.len() && s[a] == '.' && is_digit_spec(s[a + 1])) ==> (b > a + 1 && (forall|k: int| a < k < b ==> is_digit_spec(#[trigger] s[k])) && (b == s.len() || !is_digit_spec(s[b]))),
    !(a + 1 < s.len() && s[a] == '.' && is_digit_spec(s[a + 1])) ==> b == a,
    b == hi ==> b == s.len() || !(s[b] == 'e' || s[b] == 'E'),
    b < hi ==> (s[b] == 'e' || s[b] == 'E') && ({
      let c = if b + 1 < s.len() && (s[b + 1] == '+' || s[b + 1] == '-') { b + 2 } else { b + 1 };
      c < hi && (forall|k: int| c <= k < hi ==> is_digit_spec(#[trigger] s[k])) }),
  ensures valid_number(s, lo, hi)
{
  let t = s.subrange(0, hi);
  assert(forall|k: int| 0 <= k < hi ==> t[k] == s[k]);
  lemma_digits_end(t, lo, a);
  if a + 1 < hi && t[a] == '.' && is_digit_spec(t[a + 1]) { lemma_digits_end(t, a + 1, b); }
  if b < hi {
    let c = if b + 1 < hi && (t[b + 1] == '+' || t[b + 1] == '-') { b + 2 } else { b + 1 };
    lemma_digits_end(t, c, hi);
  }
}
