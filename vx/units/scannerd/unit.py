"""C15 / C18: the scanner.  Extracted: Scanner::scan_token, string, number, identifier, instance_access, skip_white_space, line_offsets,
match_char, the character classes (is_digit, is_alpha, is_identifier_postfix), struct Interpolation and enum TokenKind.
The character stream (source: &str + Peekable<CharIndices> + current/current_char/start byte offsets) is replaced by a ghost sequence of
characters with a position (A-scanner); the stream primitives next / peek / next_if / new_line / current_offset and the token constructors are
stubs over it.  Under contract:
  * progress: every token other than Eof consumes at least one character, Eof only at the end of the text (the parser's token loop ends)
  * every loop of the scanner terminates (decreases on the unread suffix)
  * the interpolation stack: brackets >= 1 for every open interpolation, `brackets -= 1` never underflows, `+= 1` never overflows
    (bounded by the number of characters read, the source is < 4 GiB), the pop after reaching 0 never fails
  * a Number token is always  D+ [ . D+ ] [ (e|E) [+|-] D+ ]  (what the compiler's parse::<f64>() accepts)
  * C18: the line table is exact — line_offsets holds the position after every '\\n' read so far, whichever path read it (whitespace, string
    literal, the final drain in line_offsets) — up to the first Error token of a string literal."""
_CLS = ['is_digit', 'is_alpha', 'is_identifier_postfix']
_M = ['scan_token', 'line_offsets', 'instance_access', 'identifier', 'number', 'string', 'skip_white_space', 'match_char']
UNIT = dict(
  name='scannerd',
  properties=['C15', 'C18'],
  items=[
    ('laythe_vm/src/compiler/ir/token.rs', ['enum TokenKind']),
    ('laythe_vm/src/compiler/scanner.rs', ['struct Interpolation', ("impl<'a> Scanner<'a>", _M), 'fn is_digit', 'fn is_alpha', 'fn is_identifier_postfix']),
  ],
  rewrites=[
    ('R11', 'enum TokenKind', dict(drop=['Debug', 'Hash', 'VariantCount'], add=['Structural'])),
    ('R7f', 'struct Interpolation'),
    ('R7', 'struct Interpolation', dict(pat=r'^(\s*(?:///?[^\n]*\n\s*)*)struct ', rep=r'\1pub struct ', regex=True)),
    ('R5', 'kind:implhdr', dict(pat=r"impl<'a> Scanner<'a> \{", rep='impl Scanner {', regex=True, optional=True)),
    ('R5', 'Scanner::*', dict(pat=r"Token<'a>", rep='Token', regex=True, optional=True)),
    ('R7', 'Scanner::*', dict(pat=r'^(\s*(?:///?[^\n]*\n\s*)*)fn ', rep=r'\1pub fn ', regex=True, optional=True)),
    ('R7', 'fn is_*', dict(pat=r'^(\s*(?:///?[^\n]*\n\s*)*)fn ', rep=r'\1pub fn ', regex=True, optional=True)),
    # R4n: next_if(|c| PRED) -> the stub that takes PRED as a ghost predicate
    ('R4n', 'Scanner::*', dict(fns=_CLS, vars=['expected'])),
    # R6: "the character after the next one" is read through a second iterator over the rest of the source
    ('R6', 'Scanner::*', dict(pat=r'let mut chars = self\.source\[self\.current_offset\(\)\.\.\]\.chars\(\);\s*chars\.next\(\);\s*', rep='', regex=True, optional=True)),
    ('R6', 'Scanner::*', dict(pat=r'\bchars\.next\(\)', rep='self.verif_peek_second()', regex=True, optional=True)),
    # R6: byte offsets of the current token are ghost positions
    ('R6', 'Scanner::scan_token', dict(pat='self.start = self.current;', rep='self.verif_mark_start();', count=1)),
    ('R6', 'Scanner::scan_token', dict(pat=r'make_token\(TokenKind::Eof, "", self\.start, self\.current_offset\(\)\)', rep='self.verif_eof_token()', regex=True, count=1)),
    ('R6', 'Scanner::string', dict(pat=r'make_token_owned\(kind, buffer, self\.start, self\.current_offset\(\)\)', rep='self.verif_token_owned(kind, buffer)', regex=True, count=1)),
    ('R6', 'Scanner::string', dict(pat='String::with_capacity(8)', rep='StrBuf::with_capacity(8)', count=1)),
    ('R6', 'Scanner::string', dict(pat=r'&self\.source\[start\.\.self\.current\]', rep='self.verif_slice_from(start)', regex=True, count=1)),
    ('R6', 'Scanner::string', dict(pat='u32::from_str_radix(unicode, 16)', rep='verif_from_str_radix(unicode, 16)', count=1)),
    ('R6', 'Scanner::string', dict(pat='std::char::from_u32(code_point)', rep='verif_char_from_u32(code_point)', count=1)),
    # R8: formatted messages
    ('R8', 'Scanner::string', dict(pat=r'self\.error_token_owned\(format!\((?:[^()]|\([^()]*\))*\)\)', rep='self.verif_error_token_fmt()', regex=True)),
    # line_offsets(mut self): consumes the scanner
    ('R6', 'Scanner::line_offsets', dict(pat=r'self\.line_offsets\.shrink_to_fit\(\);\s*LineOffsets::new\(self\.line_offsets, self\.source\.len\(\)\)', rep='self.verif_into_line_offsets()', regex=True, count=1)),
    ('R1', 'Scanner::line_offsets'),
    ('R6', 'Scanner::number', dict(pat=r"let _ = (self\.match_char\('\+'\) \|\| self\.match_char\('-'\));", rep=r'let verif_sign = \1;', regex=True, optional=True)),
  ],
  assumption_ids=['A-scanner'],
)
