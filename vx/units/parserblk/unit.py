"""C01 (implicit returns, whatever the nesting): Parser::{block, expr_stmt}, extracted as they are.  decl / expr / match_kind / consume /
error are stubs; decl LOGS the implicit-return mode in force when it is called.  Contract of block: every declaration of the block is parsed in
the mode the block was asked to use, a successfully parsed block leaves the ENCLOSING block's mode and the scope depth exactly as they were
(so a trailing expression after a nested if / while / for / try body is still an implicit return of the function), and in a block that may end in
an implicit return none appears before the last declaration.  Contract of expr_stmt: `e;` is an expression statement; `e` without a semicolon is
an implicit return exactly when the mode in force allows one and a diagnostic otherwise."""
UNIT = dict(
  name='parserblk',
  properties=['C01'],
  items=[('laythe_vm/src/compiler/parser.rs', [("impl<'a> Parser<'a>", ['block', 'expr_stmt'])])],
  rewrites=[
    ('R5', 'kind:implhdr', dict(pat="impl<'a> Parser<'a> {", rep='impl Parser {', count=1)),
    ('R5', 'Parser::*', dict(pat=r"<'a>", rep='', regex=True, optional=True)),
    ('R7', 'Parser::*', dict(pat=r'^(\s*(?:///?[^\n]*\n\s*)*)fn ', rep=r'\1pub fn ', regex=True, optional=True)),
    ('R6', 'Parser::block', dict(pat='mem::replace(&mut self.block_return, block_return)', rep='self.verif_replace_block_return(block_return)', count=1)),
    # the local that saves the enclosing mode shadows the parameter of the same name (Verus reads a shadowed parameter in `ensures` as the local):
    # the local is renamed where it is bound and where it is read back
    ('R5', 'Parser::block', dict(pat='let block_return = self.verif_replace_block_return(block_return);', rep='let verif_saved_mode = self.verif_replace_block_return(block_return);', count=1)),
    ('R5', 'Parser::block', dict(pat='self.block_return = block_return;', rep='self.block_return = verif_saved_mode;', optional=True)),
    ('R5', 'Parser::block', dict(pat='let mut decls: Vec<Decl> = self.vec();', rep='let mut decls: Vec<Decl> = Vec::new();', count=1)),
    # R4: Result::inspect_err with a closure over self, then `?` -> match
    ('R4', 'Parser::block', dict(pat=r'decls\.push\(self\.decl\(\)\.inspect_err\(\|_\| \{\s*(self\.scope_depth -= 1;)\s*\}\)\?\);', rep=r'decls.push(match self.decl() { Ok(verif_d) => verif_d, Err(verif_e) => { \1 return Err(verif_e); } });', regex=True, count=1)),
    # R13: `if let Some((_, rest)) = decls.split_last() { for decl in rest {` -> index loop over all but the last declaration
    ('R13', 'Parser::block', dict(pat=r'if let Some\(\(_, rest\)\) = decls\.split_last\(\) \{\s*for decl in rest \{', rep='{\n        let mut verif_j: usize = 0;\n        while verif_j + 1 < decls.len() {\n          let decl = &decls[verif_j];', regex=True, count=1)),
    # the increment goes before the closing brace of that loop (rustfmt indentation: the first `\n        }` after the loop head)
    ('R13', 'Parser::block', dict(pat=r'(?s)(let decl = &decls\[verif_j\];.*?)(\n        \})', rep=r'\1\n          verif_j += 1;\2', regex=True, count=1)),
    ('R4', 'Parser::block', dict(pat=r'self\s*\.consume\(TokenKind::RightBrace, "Expected \'\}\' after block\."\)\s*\.map\(\|\(\)\| (Block::new\(Span \{ start, end \}, self\.table\(\), decls\))\)', rep=r'''match self.consume(TokenKind::RightBrace, "Expected '}' after block.") { Ok(()) => Ok(\1), Err(verif_e) => Err(verif_e) }''', regex=True, count=1)),
  ],
  assumption_ids=['A-parser'],
)
