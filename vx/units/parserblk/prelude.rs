// ---- trusted model of the parser around block / expr_stmt (A-parser) ---------------------------------------------------------------------------
pub struct Diag { }
pub type ParseResult<T> = Result<T, Diag>;
#[derive(Clone, Copy, PartialEq, Eq, Structural)]
pub enum TokenKind { RightBrace, Eof, Semicolon, Error }
pub enum Lexeme { Slice(&'static str) }
#[derive(Clone)]
pub struct Token { pub k: TokenKind, pub lo: u32, pub hi: u32 }
impl Token {
  #[verifier::external_body] pub fn new(kind: TokenKind, lexeme: Lexeme, start: u32, end: u32) -> Token { unimplemented!() }
  pub fn start(&self) -> (r: u32) ensures r == self.lo { self.lo }
  pub fn end(&self) -> (r: u32) ensures r == self.hi { self.hi }
}
pub struct Span { pub start: u32, pub end: u32 }
#[derive(Clone, Copy)]
pub enum BlockReturn { Can, Cannot }
pub type Node<T> = Box<T>;
pub struct Expr { pub id: u64 }
impl Expr {
  #[verifier::external_body] pub fn start(&self) -> u32 { 0 }
  #[verifier::external_body] pub fn end(&self) -> u32 { 0 }
}
pub enum Stmt { Expr(Node<Expr>), ImplicitReturn(Node<Expr>), Other }
pub enum Decl { Symbol, Stmt(Node<Stmt>) }
pub struct Table { }
pub struct Block { pub decls: Vec<Decl> }
impl Block { pub fn new(range: Span, symbols: Table, decls: Vec<Decl>) -> (r: Block) ensures r.decls == decls { Block { decls } } }

pub struct Parser {
  pub previous: Token,
  pub current: Token,
  pub scope_depth: usize,
  pub block_return: BlockReturn,
  /// ghost: the implicit-return mode in force at each call of decl, in order
  pub decl_modes: Ghost<Seq<BlockReturn>>,
}
pub open spec fn quiet(o: &Parser, n: &Parser) -> bool { n.scope_depth == o.scope_depth && n.block_return == o.block_return && n.decl_modes == o.decl_modes }
pub open spec fn is_implicit(d: Decl) -> bool { d matches Decl::Stmt(s) && *s is ImplicitReturn }
impl Parser {
  /// one declaration or statement: parsed in the mode in force; A-parser: it leaves mode and scope depth as it found them (a nested block is
  /// this very function: its Ok contract; a failed one ends in synchronize and the compilation is never run)
  #[verifier::external_body] pub fn decl(&mut self) -> (r: ParseResult<Decl>)
    ensures final(self).scope_depth == old(self).scope_depth, final(self).block_return == old(self).block_return,
      final(self).decl_modes@ == old(self).decl_modes@.push(old(self).block_return) { unimplemented!() }
  #[verifier::external_body] pub fn expr(&mut self) -> (r: ParseResult<Expr>) ensures quiet(old(self), final(self)) { unimplemented!() }
  #[verifier::external_body] pub fn check(&self, kind: TokenKind) -> (r: bool) ensures r == (self.current.k == kind) { true }
  /// consume the current token if it is of this kind
  #[verifier::external_body] pub fn match_kind(&mut self, kind: TokenKind) -> (r: ParseResult<bool>)
    ensures quiet(old(self), final(self)), r matches Ok(b) ==> b == (old(self).current.k == kind) { unimplemented!() }
  #[verifier::external_body] pub fn consume(&mut self, kind: TokenKind, message: &str) -> (r: ParseResult<()>)
    ensures quiet(old(self), final(self)), r is Ok ==> old(self).current.k == kind { unimplemented!() }
  #[verifier::external_body] pub fn error<T>(&mut self, message: &str) -> (r: ParseResult<T>) ensures r is Err, quiet(old(self), final(self)) { unimplemented!() }
  #[verifier::external_body] pub fn error_at<T>(&mut self, token: Token, message: &str) -> (r: ParseResult<T>) ensures r is Err, quiet(old(self), final(self)) { unimplemented!() }
  #[verifier::external_body] pub fn node<T>(&self, t: T) -> (r: Box<T>) ensures *r == t { unimplemented!() }
  #[verifier::external_body] pub fn table(&self) -> (r: Table) { Table { } }
  /// mem::replace(&mut self.block_return, b)
  #[verifier::external_body] pub fn verif_replace_block_return(&mut self, b: BlockReturn) -> (r: BlockReturn)
    ensures final(self).block_return == b, r == old(self).block_return, final(self).scope_depth == old(self).scope_depth, final(self).decl_modes == old(self).decl_modes,
      final(self).previous == old(self).previous, final(self).current == old(self).current { unimplemented!() }
}
