// ---- trusted model for the gctrace unit (C05) -------------------------------------------------------------------------
/// the ghost trace log: `seen` = identities of the objects a trace call has been issued for, `marked` = mark bits set
pub struct TraceLog { pub ghost seen: Set<int>, pub ghost marked: Set<int> }

/// any field whose type implements Trace on its own (Value, ObjRef<T>, Ref<T>, LyStr, Array, UniqueVector, Box<dyn ..>, nested structs):
/// `reach()` is the set of objects its trace call is issued for
#[derive(Clone, Copy)]
pub struct Leaf { pub p: usize }
impl Leaf {
  pub uninterp spec fn reach(&self) -> Set<int>;
  #[verifier::external_body]
  pub fn trace(&self, verif_log: &mut TraceLog)
    ensures final(verif_log).seen == old(verif_log).seen.union(self.reach()), old(verif_log).marked.subset_of(final(verif_log).marked)
  { }
}
/// a table / queue / slice field (HashMap, HashSet, Map, VecDeque, Box<[T]>): keys (or elements) and values
pub struct KvLeaf { pub p: usize }
impl KvLeaf {
  pub uninterp spec fn reach_keys(&self) -> Set<int>;
  pub uninterp spec fn reach_vals(&self) -> Set<int>;
  /// `x.trace()` on a Map / UniqueVector-like field traces everything in it
  #[verifier::external_body]
  pub fn trace(&self, verif_log: &mut TraceLog)
    ensures final(verif_log).seen == old(verif_log).seen.union(self.reach_keys()).union(self.reach_vals()), old(verif_log).marked.subset_of(final(verif_log).marked)
  { }
  /// iteration with a closure / for loop that traces the first and / or second bound variable of every entry (R15)
  #[verifier::external_body]
  pub fn verif_trace_each(&self, verif_log: &mut TraceLog, first: bool, second: bool)
    ensures final(verif_log).seen == old(verif_log).seen.union(if first { self.reach_keys() } else { Set::<int>::empty() }).union(if second { self.reach_vals() } else { Set::<int>::empty() }),
            old(verif_log).marked.subset_of(final(verif_log).marked)
  { }
}
/// a field that holds no GC reference
pub struct Plain { }
// Deref of the Map newtype to its table (R15 turns a bare `self.iter()` into `self.verif_elems()`)
impl Map { pub fn verif_elems(&self) -> (r: &KvLeaf) ensures *r == self.0 { &self.0 } }

// ---- mark-guarded handles (ObjRef<T>, Ref<T>, Array<T,H>, RawUniqueVector<T,H>, RawSharedVector<T,H>) -----------------------
pub open spec fn mark_spec(old_log: &TraceLog, new_log: &TraceLog, id: int, was: bool) -> bool {
  was == old_log.marked.contains(id) && new_log.marked == old_log.marked.insert(id) && new_log.seen == old_log.seen
}
/// ObjRef<T>: a typed pointer to a managed object; `data()` is the object itself
pub struct ObjRef { pub p: usize }
impl ObjRef {
  pub uninterp spec fn id(&self) -> int;
  pub uninterp spec fn data_reach(&self) -> Set<int>;
  #[verifier::external_body] pub fn mark(&self, verif_log: &mut TraceLog) -> (was: bool) ensures mark_spec(old(verif_log), final(verif_log), self.id(), was) { true }
  #[verifier::external_body] pub fn data(&self) -> (r: &Leaf) ensures r.reach() == self.data_reach() { unimplemented!() }
}
/// Ref<T>: a pointer to a managed allocation { header, data }
pub struct RefAlloc { pub data: Leaf, pub p: usize }
impl RefAlloc {
  pub uninterp spec fn id(&self) -> int;
  #[verifier::external_body] pub fn mark(&self, verif_log: &mut TraceLog) -> (was: bool) ensures mark_spec(old(verif_log), final(verif_log), self.id(), was) { true }
}
pub struct Ref { pub p: usize }
impl Ref {
  pub uninterp spec fn alloc(&self) -> RefAlloc;
  #[verifier::external_body] pub fn obj(&self) -> (r: &RefAlloc) ensures *r == self.alloc() { unimplemented!() }
}
/// Array<T, H> / RawUniqueVector<T, H>: header + elements behind one mark bit
pub struct Array { pub p: usize }
pub struct RawUniqueVector { pub p: usize }
pub struct RawSharedVector { pub p: usize }
pub enum RawVecLocation { Here(usize), Forwarded(RawSharedVector) }
// (the per-type handle models are emitted by unit.py: Verus syntax cannot be produced by macro_rules!)
impl RawSharedVector {
  /// length of the forwarding chain behind this handle (a grown list forwards to its relocated vector; chains are finite)
  pub uninterp spec fn fwd_depth(&self) -> nat;
  pub uninterp spec fn location(&self) -> RawVecLocation;
  #[verifier::external_body] pub fn state(&self) -> (r: RawVecLocation)
    ensures r == self.location(), r matches RawVecLocation::Forwarded(v) ==> v.fwd_depth() < self.fwd_depth()
  { RawVecLocation::Here(0) }
}

// ---- the kind dispatch of ObjectRef ----------------------------------------------------------------------------------------
pub struct ObjectRef { pub p: usize }
/// ObjRef<LyBox> as the dispatch sees it: the boxed value is a public field
pub struct BoxHandle { pub value: Leaf, pub p: usize }
impl BoxHandle {
  pub uninterp spec fn reach(&self) -> Set<int>;
  #[verifier::external_body]
  pub fn trace(&self, verif_log: &mut TraceLog)
    ensures final(verif_log).seen == old(verif_log).seen.union(self.reach()), old(verif_log).marked.subset_of(final(verif_log).marked)
  { }
}
impl ObjectRef {
  pub uninterp spec fn id(&self) -> int;
  pub uninterp spec fn kind_spec(&self) -> ObjectKind;
  /// what tracing this object as ITS OWN kind reaches
  pub uninterp spec fn obj_reach(&self) -> Set<int>;
  #[verifier::external_body] pub fn marked(&self, verif_log: &mut TraceLog) -> (r: bool)
    ensures r == old(verif_log).marked.contains(self.id()), *final(verif_log) == *old(verif_log) { true }
  #[verifier::external_body] pub fn kind(&self) -> (r: ObjectKind) ensures r == self.kind_spec() { ObjectKind::String }
  #[verifier::external_body] pub fn to_box(&self) -> (r: BoxHandle) requires self.kind_spec() == ObjectKind::LyBox ensures r.reach() == self.obj_reach() { unimplemented!() }
}
// (the 12 `to_<kind>` conversions are emitted by unit.py)
