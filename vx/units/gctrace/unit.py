"""C05: every `trace` body reaches every GC-typed field of its struct.
The model structs AND the contracts are generated on every run from the real struct definitions in /repo (field names kept,
field types abstracted by the classification table below); the `fn trace(&self)` bodies are the real text after R15 (a ghost
trace log is threaded through the calls)."""
import os, re, sys
sys.path.insert(0, os.path.join(os.path.dirname(os.path.abspath(__file__)), '..', '..'))
import rsitems

# (file, struct, impl name) of every field-wise trace body
TYPES = [
  ('laythe_core/src/object/ly_box.rs', 'LyBox'), ('laythe_core/src/object/method.rs', 'Method'), ('laythe_core/src/object/closure.rs', 'Closure'),
  ('laythe_core/src/object/channel/mod.rs', 'Channel'), ('laythe_core/src/object/channel/channel_queue.rs', 'ChannelQueue'),
  ('laythe_core/src/object/native.rs', 'NativeMeta'), ('laythe_core/src/object/native.rs', 'Native'),
  ('laythe_core/src/object/class.rs', 'Class'), ('laythe_core/src/object/instance/header.rs', 'Header'),
  ('laythe_core/src/object/instance/mod.rs', 'Instance'), ('laythe_core/src/object/list.rs', 'List'), ('laythe_core/src/object/tuple.rs', 'Tuple'),
  ('laythe_core/src/object/map.rs', 'Map'), ('laythe_core/src/object/fun.rs', 'FunBuilder'), ('laythe_core/src/object/fun.rs', 'Fun'),
  ('laythe_core/src/object/enumerator.rs', 'Enumerator'), ('laythe_core/src/chunk.rs', 'Chunk'),
  ('laythe_core/src/module/mod.rs', 'Module'), ('laythe_core/src/module/package.rs', 'Package'), ('laythe_core/src/module/import.rs', 'Import'),
  ('laythe_core/src/captures.rs', 'Captures'), ('laythe_core/src/signature.rs', 'Parameter'), ('laythe_core/src/signature.rs', 'NativeSignature'),
  ('laythe_core/src/collections/unique_vector/mod.rs', 'UniqueVector'),
  ('laythe_vm/src/fiber/call_frame.rs', 'CallFrame'), ('laythe_vm/src/fiber/mod.rs', 'Fiber'),
  # the interpreter's ROOT SET: struct in vm/mod.rs, `impl TraceRoot for Vm` in vm/impls.rs
  ('laythe_vm/src/vm/mod.rs', 'Vm', 'laythe_vm/src/vm/impls.rs', 'TraceRoot for Vm'),
  # the root set of a running compilation
  ('laythe_vm/src/compiler/mod.rs', 'Compiler', 'laythe_vm/src/compiler/mod.rs', "<'a, 'src: 'a> TraceRoot for Compiler<'a, 'src>"),
  ('laythe_vm/src/compiler/mod.rs', 'ClassAttributes'),
]

IMPL_NAME = {'Map': 'Map<K, V>', 'UniqueVector': 'UniqueVector<T, H>'}

# ---- classification of field types -----------------------------------------------------------------------------------
_LEAF = [r"&'a dyn TraceRoot", r'NonNull<Compiler<.*>>', r'FunBuilder', r'ChunkBuilder', r'InlineCache', r'VmFiles', r'BuiltIn', r'Value', r'ObjRef<.*>', r'Ref<.*>', r'LyStr', r'Captures', r'Instance', r'List(<.*>)?', r'Tuple', r'Array<.*>', r'RawSharedVector<.*>',
         r'RawUniqueVector<.*>', r'UniqueVector<.*>', r'Chunk', r'NativeMeta', r'NativeSignature', r'Box<dyn LyNative>', r'Box<dyn Enumerate>',
         r'Parameter', r'[A-Z]']                      # a single capital = a type parameter bounded by Trace
_PLAIN = [r'Rc<RefCell<Allocator>>', r'Rc<RefCell<CacheIdEmitter>>', r"&'a LineOffsets", r"&'a Bump", r'Vec<Diagnostic<VmFileId>>', r'TryAttributes', r'LoopAttributes', r'LabelEmitter', r'VmFileId',
          r"collections::Vec<'a, Local<'a>>", r"collections::Vec<'a, &'a SymbolTable<'src>>", r"&'a SymbolTable<'src>", r'Vec<CaptureIndex>', r'Map<u16, u16>', r'RefCell<Allocator>', r'Io', r'PathBuf', r'IdEmitter', r'bool', r'u8', r'u16', r'u32', r'i32', r'usize', r'f64', r'\*mut .*', r'\*const .*', r'Arity', r'FunKind', r'FiberState', r'ChannelKind',
          r'ChannelQueueState', r'ChannelQueueKind', r'NativeEnvironment', r'ParameterKind', r'ObjectKind', r'AtomicBool']
# fields whose referent is provably reachable through another traced field (A-alias; each is an assumption listed in the evidence)
EXEMPT = {
  ('ClassAttributes', 'name'): 'the class name is interned and is also a constant of the function being compiled (Compiler::class: identifier_constant(name)), which Compiler::trace reaches through `constants`',
  ('Compiler', 'chunk'): 'every constant of the chunk under construction is also a key of `constants` (make_constant inserts into both), which trace visits',
  ('Compiler', 'root_trace'): 'traced by the OUTERMOST compiler only (the one without `enclosing`); inner compilers reach it through the enclosing chain — stated by the hand-written extra clause below',
  ('Vm', 'builtin'): 'the builtin classes are symbols of the std package modules, which `packages` reaches',
  ('Vm', 'global_module'): 'the global module is the root module of the std package, which `packages` reaches',
  ('Vm', 'current_fun'): 'the function of the innermost frame of `fiber`, which Fiber::trace reaches through `frames`',
  ('Class', 'init'): 'Class::add_method stores the initialiser in `methods` under "init" as well, and inherit copies the super class methods: `init` aliases an entry of `methods`'}

# hand-written additions to a generated contract
EXTRA_ENSURES = {'Compiler': ['(self.enclosing is None ==> self.root_trace.reach().subset_of(final(verif_log).seen))']}

def _is(pats, t): return any(re.fullmatch(p, t) for p in pats)

def _split_generic(t):
  """'HashMap<LyStr, Value, FnvBuildHasher>' -> ('HashMap', ['LyStr', 'Value', 'FnvBuildHasher'])"""
  m = re.fullmatch(r'(\w+)<(.*)>', t)
  if not m: return t, []
  args, depth, cur = [], 0, ''
  for ch in m.group(2):
    if ch == '<': depth += 1
    if ch == '>': depth -= 1
    if ch == ',' and depth == 0: args.append(cur.strip()); cur = ''
    else: cur += ch
  if cur.strip(): args.append(cur.strip())
  return m.group(1), args

def classify(t):
  """-> ('leaf',) | ('opt',) | ('kv', keys_traceable, vals_traceable) | ('plain',) ; raises on an unknown type"""
  t = re.sub(r'\s+', ' ', t.strip())
  if _is(_PLAIN, t): return ('plain',)
  head, args = _split_generic(t)
  if head in ('HashMap', 'LyHashMap', 'Map') and len(args) >= 2:
    return ('kv', classify(args[0])[0] != 'plain', classify(args[1])[0] != 'plain')
  if head in ('HashSet', 'LyHashSet', 'VecDeque', 'Vec') and len(args) >= 1:
    return ('kv', classify(args[0])[0] != 'plain', False)
  m = re.fullmatch(r'Box<\[(.*)\]>', t)
  if m: return ('kv', classify(m.group(1))[0] != 'plain', False)
  if head == 'Option' and len(args) == 1:
    inner = classify(args[0])
    if inner[0] == 'leaf': return ('opt',)
    if inner[0] == 'plain': return ('plain',)
    raise ValueError('Option of %s' % (inner,))
  if _is(_LEAF, t): return ('leaf',)
  raise ValueError('unclassified field type `%s`' % t)

def _fields(struct_text):
  """[(name, type)] of a struct item (named or tuple)"""
  t = re.sub(r'//[^\n]*', '', struct_text)
  m = re.search(r'struct\s+\w+\s*(<[^{(]*>)?\s*\{(.*)\}\s*$', t, flags=re.S)
  out = []
  if m:
    depth, cur, parts = 0, '', []
    for ch in m.group(2):
      if ch in '<([': depth += 1
      if ch in '>)]': depth -= 1
      if ch == ',' and depth == 0: parts.append(cur); cur = ''
      else: cur += ch
    if cur.strip(): parts.append(cur)
    for p in parts:
      p = re.sub(r'#\[[^\]]*\]', '', p).strip()
      fm = re.fullmatch(r'(?:pub(?:\([^)]*\))?\s+)?(\w+)\s*:\s*(.*)', p, flags=re.S)
      if not fm: raise ValueError('cannot parse field `%s`' % p)
      out.append((fm.group(1), fm.group(2).strip()))
    return out, False
  m = re.search(r'struct\s+\w+\s*(<[^(]*>)?\s*\((.*)\)\s*;\s*$', t, flags=re.S)
  if not m: raise ValueError('cannot parse struct')
  depth, cur, parts = 0, '', []
  for ch in m.group(2):
    if ch in '<([': depth += 1
    if ch in '>)]': depth -= 1
    if ch == ',' and depth == 0: parts.append(cur); cur = ''
    else: cur += ch
  if cur.strip(): parts.append(cur)
  return [(str(i), re.sub(r'^pub(\([^)]*\))?\s+', '', p.strip())) for i, p in enumerate(parts)], True

def generate(repo):
  from engine import Undecided
  prelude, contracts = ['// ---- model structs generated from the real definitions (field names kept, types abstracted) ----'], []
  for ent in TYPES:
    relfile, name = ent[0], ent[1]
    implname = ent[3] if len(ent) > 3 else 'Trace for ' + name
    implname = re.sub(r'<[^<>]*>', '', re.sub(r'^<[^>]*>\s*', '', implname)).strip()    # the path the engine gives the extracted item
    rf = rsitems.RustFile(os.path.join(repo, relfile))
    it = rf.find('struct', name)
    try:
      fields, is_tuple = _fields(it.text)
      cls = [(f, ty, classify(ty)) for f, ty in fields]
    except ValueError as ex:
      raise Undecided('gctrace: struct %s in %s: %s' % (name, relfile, ex))
    mty = {'leaf': 'Leaf', 'opt': 'Option<Leaf>', 'kv': 'KvLeaf', 'plain': 'Plain'}
    if is_tuple:
      prelude.append('pub struct %s(%s);' % (name, ', '.join('pub ' + mty[c[0]] for _, _, c in cls)))
    else:
      prelude.append('pub struct %s { %s }' % (name, ', '.join('pub %s: %s' % (f, mty[c[0]]) for f, _, c in cls)))
    ens = ['old(verif_log).seen.subset_of(final(verif_log).seen)', 'old(verif_log).marked.subset_of(final(verif_log).marked)']
    for f, ty, c in cls:
      if (name, f) in EXEMPT: continue
      acc = 'self.%s' % f
      if c[0] == 'leaf': ens.append('%s.reach().subset_of(final(verif_log).seen)' % acc)
      elif c[0] == 'opt': ens.append('(%s matches Some(verif_x) ==> verif_x.reach().subset_of(final(verif_log).seen))' % acc)
      elif c[0] == 'kv':
        if c[1]: ens.append('%s.reach_keys().subset_of(final(verif_log).seen)' % acc)
        if c[2]: ens.append('%s.reach_vals().subset_of(final(verif_log).seen)' % acc)
    ens += EXTRA_ENSURES.get(name, [])
    contracts.append('@fn %s::trace\n@tags C05\n@spec\n  // generated: trace reaches every GC-typed field of %s (%s)\n  ensures\n%s\n@end\n'
                     % (implname, name, ', '.join('%s: %s' % (f, ty) for f, ty, _ in cls), '\n'.join('    %s,' % e for e in ens)))
  for t in ('Array', 'RawUniqueVector', 'RawSharedVector'):
    prelude.append('''impl %s {
  pub uninterp spec fn id(&self) -> int;
  pub uninterp spec fn header_reach(&self) -> Set<int>;
  pub uninterp spec fn elems_reach(&self) -> Set<int>;
  #[verifier::external_body] pub fn mark(&self, verif_log: &mut TraceLog) -> (was: bool) ensures mark_spec(old(verif_log), final(verif_log), self.id(), was) { true }
  #[verifier::external_body] pub fn header(&self) -> (r: &Leaf) ensures r.reach() == self.header_reach() { unimplemented!() }
  /// Deref to the element slice
  #[verifier::external_body] pub fn verif_elems(&self) -> (r: &KvLeaf) ensures r.reach_keys() == self.elems_reach() { unimplemented!() }
}''' % t)
  for f, k in [('to_channel', 'Channel'), ('to_class', 'Class'), ('to_closure', 'Closure'), ('to_enumerator', 'Enumerator'), ('to_fun', 'Fun'), ('to_instance', 'Instance'),
               ('to_list', 'List'), ('to_map', 'Map'), ('to_method', 'Method'), ('to_native', 'Native'), ('to_str', 'String'), ('to_tuple', 'Tuple')]:
    prelude.append('impl ObjectRef { #[verifier::external_body] pub fn %s(&self) -> (r: Leaf) requires self.kind_spec() == ObjectKind::%s ensures r.reach() == self.obj_reach() { Leaf { p: 0 } } }' % (f, k))
  return dict(prelude='\n'.join(prelude) + '\n', contracts='\n'.join(contracts))

UNIT = dict(
  name='gctrace',
  properties=['C05'],
  generate=generate,
  items=[('laythe_core/src/object/mod.rs', ['enum ObjectKind']), ('laythe_core/src/macros.rs', ['macro to_obj_kind', 'macro match_obj'])]
        + [((e[2] if len(e) > 2 else e[0]), [('impl ' + (e[3] if len(e) > 3 else 'Trace for ' + IMPL_NAME.get(e[1], e[1])), ['trace'])]) for e in TYPES] + [
    # mark-guarded handles and the kind dispatch: contracts written by hand in contracts.vrs
    ('laythe_core/src/reference/obj_reference.rs', [('impl Trace for ObjRef<T>', ['trace']), ('impl Trace for ObjectRef', ['trace'])]),
    ('laythe_core/src/reference/mod.rs', [('impl Trace for Ref<T>', ['trace'])]),
    ('laythe_core/src/collections/array.rs', [('impl Trace for Array<T, H>', ['trace'])]),
    ('laythe_core/src/collections/unique_vector/raw_unique_vector.rs', [('impl Trace for RawUniqueVector<T, H>', ['trace'])]),
    ('laythe_core/src/collections/shared_vector/raw_shared_vector.rs', [('impl Trace for RawSharedVector<T, H>', ['trace'])]),
  ],
  rewrites=[
    ('R11', 'enum ObjectKind', dict(drop=['Debug', 'Hash'], add=['Structural'])),
    # R12: the macros are the real text minus the crate-path plumbing
    ('R12', 'kind:macro', dict(pat='#[macro_export]\n', rep='', count=1)),
    ('R12', 'macro match_obj', dict(pat=r'\s*use \$crate::to_obj_kind;\n', rep='\n', regex=True, count=1)),
    ('R12', 'macro match_obj', dict(pat='$crate::ObjectRef', rep='ObjectRef', count=1)),
    # the trait impl becomes an inherent impl of the model struct (Verus cannot take `requires`/ghost parameters on a foreign trait's method)
    ('R15', 'kind:implhdr', dict(pat=r'^impl(?:<[^{]*>)?\s+Trace(?:Root)?\s+for\s+(\w+)(?:<[^{]*>)?\s*(?:where[^{]*)?\{', rep=r'impl \1 {', regex=True, count=1)),
    ('R15', 'kind:fn', dict(pat=r'^(\s*(?:#\[inline\]\s*)?)fn trace', rep=r'\1pub fn trace', regex=True, count=1)),
    # R9: the enclosing compiler is reached through a NonNull pointer
    ('R9', 'TraceRoot for Compiler::trace', dict(pat='unsafe { enclosing.as_ref().trace() }', rep='enclosing.trace()', count=1)),
    ('R15', 'kind:fn'),
  ],
  assumption_ids=['A-alias'],
)
