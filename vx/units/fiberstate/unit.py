"""C07 / C16 (the life cycle of a fiber): the real enum FiberState and Fiber::{is_complete, is_pending, activate, sleep, block, unblock}
(fiber/mod.rs), extracted as they are, with struct Fiber projected onto `state` and `waiter` (R10).  Their asserts are obligations under
preconditions that name the state the callers establish (ops / basicvm / signalvm units): only a pending (or unwinding) fiber is activated, only
the running fiber sleeps or blocks, a sleeping fiber stays runnable (its own waiter says so) while a blocked one is not until a channel partner
unblocks it, and unblocking a fiber that is merely pending leaves it pending.  These are the statements the ops prelude uses for its Fiber
model."""
UNIT = dict(
  name='fiberstate',
  properties=['C07', 'C16'],
  items=[('laythe_vm/src/fiber/mod.rs', ['enum FiberState', 'struct Fiber', ('impl Fiber', ['is_complete', 'is_pending', 'activate', 'sleep', 'block', 'unblock'])])],
  rewrites=[
    ('R11', 'enum FiberState', dict(drop=['Debug'], add=['Structural'])),
    ('R7', 'enum FiberState', dict(pat='enum FiberState', rep='pub enum FiberState', count=1)),
    ('R10', 'struct Fiber', dict(keep=['state', 'waiter'])),
    ('R7f', 'struct Fiber'),
    ('R6', 'struct Fiber', dict(pat='Ref<ChannelWaiter>', rep='WaiterCell', count=1)),
    # assert_eq!(a, b) -> assert!(a == b) (R3)
    ('R3', 'Fiber::*', dict(pat=r'assert_eq!\(self\.state, (FiberState::\w+)\);', rep=r'assert!(self.state == \1);', regex=True, optional=True)),
  ],
  assumption_ids=['A-fiber'],
)
