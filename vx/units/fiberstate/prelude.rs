// ---- trusted model: the fiber's own channel waiter as a cell holding its runnable flag (A-fiber) ------------------------------------------------------------
pub struct WaiterCell { pub runnable: bool }
impl WaiterCell { pub fn set_runnable(&mut self, b: bool) ensures final(self).runnable == b { self.runnable = b; } }
