// ---- trusted model of the parser around stmt (A-parser); TokenKind, Which and the statement-parser stubs are generated in unit.py ----------------------
pub struct Diag { }
pub type ParseResult<T> = Result<T, Diag>;
pub struct Stmt { pub id: u64 }
#[derive(Clone, Copy)]
pub struct Token { pub k: TokenKind }
impl Token { pub fn kind(&self) -> (r: TokenKind) ensures r == self.k { self.k } }
pub struct Parser {
  pub current: Token,
  /// ghost: the statement parsers run, in order, and the number of tokens stepped over
  pub ran: Ghost<Seq<Which>>,
  pub advances: Ghost<nat>,
}
impl Parser {
  #[verifier::external_body] pub fn advance(&mut self) -> (r: ParseResult<()>)
    ensures final(self).ran == old(self).ran, r is Ok ==> final(self).advances@ == old(self).advances@ + 1 { unimplemented!() }
  #[verifier::external_body] pub fn expr_stmt(&mut self) -> (r: ParseResult<Stmt>)
    ensures final(self).advances == old(self).advances, r is Ok ==> final(self).ran@ == old(self).ran@.push(Which::ExprStmt) { unimplemented!() }
}
