"""C01 (statements as written): Parser::stmt, extracted as it is — the keyword a statement starts with decides which statement it is: the
keyword is stepped over and the parser of THAT statement runs; anything else is an expression statement and nothing is stepped over.  The
statement parsers are stubs that log their own name."""
import re
KEYWORDS = ['Import', 'Try', 'Raise', 'If', 'Launch', 'For', 'While', 'Return', 'Continue', 'Break']
FN = {'Import': 'import', 'Try': 'try_block', 'Raise': 'raise', 'If': 'if_', 'Launch': 'launch', 'For': 'for_', 'While': 'while_', 'Return': 'return_', 'Continue': 'continue_', 'Break': 'break_'}

def generate(repo):
  stubs = ''.join(
    '  #[verifier::external_body] pub fn %s(&mut self) -> (r: ParseResult<Stmt>)\n'
    '    ensures final(self).advances == old(self).advances, r is Ok ==> final(self).ran@ == old(self).ran@.push(Which::%s) { unimplemented!() }\n' % (FN[k], k) for k in KEYWORDS)
  prelude = ('#[derive(Clone, Copy, PartialEq, Eq, Structural)]\npub enum TokenKind { %s, Other }\n' % ', '.join(KEYWORDS)
             + '/// the statement parsers, by the keyword of their statement\npub enum Which { %s, ExprStmt }\n' % ', '.join(KEYWORDS)
             + '/// the statement a keyword starts\npub open spec fn which_of(k: TokenKind) -> Which { match k { %s TokenKind::Other => Which::ExprStmt } }\n'
               % ' '.join('TokenKind::%s => Which::%s,' % (k, k) for k in KEYWORDS)
             + 'impl Parser {\n' + stubs + '}\n')
  return dict(prelude=prelude, contracts='')

UNIT = dict(
  name='parserstmt',
  properties=['C01'],
  items=[('laythe_vm/src/compiler/parser.rs', [("impl<'a> Parser<'a>", ['stmt'])])],
  rewrites=[
    ('R5', 'kind:implhdr', dict(pat="impl<'a> Parser<'a> {", rep='impl Parser {', count=1)),
    ('R5', 'Parser::*', dict(pat=r"<'a>", rep='', regex=True, optional=True)),
    ('R7', 'Parser::*', dict(pat=r'^(\s*(?:///?[^\n]*\n\s*)*)fn ', rep=r'\1pub fn ', regex=True, optional=True)),
    # R4: `self.advance().and_then(|()| self.F())` (closure over self) -> match, F copied unchanged
    ('R4', 'Parser::stmt', dict(pat=r'self\.advance\(\)\.and_then\(\|\(\)\| (self\.\w+\(\))\)', rep=r'match self.advance() { Ok(()) => \1, Err(verif_e) => Err(verif_e) }', regex=True, min=1)),
  ],
  generate=generate,
  assumption_ids=['A-parser'],
)
