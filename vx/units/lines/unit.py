UNIT = dict(
  name='lines',
  properties=['C18'],
  items=[
    ('laythe_core/src/chunk.rs', ['struct Chunk', ('impl Chunk', ['get_line'])]),
    ('laythe_vm/src/source/files.rs', ['struct LineOffsets', 'enum LineError', ('impl LineOffsets', ['lines', 'offset_line'])]),
  ],
  rewrites=[
    ('R7f', 'struct Chunk'), ('R7f', 'struct LineOffsets'),
    ('R10', 'struct Chunk', dict(keep=['lines'])),
    # R6: laythe_core::collections::Array<T, Header> (a GC array that derefs to a slice) -> Vec<T>
    ('R6', 'struct Chunk', dict(pat='Array<u16, Header>', rep='Vec<u16>', count=1)),
    ('R6', 'LineOffsets::offset_line', dict(pat='self.offsets.binary_search(&offset)', rep='verif_binary_search(&self.offsets, &offset)', count=1)),
    ('R11', 'struct Chunk', dict(drop=['Clone', 'PartialEq', 'Eq'])),
    ('R11', 'struct LineOffsets', dict(drop=['Default', 'Clone'])),
    ('R11', 'enum LineError', dict(drop=['Debug', 'PartialEq', 'Eq'])),
  ],
)
