UNIT = dict(
  name='lines',
  properties=['C18'],
  items=[
    ('laythe_core/src/chunk.rs', ['struct Chunk', ('impl Chunk', ['get_line'])]),
    ('laythe_vm/src/source/files.rs', ['struct LineOffsets', 'enum LineError', ('impl LineOffsets', ['lines', 'offset_line'])]),
    ('laythe_vm/src/byte_code.rs', ['struct Label', 'enum CaptureIndex', 'enum SymbolicByteCode']),
    ('laythe_vm/src/chunk_builder.rs', ['struct ChunkBuilder', ('impl ChunkBuilder', ['write_instruction'])]),
    ('laythe_vm/src/compiler/mod.rs', [("impl<'a, 'src: 'a> Compiler<'a, 'src>", ['emit_byte', 'write_instruction'])]),
  ],
  rewrites=[
    ('R7f', 'struct Chunk'), ('R7f', 'struct LineOffsets'),
    ('R10', 'struct Chunk', dict(keep=['lines'])),
    # R6: laythe_core::collections::Array<T, Header> (a GC array that derefs to a slice) -> Vec<T>
    ('R6', 'struct Chunk', dict(pat='Array<u16, Header>', rep='Vec<u16>', count=1)),
    ('R6', 'LineOffsets::offset_line', dict(pat='self.offsets.binary_search(&offset)', rep='verif_binary_search(&self.offsets, &offset)', count=1)),
    ('R11', 'struct Chunk', dict(drop=['Clone', 'PartialEq', 'Eq'])),
    ('R7f', 'struct Label'), ('R11', 'struct Label', dict(drop=['Debug'])), ('R11', 'enum CaptureIndex', dict(drop=['Debug'])),
    ('R11', 'enum SymbolicByteCode', dict(drop=['Debug', 'Default'])),
    ('R11', 'enum SymbolicByteCode', dict(pat='  #[default]\n', rep='', count=1)),
    ('R11', 'enum SymbolicByteCode', dict(pat='  #[allow(dead_code)]\n', rep='', count=1)),
    ('R7f', 'struct ChunkBuilder'), ('R10', 'struct ChunkBuilder', dict(keep=['instructions', 'lines'])), ('R11', 'struct ChunkBuilder', dict(drop=['Default'])),
    # R10: Compiler is projected to the two fields emit_byte touches (stub struct in prelude.rs); arena lifetimes dropped
    ('R5', 'impl Compiler', dict(pat="impl<'a, 'src: 'a> Compiler<'a, 'src>", rep='impl Compiler', count=1)),
    ('R7', 'Compiler::*', dict(pat=r'^(\s*(?:///[^\n]*\n\s*)*)fn ', rep=r'\1pub fn ', regex=True, count=1)),
    ('R11', 'struct LineOffsets', dict(drop=['Default', 'Clone'])),
    ('R11', 'enum LineError', dict(drop=['PartialEq', 'Eq'])),
  ],
)
