// A-std: the documented contract of <[T]>::binary_search on a strictly sorted slice, at T = usize.
// (assume_specification must be generic in T and cannot mention `<` on T, so the call is routed through this wrapper: R6.)
#[verifier::external_body]
pub fn verif_binary_search(s: &Vec<usize>, x: &usize) -> (r: Result<usize, usize>)
  ensures
    (forall|i: int, j: int| 0 <= i < j < s@.len() ==> s@[i] < s@[j]) ==> match r {
      Ok(i) => i < s@.len() && s@[i as int] == *x,
      Err(i) => i <= s@.len() && (forall|j: int| 0 <= j < i ==> s@[j] < *x) && (forall|j: int| i <= j < s@.len() ==> s@[j] > *x),
    },
{ s.binary_search(x) }

/// R10: laythe_vm::compiler::Compiler projected to what emit_byte / write_instruction touch
/// (`line_offsets` is `&'a LineOffsets` in the real struct: A-ref)
pub struct Compiler { pub line_offsets: LineOffsets, pub chunk: ChunkBuilder }
