impl LineOffsets {
  /// line starts: non-empty, first line starts at 0, strictly increasing, inside the file
  pub open spec fn wf(&self) -> bool {
    &&& self.offsets@.len() > 0
    &&& self.offsets@[0] == 0
    &&& forall|i: int, j: int| 0 <= i < j < self.offsets@.len() ==> self.offsets@[i] < self.offsets@[j]
  }
}
