"""C16 / C07 / C03: what a launched fiber starts with — the statements of Fiber::split that fill the new fiber's stack and take the moved values
off the parent's (an R18b slice from `let stack_start = ..` to the end of the last unsafe block; the allocations between the two unsafe blocks —
frame vector, waiter, the Fiber literal — are DROPPED from the slice and stated as not touching either stack).  Raw pointers into the two stacks
are a model (stack id + offset); ptr::write / ptr::copy_nonoverlapping / `*p` become named operations on a ghost pair of stacks.  Contract: the
new fiber's slots 0 ..= arg_count are the parent's callee slot and its arg_count arguments, in order — slot 0 is what the call protocol put in
the callee slot: the receiver of a bound method, the fresh instance of an initialiser, the closure of a function —, the frame starts at the new
stack's first slot, and the parent's stack top goes back to the callee slot.  (D38: slot 0 was written with the FUNCTION, so `launch a.run()`
ran `run` with the function as self: a host panic 'Attempted to access a non instance'.)"""
UNIT = dict(
  name='splitcopy',
  properties=['C16', 'C07', 'C03'],
  items=[('laythe_vm/src/fiber/mod.rs', [('impl Fiber', ['split'])])],
  rewrites=[
    ('R18b', 'Fiber::split', dict(start=r'let stack_start = stack\.as_mut_ptr\(\);', end=r'fiber\.frame = fiber\.frame\.sub\(1\);\s*\}',
      sig='pub fn split(verif_st: &mut Stacks, fiber: &mut FiberM, frame: &mut FrameM, stack: &mut StackM, parent_stack_top: Ptr, fun: FunRef, arg_count: usize)')),
    # the slice drops the allocations between the two unsafe blocks (they build the frame vector, the waiter and the Fiber object)
    ('R18b', 'Fiber::split', dict(pat=r'(?s)\n\s*// Create the initial set of frames.*?let new_fiber = allocator\.manage\(new_fiber, context\);\n', rep='\n', regex=True, count=1)),
    # raw pointer operations -> named operations on the ghost pair of stacks (operands kept as written)
    ('R6', 'Fiber::split', dict(pat=r'ptr::write\(', rep='verif_write(verif_st, ', regex=True, optional=True)),
    ('R6', 'Fiber::split', dict(pat=r'ptr::copy_nonoverlapping\(', rep='verif_copy(verif_st, ', regex=True, optional=True)),
    ('R6', 'Fiber::split', dict(pat=r'\*parent_stack_top\b', rep='verif_read(verif_st, parent_stack_top)', regex=True, optional=True)),
    ('R6', 'Fiber::split', dict(pat=r'val!\(fun\)', rep='verif_fun_value(fun)', regex=True, optional=True)),
  ],
  assumption_ids=['A-fiber'],
)
