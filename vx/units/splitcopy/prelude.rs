// ---- trusted model of the two stacks and of pointers into them (A-fiber) --------------------------------------------------------------------------
#[derive(Clone, Copy)] pub struct Value { pub bits: u64 }
#[derive(Clone, Copy)] pub struct FunRef { pub p: usize }
pub uninterp spec fn fun_value(f: FunRef) -> Value;
#[verifier::external_body] pub fn verif_fun_value(f: FunRef) -> (r: Value) ensures r == fun_value(f) { unimplemented!() }
/// a pointer into the parent's stack (which == 0) or the new fiber's stack (which == 1)
#[derive(Clone, Copy)] pub struct Ptr { pub which: u8, pub off: usize }
impl Ptr {
  pub fn add(self, n: usize) -> (r: Ptr) requires self.off + n <= usize::MAX ensures r == (Ptr { which: self.which, off: (self.off + n) as usize }) { Ptr { which: self.which, off: self.off + n } }
}
/// the parent's stack and the new fiber's stack
pub struct Stacks { pub parent: Ghost<Seq<Value>>, pub child: Ghost<Seq<Value>> }
pub open spec fn rd(s: &Stacks, p: Ptr) -> Value { if p.which == 0 { s.parent@[p.off as int] } else { s.child@[p.off as int] } }
pub open spec fn in_bounds(s: &Stacks, p: Ptr, n: int) -> bool { (p.which == 0 && p.off + n <= s.parent@.len()) || (p.which == 1 && p.off + n <= s.child@.len()) }
/// `*p`
#[verifier::external_body] pub fn verif_read(s: &Stacks, p: Ptr) -> (r: Value) requires in_bounds(s, p, 1) ensures r == rd(s, p) { unimplemented!() }
/// ptr::write(p, v)
#[verifier::external_body] pub fn verif_write(s: &mut Stacks, p: Ptr, v: Value)
  requires in_bounds(old(s), p, 1),
  ensures p.which == 0 ==> final(s).parent@ == old(s).parent@.update(p.off as int, v) && final(s).child@ == old(s).child@,
    p.which != 0 ==> final(s).child@ == old(s).child@.update(p.off as int, v) && final(s).parent@ == old(s).parent@ { unimplemented!() }
/// ptr::copy_nonoverlapping(src, dst, n): n values from the parent's stack into the new one
#[verifier::external_body] pub fn verif_copy(s: &mut Stacks, src: Ptr, dst: Ptr, n: usize)
  requires src.which == 0, dst.which == 1, in_bounds(old(s), src, n as int), in_bounds(old(s), dst, n as int),
  ensures final(s).parent@ == old(s).parent@, final(s).child@.len() == old(s).child@.len(),
    forall|i: int| 0 <= i < final(s).child@.len() ==> #[trigger] final(s).child@[i] == (if dst.off <= i < dst.off + n { old(s).parent@[src.off + (i - dst.off)] } else { old(s).child@[i] }) { unimplemented!() }
/// the new fiber's stack vector
pub struct StackM { }
impl StackM { #[verifier::external_body] pub fn as_mut_ptr(&mut self) -> (r: Ptr) ensures r == (Ptr { which: 1, off: 0 }) { unimplemented!() } }
/// the call frame being moved
pub struct FrameM { pub stack_start: Ptr }
impl FrameM { pub fn store_stack_start(&mut self, p: Ptr) ensures final(self).stack_start == p { self.stack_start = p; } }
/// a pointer into the parent's frame vector
#[derive(Clone, Copy)] pub struct FramePtr { pub idx: usize }
impl FramePtr { pub fn sub(self, n: usize) -> (r: FramePtr) requires self.idx >= n ensures r.idx == self.idx - n { FramePtr { idx: self.idx - n } } }
/// the parent fiber as far as the slice touches it
pub struct FiberM { pub stack_top: Ptr, pub frame: FramePtr }
pub struct Fiber { }
