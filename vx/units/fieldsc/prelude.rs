#[derive(Clone, Copy)] pub struct LyStr { pub id: int }
#[derive(Clone, Copy)] pub struct Value { pub id: int }
/// val!(string)
#[verifier::external_body] pub fn verif_val(s: LyStr) -> (r: Value) ensures r.id == s.id { unimplemented!() }
/// Ref<ClassAttributes>: the field list of the class being compiled
#[derive(Clone, Copy)] pub struct ClassRef { pub p: usize }
pub uninterp spec fn fields_of(c: ClassRef) -> Seq<LyStr>;
pub struct ClassAttrs { pub fields: Vec<LyStr> }
impl core::ops::Deref for ClassRef { type Target = ClassAttrs; #[verifier::external_body] fn deref(&self) -> (r: &ClassAttrs) ensures r.fields@ == fields_of(*self) { unimplemented!() } }
pub uninterp spec fn const_of(name: int) -> u16;
pub enum Ev { Emit(SymbolicByteCode), Const(int) }
pub struct Compiler { pub class_attributes: Option<ClassRef>, pub log: Ghost<Seq<Ev>> }
impl Compiler {
  #[verifier::external_body] pub fn make_constant(&mut self, v: Value) -> (r: u16) ensures final(self).class_attributes == old(self).class_attributes, r == const_of(v.id), final(self).log@ == old(self).log@.push(Ev::Const(v.id)) { 0 }
  #[verifier::external_body] pub fn emit_byte(&mut self, op: SymbolicByteCode, offset: u32) ensures final(self).class_attributes == old(self).class_attributes, final(self).log@ == old(self).log@.push(Ev::Emit(op)) { }
}
