"""C03 / C13 (field numbering: compile time vs run time): Compiler::emit_fields emits one Field instruction per recorded field, in the order of
the class's field list — the order `find_known_field` numbers them in (propcomp unit) and the order op_field / Class::add_field give them slots at
run time (ops + klass units).  So the n of a GetProp(n) / SetProp(n) is the slot the run-time class gives that field."""
UNIT = dict(
  name='fieldsc',
  properties=['C03', 'C13'],
  items=[
    ('laythe_vm/src/byte_code.rs', ['struct Label', 'enum CaptureIndex', 'enum SymbolicByteCode']),
    ('laythe_vm/src/compiler/mod.rs', [("impl<'a, 'src: 'a> Compiler<'a, 'src>", ['emit_fields'])]),
  ],
  rewrites=[
    ('R7f', 'struct Label'),
    ('R11', 'struct Label', dict(drop=['Debug', 'Default', 'VariantCount'], add=['Structural'])),
    ('R11', 'enum CaptureIndex', dict(drop=['Debug', 'Default', 'VariantCount'], add=['Structural'])),
    ('R11', 'enum SymbolicByteCode', dict(drop=['Debug', 'Default', 'VariantCount'], add=['Structural'])),
    ('R11', 'enum SymbolicByteCode', dict(pat='  #[default]\n', rep='', count=1)),
    ('R11', 'enum SymbolicByteCode', dict(pat='  #[allow(dead_code)]\n', rep='', count=1)),
    ('R5', 'kind:implhdr', dict(pat=r"impl<'a, 'src: 'a> Compiler<'a, 'src> \{", rep='impl Compiler {', regex=True, optional=True)),
    ('R7', 'Compiler::*', dict(pat=r'^(\s*(?:///?[^\n]*\n\s*)*)fn ', rep=r'\1pub fn ', regex=True, optional=True)),
    ('R6', 'Compiler::emit_fields', dict(pat=r'self\.class_attributes\.expect\("[^"]*"\)', rep='self.class_attributes.unwrap()', regex=True, count=1)),
    # the closure body is the last expression of for_each's block: it becomes a statement of the loop
    ('R13f', 'Compiler::emit_fields', dict(pat=r'(self\.emit_byte\(SymbolicByteCode::Field\(constant\), line\))(\s*\}\))', rep=r'\1;\2;', regex=True, count=1)),
    ('R13f', 'Compiler::emit_fields'),
    ('R6', 'Compiler::emit_fields', dict(pat='self.make_constant(val!(*f))', rep='self.make_constant(verif_val(*f))', count=1)),
  ],
  assumption_ids=['A-compiler'],
)
