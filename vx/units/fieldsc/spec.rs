/// the Field instructions for the first n recorded fields, in order
pub open spec fn fields_evs(fs: Seq<LyStr>, n: int) -> Seq<Ev> decreases n {
  if n <= 0 { Seq::<Ev>::empty() } else { fields_evs(fs, n - 1).push(Ev::Const(fs[n - 1].id)).push(Ev::Emit(SymbolicByteCode::Field(const_of(fs[n - 1].id)))) }
}
