#[derive(Clone, Copy)] pub struct Value { pub bits: u64 }
pub uninterp spec fn undefined() -> Value;
/// the fixed array the pinned code sliced
pub const UNDEFINED_LEN: usize = 255;
pub struct UndefArr { }
pub const UNDEFINED_ARRAY: UndefArr = UndefArr { };
/// vec![VALUE_UNDEFINED; n]
#[verifier::external_body] pub fn verif_undefined_vec(n: usize) -> (r: Vec<Value>) ensures r@.len() == n, forall|i: int| 0 <= i < n ==> r@[i] == undefined() { unimplemented!() }
pub struct VecBuilder { pub slice: Ghost<Seq<Value>>, pub cap: usize }
impl VecBuilder {
  /// VecBuilder::new(slice, cap): assert!(slice.len() <= cap)
  #[verifier::external_body] pub fn new(slice: &Vec<Value>, cap: usize) -> (r: VecBuilder) requires slice@.len() <= cap ensures r.slice@ == slice@, r.cap == cap { unimplemented!() }
}
pub struct Fiber { }
