"""C16 / C15 / C06: a fiber's initial stack has exactly the number of slots asked for, WHATEVER that number is — the statements of Fiber::new and
Fiber::split that build the stack (R18b slices).  (D36: they sliced a fixed 255-entry array of UNDEFINED values, so a script or a launched
function needing more than 254 slots — a 300-element list literal at module level — panicked the host.)"""
_SIG = 'pub fn %s(stack_count: usize) -> VecBuilder'
UNIT = dict(
  name='fiberstack',
  properties=['C16', 'C15', 'C06'],
  items=[('laythe_vm/src/fiber/mod.rs', [('impl Fiber', ['new', 'split'])])],
  rewrites=[
    ('R18b', 'Fiber::new', dict(start=r'(let undefined = [^\n]*\n\s*)?let mut stack = UniqueVector::new\(allocator\.manage\(', end=r'VecBuilder::new\([^\n]*\),', sig=_SIG % 'new')),
    ('R18b', 'Fiber::split', dict(start=r'(let undefined = [^\n]*\n\s*)?let mut stack = UniqueVector::new\(allocator\.manage\(', end=r'VecBuilder::new\([^\n]*\),', sig=_SIG % 'split')),
    # the slice keeps the argument of allocator.manage( .. ): drop the wrapper text and return the builder
    ('R18b', 'Fiber::*', dict(pat=r'let mut stack = UniqueVector::new\(allocator\.manage\(\s*(VecBuilder::new\([^\n]*\)),', rep=r'\1', regex=True, count=1)),
    ('R6', 'Fiber::*', dict(pat='vec![VALUE_UNDEFINED; stack_count]', rep='verif_undefined_vec(stack_count)', optional=True)),
  ],
  assumption_ids=['A-std'],
)
