// ---- strings as character sequences (A-std) ---------------------------------------------------------------------------------------------------
pub struct LyStr { pub chars: Ghost<Seq<char>> }
pub struct StrBuf { pub chars: Ghost<Seq<char>> }
impl StrBuf {
  #[verifier::external_body] pub fn new() -> (r: StrBuf) ensures r.chars@ == Seq::<char>::empty() { unimplemented!() }
  /// String::push_str(&*segment)
  #[verifier::external_body] pub fn push_str(&mut self, s: &LyStr) ensures final(self).chars@ == old(self).chars@ + s.chars@ { }
  #[verifier::external_body] pub fn push(&mut self, c: char) ensures final(self).chars@ == old(self).chars@.push(c) { }
}
pub struct Vm { pub p: usize }
impl Vm {
  /// interning: the managed string has the buffer's content
  #[verifier::external_body] pub fn manage_str(&mut self, b: StrBuf) -> (r: LyStr) ensures r.chars@ == b.chars@ { unimplemented!() }
}
