"""C17: the key of the module cache — Vm::full_import_path joins ALL segments of an import path with '/', in order (two different import paths
never share a cache entry, the same path always finds its own).  Strings are sequences of characters (StrBuf / LyStr views)."""
UNIT = dict(
  name='importpath',
  properties=['C17'],
  items=[('laythe_vm/src/vm/ops.rs', [('impl Vm', ['full_import_path'])])],
  rewrites=[
    ('R7', 'Vm::full_import_path', dict(pat=r'^(\s*(?:///?[^\n]*\n\s*)*)fn ', rep=r'\1pub fn ', regex=True, count=1)),
    ('R6', 'Vm::full_import_path', dict(pat='String::new()', rep='StrBuf::new()', count=1)),
    # R13: `for segment in &path_segments[..path_segments.len() - 1]` -> index loop over the same prefix
    ('R13', 'Vm::full_import_path', dict(pat=r'for segment in &path_segments\[\.\.path_segments\.len\(\) - 1\] \{', rep='let mut verif_i: usize = 0;\n    while verif_i < path_segments.len() - 1 {\n      let segment = &path_segments[verif_i];', regex=True, count=1)),
    # the increment goes before the closing brace of that loop (rustfmt indentation: the first `\n    }` after the loop head)
    ('R13', 'Vm::full_import_path', dict(pat=r"(?s)(let segment = &path_segments\[verif_i\];.*?)(\n    \})", rep=r"\1\n      verif_i += 1;\2", regex=True, count=1)),
  ],
  assumption_ids=['A-std'],
)
