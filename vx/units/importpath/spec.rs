/// the first n segments joined by '/'
pub open spec fn joined(segs: Seq<LyStr>, n: int) -> Seq<char> decreases n {
  if n <= 0 { Seq::<char>::empty() } else if n == 1 { segs[0].chars@ } else { joined(segs, n - 1).push('/') + segs[n - 1].chars@ }
}
/// the first n segments, each FOLLOWED by '/'
pub open spec fn prefixed(segs: Seq<LyStr>, n: int) -> Seq<char> decreases n {
  if n <= 0 { Seq::<char>::empty() } else { (prefixed(segs, n - 1) + segs[n - 1].chars@).push('/') }
}
pub proof fn lemma_prefixed(segs: Seq<LyStr>, n: int)
  requires 1 <= n <= segs.len(),
  ensures prefixed(segs, n) =~= joined(segs, n).push('/'),
  decreases n
{
  if n > 1 { lemma_prefixed(segs, n - 1); }
  else { assert(prefixed(segs, 0) + segs[0].chars@ =~= segs[0].chars@); }
}
