/// the module reached from m by following path[from..to), if every step exists
pub open spec fn walk(m: ModRef, path: Seq<LyStr>, from: int, to: int) -> Option<ModRef> decreases to - from {
  if from >= to { Some(m) } else { match child(m, path[from]) { Some(c) => walk(c, path, from + 1, to), None => None } }
}
