#[derive(Clone, Copy, PartialEq, Eq, Structural)] pub struct LyStr { pub id: int }
#[derive(Clone, Copy, PartialEq, Eq, Structural)] pub struct ModRef { pub id: int }
/// the module tree: the child of a module under a name
pub uninterp spec fn child(m: ModRef, name: LyStr) -> Option<ModRef>;
impl ModRef { #[verifier::external_body] pub fn get_module(&self, name: LyStr) -> (r: Option<ModRef>) ensures r == child(*self, name) { None } }
/// <[T]>::split_at
#[verifier::external_body] pub fn verif_split_at(s: &[LyStr], mid: usize) -> (r: (&[LyStr], &[LyStr]))
  requires mid <= s@.len() ensures r.0@ == s@.subrange(0, mid as int), r.1@ == s@.subrange(mid as int, s@.len() as int) { unimplemented!() }
