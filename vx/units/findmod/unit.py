"""C17 / C16: find_missing_module (source_loader.rs) — given the root module of a package and an import path it answers the DEEPEST module on that
path that is already loaded, the segments that led to it and the segments still missing: found ++ missing is the path, the answer is reached
from the root by following `found`, and the first missing segment is not a child of the answer.  (D37: every level looked up path[0] instead of
path[level], so a three-level import `import self.a.b.c` re-created module b under a and hit a todo!().)"""
UNIT = dict(
  name='findmod',
  properties=['C17', 'C16'],
  items=[('laythe_vm/src/vm/source_loader.rs', ['fn find_missing_module'])],
  rewrites=[
    ('R7', 'find_missing_module', dict(pat=r'^(\s*(?:///?[^\n]*\n\s*)*)fn ', rep=r'\1pub fn ', regex=True, count=1)),
    ('R6', 'find_missing_module', dict(pat='Ref<Module>', rep='ModRef')),
    ('R6', 'find_missing_module', dict(pat=r'path\.split_at\(([^()]*(?:\([^()]*\))?[^()]*)\)', rep=r'verif_split_at(path, \1)', regex=True)),
  ],
  assumption_ids=['A-std'],
)
