// ---- iteration: enumerators and the by-name fallback (on top of the ops prelude) ------------------------------------------------------------
pub type Call = Result<Value, LyError>;
pub struct EnumRef { pub p: usize }
pub uninterp spec fn o_enum(o: ObjectRef) -> EnumRef;
pub uninterp spec fn enum_current(e: EnumRef) -> Value;
impl ObjectRef {
  #[verifier::external_body] pub fn to_enumerator(&self) -> (r: EnumRef) requires o_kind(*self) == ObjectKind::Enumerator ensures r == o_enum(*self) { EnumRef { p: 0 } }
}
pub open spec fn vm_frame(o: &Vm, n: &Vm) -> bool {
  n.raised == o.raised && n.ip == o.ip && n.builtin == o.builtin && n.call_log == o.call_log && n.capture_stub == o.capture_stub && n.called == o.called && n.invoked == o.invoked
}
impl EnumRef {
  /// Enumerator::next runs the native iterator (which may call back into Laythe code through the hooks).  A-native: it leaves the operand
  /// stack, the frames and the instruction pointer as it found them.
  #[verifier::external_body]
  pub fn verif_next(&mut self, vm: &mut Vm) -> (r: Call)
    ensures final(vm).fiber.stack == old(vm).fiber.stack, final(vm).fiber.frames == old(vm).fiber.frames, vm_frame(old(vm), final(vm)), *final(self) == *old(self)
  { Ok(Value { bits: 0 }) }
  #[verifier::external_body] pub fn current(&self) -> (r: Value) ensures r == enum_current(*self) { Value { bits: 0 } }
}
impl Vm {
  #[verifier::external_body]
  pub fn set_exit(&mut self, code: u16) -> (r: ExecutionSignal)
    ensures r == ExecutionSignal::Exit, final(self).fiber == old(self).fiber, vm_frame(old(self), final(self))
  { ExecutionSignal::Exit }
  /// the real Vm::invoke is under contract in the ops unit; here only what the iteration handlers hand to it is recorded
  #[verifier::external_body]
  pub fn invoke(&mut self, receiver: Value, method_name: LyStr, arg_count: u8) -> (r: ExecutionSignal)
    requires (arg_count as int) < old(self).fiber.stack@.len()
    ensures final(self).ip == old(self).ip, final(self).invoked@ == Some((receiver, method_name, arg_count, old(self).fiber.stack@)),
      // the call protocol (calls / ncall units): a native's result replaces callee and arguments, a closure's frame leaves them in place
      r == ExecutionSignal::Ok && arg_count == 0 ==> final(self).fiber.stack@.len() == old(self).fiber.stack@.len()
  { ExecutionSignal::Ok }
}
