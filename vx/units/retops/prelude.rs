// ---- frames as the fiber sees them on return (on top of the ops prelude) -----------------------------------------------------------------------
pub type Call = Result<Value, LyError>;
/// what popping the current frame answers: Some(signal) when it was the fiber's last frame (exitpath unit), None otherwise
pub uninterp spec fn pop_signal(vm: &Vm) -> Option<ExecutionSignal>;
impl Vm {
  /// real (exitpath unit + Fiber::pop_frame): drops the frame and resets the stack top to the frame's first slot — the callee slot, the arguments
  /// and every local above them go
  #[verifier::external_body]
  pub fn pop_frame(&mut self) -> (r: Option<ExecutionSignal>)
    requires 0 <= old(self).fiber.base@ <= old(self).fiber.stack@.len()
    ensures r == pop_signal(old(self)), r matches Some(s) ==> s == ExecutionSignal::Exit || s == ExecutionSignal::ContextSwitch,   // exitpath unit: Vm::pop_frame
      final(self).fiber.stack@ == old(self).fiber.stack@.subrange(0, old(self).fiber.base@), final(self).raised == old(self).raised, aux_same(old(self), final(self))
  { None }
}
