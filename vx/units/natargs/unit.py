"""C16 / C11: every native body only assumes what its declared signature guarantees.  GENERATED on every run from laythe_lib: for each native
(`native!` / `native_with_error!` + its `NativeMetaBuilder` constant + `impl LyNative .. fn call`) one Verus function whose precondition is what
the signature gate admits for that declaration (Native::check_if_valid_call, proved in the native unit: argument count within the arity, every
argument of the declared kind, variadic tail included, the receiver of a method first) and whose body is the UNCONDITIONAL ARGUMENT SLICE of the
real body: the `args[K]` indexings and the unwrap chains on them (`.to_num()`, `.to_obj().to_list()`, ..) that execute on every call, in source
order, copied as text.  The unwraps are stubs whose precondition is the kind they assume (in the real code: a panic in the default build, a
reinterpreted bit pattern under nan_boxing); slice indexing carries Verus' own bound obligation.

What the slice keeps / drops (stated so that a pass is not over-read):
  * kept: `if` statements (and `let X = if ..`) whose condition only tests the NUMBER of arguments (`args.is_empty()`, `args.len() > K`): the
    condition is kept and both branches are sliced by the same rules; `args[K]` chains in top-level statements of the body, up to and including the first statement that can leave the function (`return`,
    `?`), outside nested blocks and closures and before any `&&` / `||` of the statement; `args[N..].iter().map(|x| x.to_T())` and
    `args.iter()[.skip(N)].map(|x| x.to_T())` tails with an unwrap of the element become a loop over the tail
  * dropped: everything else — unwraps that are only reached conditionally (they may be guarded), unwraps of values that are not arguments
    (results of callbacks), the receiver `args[0]` of a method (its kind follows from the class the method is registered on, not from the gate)

Second family of generated obligations (I_<native>_<var>, C11): a Number argument that a body narrows to an index with `as usize` at top level
has passed an integrality test first (`if V.fract() != 0.0 { return error }`): a fractional or NaN index is an error, never silently truncated.
The slice keeps the top-level `if V.fract() != 0.0` / `if V < 0.0` early returns and the cast; a native whose statements between the binding and
the cast mention V in any other way is skipped with a note; casts nested in conditionals are not looked at."""
import os, re, hashlib, sys
sys.path.insert(0, os.path.dirname(os.path.dirname(os.path.dirname(os.path.abspath(__file__)))))
import rsitems

UNWRAPS = {'to_num': 'Number', 'to_bool': 'Bool', 'to_obj': 'Obj'}
OBJ_UNWRAPS = ['to_str', 'to_list', 'to_map', 'to_tuple', 'to_instance', 'to_class', 'to_closure', 'to_fun', 'to_method', 'to_native', 'to_enumerator', 'to_channel', 'to_fiber', 'to_box']
EXIT_WORDS = {'return', 'break', 'continue'}

def _cut_tests(s):
  m = re.search(r'\n#\[cfg\(test\)\]\s*\nmod \w+', s)
  return s if not m else s[:m.start()]

def _metas(body):
  out = {}
  for m in re.finditer(r'const (\w+): NativeMetaBuilder\s*=\s*NativeMetaBuilder::(fun|method)\(\s*([^,]+),\s*Arity::(\w+)\(([^)]*)\)\s*\)(.*?);', body, flags=re.S):
    params = re.findall(r'ParameterBuilder::new\(\s*"(\w+)",\s*ParameterKind::(\w+)\s*\)', m.group(6))
    out[m.group(1)] = dict(kind=m.group(2), arity=(m.group(4), [x.strip() for x in m.group(5).split(',') if x.strip()]), params=[k for _, k in params], line=body.count('\n', 0, m.start()) + 1)
  return out

def _statements(body):
  """top-level statements of a block body as (text, has_block) — split at depth-0 `;` and at the end of depth-0 `{..}` blocks"""
  toks = rsitems.lex(body)
  out, depth, start = [], 0, 0
  for k, t in enumerate(toks):
    if t.kind != 'p': continue
    if t.text in '([{': depth += 1
    elif t.text in ')]}':
      depth -= 1
      if depth == 0 and t.text == '}':
        # a block statement ends here unless an `else` / method chain / `;` follows
        nxt = next((x for x in toks[k + 1:] if x.kind not in ('ws', 'lc', 'bc')), None)
        if nxt is None or not (nxt.text in ('else', '.', ';', '?', ')', ',') or (nxt.kind == 'p' and nxt.text in '=<>+-*/&|')):
          out.append(body[start:t.end]); start = t.end
    elif t.text == ';' and depth == 0:
      out.append(body[start:t.end]); start = t.end
  if body[start:].strip(): out.append(body[start:])
  return out

def _uncond_part(stmt):
  """the prefix of a statement that is evaluated whenever the statement is reached: up to the first `{`, closure `|`, `&&` or `||`"""
  toks = rsitems.lex(stmt)
  sig = [t for t in toks if t.kind not in ('ws', 'lc', 'bc')]
  for n, t in enumerate(sig):
    if t.kind == 'p' and t.text == '{': return stmt[:t.start], True
    if t.kind == 'p' and t.text in '&|' and n + 1 < len(sig) and sig[n + 1].text == t.text and sig[n + 1].start == t.end: return stmt[:t.start], True
    if t.kind == 'p' and t.text == '|':   # closure
      return stmt[:t.start], True
  return stmt, False

def _can_exit(stmt):
  toks = [t for t in rsitems.lex(stmt) if t.kind not in ('ws', 'lc', 'bc', 'str', 'char')]
  return any((t.kind == 'id' and t.text in EXIT_WORDS) or (t.kind == 'p' and t.text == '?') or (t.kind == 'id' and t.text in ('panic', 'unreachable', 'todo')) for t in toks)

_LEN_COND = r'(!?\s*%s\s*\.\s*is_empty\(\)|%s\s*\.\s*len\(\)\s*(?:==|!=|>=|<=|>|<)\s*\d+)'

def _split_if(st, argn):
  """`[let X =] if COND { A } [else { B }] [;]` with COND a test of the argument COUNT only -> (cond_text, A, B or '') else None"""
  m = re.match(r'^\s*(?:let\s+(?:mut\s+)?\w+(?:\s*:\s*[^=]+)?\s*=\s*)?if\s+' + (_LEN_COND % (argn, argn)) + r'\s*\{', st)
  if not m: return None
  toks = rsitems.lex(st)
  kb = next(i for i, t in enumerate(toks) if t.end == m.end() and t.text == '{')
  kc = rsitems.match_close(toks, kb)
  a = st[toks[kb].end:toks[kc].start]
  rest = st[toks[kc].end:]
  me = re.match(r'^\s*else\s*\{', rest)
  b = ''
  if me:
    toks2 = rsitems.lex(rest)
    kb2 = next(i for i, t in enumerate(toks2) if t.end == me.end() and t.text == '{')
    kc2 = rsitems.match_close(toks2, kb2)
    b = rest[toks2[kb2].end:toks2[kc2].start]
    rest = rest[toks2[kc2].end:]
  if rest.strip() not in ('', ';'): return None
  cond = re.sub(r'\s+', '', m.group(1)).replace(argn + '.is_empty()', argn + '.len()==0')
  if cond.startswith('!'): cond = cond[1:].replace('==0', '!=0')
  return cond, a, b

def _slice_native(body, argn, depth=0):
  """-> list of slice items in source order: ('at', K, chain) / ('tail', N, chain) / ('if', cond, [items], [items]); the last element may be
  ('stop',) when a statement that can leave the function was reached (callers do not continue past it)"""
  out = []
  for st in _statements(body):
    sp = _split_if(st, argn) if depth < 3 else None
    if sp is not None:
      cond, a, b = sp
      ia, ib = _slice_native(a, argn, depth + 1), _slice_native(b, argn, depth + 1)
      stop_a = bool(ia) and ia[-1] == ('stop',); stop_b = bool(ib) and ib[-1] == ('stop',)
      out.append(('if', cond, [x for x in ia if x != ('stop',)], [x for x in ib if x != ('stop',)]))
      if stop_a or stop_b or _can_exit(st): out.append(('stop',)); break
      continue
    # variadic tails first (whole statement): args[N..].iter().map(|x| x.to_T()) / args.iter()[.skip(N)].map(|x| x.to_T())
    m = re.search(r'\b%s\[(\d+)\.\.\]\s*\.iter\(\)\s*\.(?:map|for_each|all|any|filter|fold)\(\s*\|(\w+)\|\s*\2((?:\s*\.\s*to_\w+\(\))+)' % argn, st)
    if m: out.append(('tail', int(m.group(1)), re.findall(r'to_\w+', m.group(3))))
    m = re.search(r'\b%s\s*\.iter\(\)(?:\s*\.skip\((\d+)\))?\s*\.(?:map|for_each|all|any|filter|fold)\(\s*\|(\w+)\|\s*\2((?:\s*\.\s*to_\w+\(\))+)' % argn, st)
    if m: out.append(('tail', int(m.group(1) or 0), re.findall(r'to_\w+', m.group(3))))
    head, cut = _uncond_part(st)
    for m in re.finditer(r'\b%s\[(\d+)\]((?:\s*\.\s*to_\w+\(\))*)' % argn, head):
      out.append(('at', int(m.group(1)), re.findall(r'to_\w+', m.group(2))))
    if _can_exit(st): out.append(('stop',)); break
  return out

# natives whose obligation FAILS on the tree and is a listed finding would be generated only in the `findings` variant of the unit, so that the
# main unit is the residual that holds.  None since D27 was repaired (List.collect / Tuple.collect / Iter.zip / Iter.chain now declare their
# iterator arguments as ParameterKind::Enumerator): every native is in the main unit
FINDING_NATIVES = []

def _index_slice(body, argn):
  """-> list of (var, [ops]) : for every `let V = ARGS[K].to_num();` at top level, the top-level statements up to the first `V as usize` cast that
  mention V, as ops: ('ret_if_fract',) for `if V.fract() != 0.0 { ..return.. }`, ('ret_if_neg',) for `if V < 0.0 { ..return.. }`, ('cast',) for a
  statement whose unconditional part contains `V as usize`; None when some statement mentions V in a way the slice does not understand"""
  out = []
  sts = _statements(body)
  for n, st in enumerate(sts):
    m = re.match(r'^\s*let\s+(?:mut\s+)?(\w+)\s*=\s*%s\[(\d+)\]\s*\.\s*to_num\(\)\s*;\s*$' % argn, st)
    if not m: continue
    v = m.group(1); ops = []; ok = True; seen_cast = False
    for st2 in sts[n + 1:]:
      if not re.search(r'\b%s\b' % v, st2): 
        if _can_exit(st2) and not seen_cast:
          # an exit that does not depend on V: later statements are conditional on it, but it cannot establish anything about V
          pass
        continue
      head, cut = _uncond_part(st2)
      if re.match(r'^\s*if\s+%s\s*\.\s*fract\(\)\s*!=\s*0\.0\s*$' % v, head) and _can_exit(st2): ops.append('ret_if_fract'); continue
      if re.match(r'^\s*if\s+%s\s*<\s*0\.0\s*$' % v, head) and _can_exit(st2): ops.append('ret_if_neg'); continue
      if re.search(r'\b%s\s+as\s+usize\b' % v, head): ops.append('cast'); seen_cast = True; break
      if re.match(r'^\s*let\s+(?:mut\s+)?%s\s*=' % v, st2): break       # shadowed by something else
      ok = False; break
    if ok and seen_cast: out.append((v, int(m.group(2)), ops))
    elif not ok and re.search(r'\b%s\s+as\s+usize\b' % v, ''.join(sts[n + 1:])): out.append((v, int(m.group(2)), None))
  return out

def generate(repo, variant=None):
  root = os.path.join(repo, 'laythe_lib', 'src')
  items, notes = [], []
  files = []
  for dp, _, fs in os.walk(root):
    for f in sorted(fs):
      if f.endswith('.rs'): files.append(os.path.join(dp, f))
  for p in sorted(files):
    src = open(p, encoding='utf-8').read()
    body = _cut_tests(src)
    metas = _metas(body)
    rel = os.path.relpath(p, repo)
    decls = [(m.group(1), m.group(2)) for m in re.finditer(r'\bnative(?:_with_error)?!\(\s*(\w+),\s*(\w+)\s*\);', body)]
    seen = {st for st, _ in decls}
    # natives declared by hand: `impl X { .. Native::new(META.build(hooks), ..) .. }` + `impl LyNative for X`
    for m in re.finditer(r'impl LyNative for (\w+) \{', body):
      if m.group(1) in seen: continue
      mi = re.search(r'\bimpl %s \{' % m.group(1), body)
      mm = re.search(r'Native::new\(\s*(\w+)\.build\(', body[mi.end():]) if mi else None
      if mm: decls.append((m.group(1), mm.group(1))); seen.add(m.group(1))
      else: notes.append('%s: %s skipped (no signature constant found for a hand-declared native)' % (rel, m.group(1)))
    for st, mname in decls:
      if (variant == 'findings') != (st in FINDING_NATIVES): continue
      md = metas.get(mname)
      mb = re.search(r'impl LyNative for %s \{\s*fn call\(&self,\s*(\w+): &mut Hooks,\s*(\w+): &\[Value\]\) -> Call \{' % st, body)
      if md is None or mb is None:
        notes.append('%s: %s skipped (%s)' % (rel, st, 'signature constant %s not in the plain builder form' % mname if md is None else 'no plain `fn call` body (generated by another macro)'))
        continue
      toks = rsitems.lex(body)
      ko = next(k for k, t in enumerate(toks) if t.end == mb.end())
      kc = rsitems.match_close(toks, ko)
      fbody = body[toks[ko].end:toks[kc].start]
      argn = mb.group(2)
      sl = _slice_native(fbody, argn)
      is_m = md['kind'] == 'method'
      ar, av = md['arity']
      try: nums = [int(x) for x in av]
      except ValueError:
        notes.append('%s: %s skipped (arity %s(%s) is not a literal)' % (rel, st, ar, ','.join(av))); continue
      off = 1 if is_m else 0
      kinds = (['Object'] if is_m else []) + md['params']
      arity = '%s(%s)' % (ar, ', '.join(str(n + off) for n in nums))
      gate_txt = 'gate(Arity::%s, seq![%s], args@)' % (arity, ', '.join('PK::' + k for k in kinds))
      def emit(items_, ind):
        ls = []
        for it in items_:
          if it == ('stop',): continue
          if it[0] == 'at':
            _, idx, chain = it
            if is_m and idx == 0: continue          # the receiver
            ls.append('%slet _ = args[%d]%s;' % (ind, idx, ''.join('.%s()' % c for c in chain)))
          elif it[0] == 'tail':
            _, idx, chain = it
            if is_m and idx == 0: idx = 1       # the receiver
            ls.append('%slet mut verif_t: usize = %d;\n%swhile verif_t < args.len() invariant verif_t >= %d, %s decreases args.len() - verif_t { let _ = args[verif_t]%s; verif_t += 1; }' % (
              ind, idx, ind, idx, gate_txt, ''.join('.%s()' % c for c in chain)))
          else:
            _, cond, ia, ib = it
            ls.append('%sif %s {\n%s\n%s} else {\n%s\n%s}' % (ind, cond, '\n'.join(emit(ia, ind + '  ')), ind, '\n'.join(emit(ib, ind + '  ')), ind))
        return ls
      lines = emit(sl, '  ')
      head = '/// %s:%d  %s (%s %s, params %s)\npub fn N_%s(args: &[Value])\n  requires gate(Arity::%s, seq![%s], args@),\n{' % (
        rel, body.count('\n', 0, mb.start()) + 1, st, md['kind'], arity, md['params'], st, arity, ', '.join('PK::' + k for k in kinds))
      text = head + '\n' + '\n'.join(lines) + '\n}\n'
      if variant is None:
        for v, k, ops in _index_slice(fbody, argn):
          if ops is None:
            notes.append('%s: %s index variable %s: a statement between its binding and its cast is outside the index slice (skipped)' % (rel, st, v)); continue
          ihead = '/// %s  %s: `%s = args[%d].to_num()` is narrowed to an index\npub fn I_%s_%s(%s: F64)\n{' % (rel, st, v, k, st, v, v)
          ibody = ''.join({'ret_if_fract': '  if verif_has_fract(%s) { return; }\n' % v, 'ret_if_neg': '  if verif_is_neg(%s) { return; }\n' % v, 'cast': '  let _ = verif_as_index(%s);\n' % v}[o] for o in ops)
          items.append(dict(path='I_%s_%s' % (st, v), text=ihead + '\n' + ibody + '}\n', body_at=len(ihead), file=rel, line=body.count('\n', 0, mb.start()) + 1,
                            sha256=hashlib.sha256(fbody.encode('utf-8')).hexdigest()[:16], tags=['C11', 'C16'], spec='a number narrowed to an index is integral'))
      items.append(dict(path='N_' + st, text=text, body_at=len(head), file=rel, line=body.count('\n', 0, mb.start()) + 1,
                        sha256=hashlib.sha256((fbody + repr(md)).encode('utf-8')).hexdigest()[:16], tags=['C16', 'C11'],
                        spec='requires gate(Arity::%s, [%s], args)' % (arity, ', '.join(kinds))))
  pre = '// generator notes:\n' + ''.join('//   %s\n' % n for n in notes)
  return dict(prelude=pre, contracts='', gen_items=items)

UNIT = dict(
  name='natargs',
  properties=['C16', 'C11'],
  items=[],
  rewrites=[],
  generate=generate,
  assumption_ids=['A-natargs'],
)
