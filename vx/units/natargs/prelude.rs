// ---- values, kinds and the signature gate as the native unit proves it (A-natargs) ------------------------------------------------------------
#[derive(Clone, Copy)] pub struct Value { pub bits: u64 }
#[derive(Clone, Copy)] pub struct Obj { pub p: usize }
#[derive(Clone, Copy, PartialEq, Eq, Structural)]
pub enum OK { String, List, Map, Tuple, Instance, Class, Closure, Fun, Method, Native, Enumerator, Channel, Fiber, LyBox }
pub uninterp spec fn v_is_num(v: Value) -> bool;
pub uninterp spec fn v_is_bool(v: Value) -> bool;
pub uninterp spec fn v_is_obj(v: Value) -> bool;
pub uninterp spec fn v_obj(v: Value) -> Obj;
pub uninterp spec fn o_kind(o: Obj) -> OK;
pub struct Unwrapped { }
impl Value {
  /// real: panics "Expected number." (enum build) / reinterprets the bits (nan_boxing)
  #[verifier::external_body] pub fn to_num(self) -> Unwrapped requires v_is_num(self) { Unwrapped { } }
  #[verifier::external_body] pub fn to_bool(self) -> Unwrapped requires v_is_bool(self) { Unwrapped { } }
  #[verifier::external_body] pub fn to_obj(self) -> (r: Obj) requires v_is_obj(self) ensures r == v_obj(self) { Obj { p: 0 } }
}
impl Obj {
  // real: unchecked casts of the payload pointer
  #[verifier::external_body] pub fn to_str(self) -> Unwrapped requires o_kind(self) == OK::String { Unwrapped { } }
  #[verifier::external_body] pub fn to_list(self) -> Unwrapped requires o_kind(self) == OK::List { Unwrapped { } }
  #[verifier::external_body] pub fn to_map(self) -> Unwrapped requires o_kind(self) == OK::Map { Unwrapped { } }
  #[verifier::external_body] pub fn to_tuple(self) -> Unwrapped requires o_kind(self) == OK::Tuple { Unwrapped { } }
  #[verifier::external_body] pub fn to_instance(self) -> Unwrapped requires o_kind(self) == OK::Instance { Unwrapped { } }
  #[verifier::external_body] pub fn to_class(self) -> Unwrapped requires o_kind(self) == OK::Class { Unwrapped { } }
  #[verifier::external_body] pub fn to_closure(self) -> Unwrapped requires o_kind(self) == OK::Closure { Unwrapped { } }
  #[verifier::external_body] pub fn to_fun(self) -> Unwrapped requires o_kind(self) == OK::Fun { Unwrapped { } }
  #[verifier::external_body] pub fn to_method(self) -> Unwrapped requires o_kind(self) == OK::Method { Unwrapped { } }
  #[verifier::external_body] pub fn to_native(self) -> Unwrapped requires o_kind(self) == OK::Native { Unwrapped { } }
  #[verifier::external_body] pub fn to_enumerator(self) -> Unwrapped requires o_kind(self) == OK::Enumerator { Unwrapped { } }
  #[verifier::external_body] pub fn to_channel(self) -> Unwrapped requires o_kind(self) == OK::Channel { Unwrapped { } }
  #[verifier::external_body] pub fn to_fiber(self) -> Unwrapped requires o_kind(self) == OK::Fiber { Unwrapped { } }
  #[verifier::external_body] pub fn to_box(self) -> Unwrapped requires o_kind(self) == OK::LyBox { Unwrapped { } }
}
/// ParameterKind and ParameterKind::is_valid (laythe_core/src/signature.rs): the same table, by variant name, that the sigkind unit proves of the
/// real is_valid (`kind_admits`)
#[derive(Clone, Copy, PartialEq, Eq, Structural)]
pub enum PK { Object, Bool, Number, String, Callable, Enumerator }
pub open spec fn kind_valid(k: PK, v: Value) -> bool {
  match k {
    PK::Object => true,
    PK::Bool => v_is_bool(v),
    PK::Number => v_is_num(v),
    PK::String => v_is_obj(v) && o_kind(v_obj(v)) == OK::String,
    PK::Callable => v_is_obj(v) && (o_kind(v_obj(v)) == OK::Closure || o_kind(v_obj(v)) == OK::Fun || o_kind(v_obj(v)) == OK::Native || o_kind(v_obj(v)) == OK::Method),
    PK::Enumerator => v_is_obj(v) && o_kind(v_obj(v)) == OK::Enumerator,
  }
}
#[derive(Clone, Copy, PartialEq, Eq, Structural)]
pub enum Arity { Fixed(int), Variadic(int), Default(int, int) }
pub open spec fn count_ok(a: Arity, n: int) -> bool {
  match a { Arity::Fixed(k) => n == k, Arity::Variadic(k) => n >= k, Arity::Default(lo, hi) => lo <= n <= hi }
}
/// the declared parameter that governs argument i (the variadic tail shares the last declared parameter): native unit, `param_for`
pub open spec fn kind_for(a: Arity, ks: Seq<PK>, i: int) -> PK {
  match a { Arity::Variadic(k) => if i >= k { ks[k] } else { ks[i] }, _ => ks[i] }
}
/// exactly the calls Native::check_if_valid_call admits (native unit: `call_ok`), for a signature built by NativeMetaBuilder
pub open spec fn gate(a: Arity, ks: Seq<PK>, args: Seq<Value>) -> bool {
  count_ok(a, args.len() as int) && forall|i: int| 0 <= i < args.len() ==> kind_valid(kind_for(a, ks, i), #[trigger] args[i])
}

// ---- numbers narrowed to indices (C11) -----------------------------------------------------------------------------------------------------------
#[derive(Clone, Copy)] pub struct F64 { pub bits: u64 }
/// the number has no fractional part (NaN and the infinities have none in this sense either: f64::fract() is NaN for them, != 0.0)
pub uninterp spec fn integral(x: F64) -> bool;
/// `x.fract() != 0.0`
#[verifier::external_body] pub fn verif_has_fract(x: F64) -> (r: bool) ensures r == !integral(x) { true }
/// `x < 0.0`
#[verifier::external_body] pub fn verif_is_neg(x: F64) -> (r: bool) { true }
/// `x as usize`: silently truncates a fraction and maps NaN to 0
#[verifier::external_body] pub fn verif_as_index(x: F64) -> (r: usize) requires integral(x) { 0 }
