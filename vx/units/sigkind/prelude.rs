// ---- trusted model of a value as the gate reads it (A-heap) -------------------------------------------------------------------------------------
#[derive(Clone, Copy)] pub struct Value { pub bits: u64 }
#[derive(Clone, Copy)] pub struct Obj { pub p: usize }
pub uninterp spec fn v_kind(v: Value) -> ValueKind;
pub uninterp spec fn v_obj(v: Value) -> Obj;
pub uninterp spec fn o_kind(o: Obj) -> ObjectKind;
impl Value {
  #[verifier::external_body] pub fn kind(&self) -> (r: ValueKind) ensures r == v_kind(*self) { unimplemented!() }
  /// real: panics "Expected object." on anything else
  #[verifier::external_body] pub fn to_obj(&self) -> (r: Obj) requires v_kind(*self) == ValueKind::Obj ensures r == v_obj(*self) { unimplemented!() }
  #[verifier::external_body] pub fn is_obj_kind(&self, kind: ObjectKind) -> (r: bool) ensures r == (v_kind(*self) == ValueKind::Obj && o_kind(v_obj(*self)) == kind) { unimplemented!() }
}
impl Obj { #[verifier::external_body] pub fn kind(&self) -> (r: ObjectKind) ensures r == o_kind(*self) { unimplemented!() } }
/// the builder a native's signature constant is (its parameter list is read by the natargs generator from the source text)
pub struct SignatureBuilder { pub arity: Arity }
