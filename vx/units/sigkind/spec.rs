/// the values a declared parameter kind admits (the table `kind_valid` of the natargs unit, by variant name)
pub open spec fn kind_admits(k: ParameterKind, v: Value) -> bool {
  match k {
    ParameterKind::Object => true,
    ParameterKind::Bool => v_kind(v) == ValueKind::Bool,
    ParameterKind::Number => v_kind(v) == ValueKind::Number,
    ParameterKind::String => v_kind(v) == ValueKind::Obj && o_kind(v_obj(v)) == ObjectKind::String,
    ParameterKind::Callable => v_kind(v) == ValueKind::Obj && (o_kind(v_obj(v)) == ObjectKind::Closure || o_kind(v_obj(v)) == ObjectKind::Fun
      || o_kind(v_obj(v)) == ObjectKind::Native || o_kind(v_obj(v)) == ObjectKind::Method),
    ParameterKind::Enumerator => v_kind(v) == ValueKind::Obj && o_kind(v_obj(v)) == ObjectKind::Enumerator,
  }
}
