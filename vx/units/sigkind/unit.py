"""C16 / C11: what the signature gate admits for a declared parameter kind — the real ParameterKind::is_valid over the real ParameterKind,
ValueKind and ObjectKind enums.  Its contract is the table the natargs unit uses for the gate (`kind_valid`, by variant name): Object admits
everything, Bool / Number exactly booleans / numbers, String exactly string objects, Callable exactly closures, functions, natives and bound
methods, Enumerator exactly enumerator objects — so a native body that unwraps an argument as its declared kind never meets another kind.  Also the
two small functions the natargs generator relies on for the shape of a method signature: SignatureBuilder::method_arity (the receiver is one more
argument in every component) and Arity::required_parameter (how many declared parameters an arity needs: the variadic tail shares one)."""
UNIT = dict(
  name='sigkind',
  properties=['C16', 'C11'],
  items=[
    ('laythe_core/src/value.rs', ['enum ValueKind']),
    ('laythe_core/src/object/mod.rs', ['enum ObjectKind']),
    ('laythe_core/src/signature.rs', ['enum ParameterKind', 'enum Arity', ('impl ParameterKind', ['is_valid']), ('impl Arity', ['required_parameter']), ('impl SignatureBuilder', ['method_arity'])]),
  ],
  rewrites=[
    ('R11', 'enum ValueKind', dict(drop=['Debug', 'Hash'], add=['Structural'])),
    ('R11', 'enum ObjectKind', dict(drop=['Debug', 'Hash'], add=['Structural'])),
    ('R11', 'enum ParameterKind', dict(drop=['Debug'], add=['Structural'], optional=True)),
    ('R11', 'enum Arity', dict(drop=['Debug'], add=['Structural'], optional=True)),
    ('R7', 'SignatureBuilder::method_arity', dict(pat=r'^(\s*(?:///?[^\n]*\n\s*)*)fn ', rep=r'\1pub fn ', regex=True, count=1)),
  ],
  assumption_ids=['A-heap'],
)
