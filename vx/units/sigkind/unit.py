"""C16 / C11: what the signature gate admits for a declared parameter kind — the real ParameterKind::is_valid over the real ParameterKind,
ValueKind and ObjectKind enums.  Its contract is the table the natargs unit uses for the gate (`kind_valid`, by variant name): Object admits
everything, Bool / Number exactly booleans / numbers, String exactly string objects, Callable exactly closures, functions, natives and bound
methods, Enumerator exactly enumerator objects — so a native body that unwraps an argument as its declared kind never meets another kind."""
UNIT = dict(
  name='sigkind',
  properties=['C16', 'C11'],
  items=[
    ('laythe_core/src/value.rs', ['enum ValueKind']),
    ('laythe_core/src/object/mod.rs', ['enum ObjectKind']),
    ('laythe_core/src/signature.rs', ['enum ParameterKind', ('impl ParameterKind', ['is_valid'])]),
  ],
  rewrites=[
    ('R11', 'enum ValueKind', dict(drop=['Debug', 'Hash'], add=['Structural'])),
    ('R11', 'enum ObjectKind', dict(drop=['Debug', 'Hash'], add=['Structural'])),
    ('R11', 'enum ParameterKind', dict(drop=['Debug'], add=['Structural'], optional=True)),
  ],
  assumption_ids=['A-heap'],
)
