/// i is the innermost local of that name: the LAST one declared
pub open spec fn is_local(locals: Seq<Local>, name: Seq<char>, i: int) -> bool {
  0 <= i < locals.len() && locals[i].symbol.name@ == name && forall|j: int| i < j < locals.len() ==> (#[trigger] locals[j]).symbol.name@ != name
}
pub open spec fn no_local(locals: Seq<Local>, name: Seq<char>) -> bool { forall|j: int| 0 <= j < locals.len() ==> (#[trigger] locals[j]).symbol.name@ != name }
pub open spec fn is_modstate(s: SymbolState) -> bool { s == SymbolState::ModuleInitialized || s == SymbolState::GlobalInitialized || s == SymbolState::AlreadyInitialized }
/// what a name resolves to in THIS function: (slot, state) of its innermost local, else the module table's symbol (slot 0), else nothing
pub open spec fn local_res(c: &Compiler, name: Seq<char>, r: Option<(u8, SymbolState)>) -> bool {
  &&& forall|i: int| is_local(c.locals@, name, i) ==> r == Some((i as u8, c.locals@[i].symbol.st))
  &&& no_local(c.locals@, name) ==> (match c.module_table { Some(t) => (match mod_state(t, name) { Some(s) => r == Some((0u8, s)), None => r is None }), None => r is None })
}
/// the resolver's guarantees the compiler relies on for this name (A-resolver, stated by name)
pub open spec fn resolved_ok(c: &Compiler, name: Seq<char>, r: Option<(u8, SymbolState)>) -> bool {
  match r {
    Some((_, s)) => s != SymbolState::Uninitialized && (is_modstate(s) ==> mod_slot(name) is Some),
    None => match capture_of(c, name) {
      Some((_, s)) => s != SymbolState::Uninitialized && s != SymbolState::LocalInitialized && (is_modstate(s) ==> mod_slot(name) is Some),
      None => c.repl,
    },
  }
}
/// C02: the one instruction a read (get = true) or write of the name becomes
pub open spec fn access_evs(c: &Compiler, name: Seq<char>, r: Option<(u8, SymbolState)>, get: bool) -> Seq<Ev> {
  match r {
    Some((slot, s)) =>
      if s == SymbolState::LocalInitialized { seq![Ev::Emit(if get { SymbolicByteCode::GetLocal(slot) } else { SymbolicByteCode::SetLocal(slot) })] }
      // a captured local lives in a box: every access, from its own function too, goes through the box
      else if s == SymbolState::LocalCaptured { seq![Ev::Emit(if get { SymbolicByteCode::GetBox(slot) } else { SymbolicByteCode::SetBox(slot) })] }
      else { seq![Ev::Emit(if get { SymbolicByteCode::GetModSym(mod_slot(name).unwrap()) } else { SymbolicByteCode::SetModSym(mod_slot(name).unwrap()) })] },
    None => match capture_of(c, name) {
      Some((idx, s)) =>
        if s == SymbolState::LocalCaptured { seq![Ev::Emit(if get { SymbolicByteCode::GetCapture(idx) } else { SymbolicByteCode::SetCapture(idx) })] }
        else { seq![Ev::Emit(if get { SymbolicByteCode::GetModSym(mod_slot(name).unwrap()) } else { SymbolicByteCode::SetModSym(mod_slot(name).unwrap()) })] },
      None => seq![Ev::Const(name), Ev::Emit(if get { SymbolicByteCode::GetModSym(name_const(name)) } else { SymbolicByteCode::SetModSym(name_const(name)) })],
    },
  }
}
pub proof fn lemma_local_unique(locals: Seq<Local>, name: Seq<char>, i: int, k: int)
  requires is_local(locals, name, i), is_local(locals, name, k), ensures i == k,
{ if i < k { assert(locals[k].symbol.name@ != name); } if k < i { assert(locals[i].symbol.name@ != name); } }
/// below n either no local has the name or one of them is the last that has it
pub proof fn lemma_local_total(locals: Seq<Local>, name: Seq<char>, n: int)
  requires 0 <= n <= locals.len(), forall|j: int| n <= j < locals.len() ==> (#[trigger] locals[j]).symbol.name@ != name,
  ensures no_local(locals, name) || exists|i: int| is_local(locals, name, i),
  decreases n
{
  if n > 0 {
    if locals[n - 1].symbol.name@ == name { assert(is_local(locals, name, n - 1)); }
    else { lemma_local_total(locals, name, n - 1); }
  }
}
pub proof fn lemma_res_unique(c: &Compiler, name: Seq<char>, r1: Option<(u8, SymbolState)>, r2: Option<(u8, SymbolState)>)
  requires local_res(c, name, r1), local_res(c, name, r2), ensures r1 == r2,
{
  lemma_local_total(c.locals@, name, c.locals@.len() as int);
  if !no_local(c.locals@, name) { let i = choose|i: int| is_local(c.locals@, name, i); }
}
