// ---- trusted model (A-compiler) ------------------------------------------------------------------------------------------------------------------
pub struct Token { pub name: Ghost<Seq<char>> }
impl Token {
  #[verifier::external_body] pub fn str(&self) -> (r: &str) ensures r@ == self.name@ { "" }
  #[verifier::external_body] pub fn end(&self) -> u32 { 0 }
}
/// a resolved symbol as the compiler sees it (the resolver's final table)
pub struct Symbol { pub name: Ghost<Seq<char>>, pub st: SymbolState }
impl Symbol {
  #[verifier::external_body] pub fn name(&self) -> (r: &str) ensures r@ == self.name@ { "" }
  #[verifier::external_body] pub fn state(&self) -> (r: SymbolState) ensures r == self.st { SymbolState::Uninitialized }
}
#[verifier::external_body] pub fn verif_str_eq(a: &str, b: &str) -> (r: bool) ensures r == (a@ == b@) { true }
/// panic!(..): never reached
#[verifier::external_body] pub fn verif_panic<T>() -> T requires false { unimplemented!() }
/// the module's table of the resolver
#[derive(Clone, Copy)] pub struct ModTab { pub p: usize }
pub uninterp spec fn mod_state(t: ModTab, name: Seq<char>) -> Option<SymbolState>;
impl ModTab {
  #[verifier::external_body] pub fn get(&self, name: &str) -> (r: Option<&Symbol>)
    ensures mod_state(*self, name@) is None ==> r is None, mod_state(*self, name@) matches Some(s) ==> (r matches Some(sym) && sym.st == s) { None }
}
pub enum Ev { Emit(SymbolicByteCode), Const(Seq<char>) }
pub struct Compiler { pub locals: Vec<Local>, pub module_table: Option<ModTab>, pub repl: bool, pub log: Ghost<Seq<Ev>> }
pub open spec fn quiet(o: &Compiler, n: &Compiler) -> bool { n.locals == o.locals && n.module_table == o.module_table && n.repl == o.repl }
/// what resolve_capture answers for a name (walks the enclosing compilers through raw parent pointers: not extracted); the index is this
/// closure's capture-table entry for the variable (add_capture: limitsc unit)
pub uninterp spec fn capture_of(c: &Compiler, name: Seq<char>) -> Option<(u8, SymbolState)>;
pub uninterp spec fn mod_slot(name: Seq<char>) -> Option<u16>;
pub uninterp spec fn name_const(name: Seq<char>) -> u16;
impl Compiler {
  #[verifier::external_body] pub fn emit_byte(&mut self, op: SymbolicByteCode, offset: u32) ensures quiet(old(self), final(self)), final(self).log@ == old(self).log@.push(Ev::Emit(op)) { }
  #[verifier::external_body] pub fn resolve_capture(&mut self, name: &str) -> (r: Option<(u8, SymbolState)>)
    ensures quiet(old(self), final(self)), final(self).log == old(self).log, r == capture_of(old(self), name@) { None }
  #[verifier::external_body] pub fn get_module_symbol_offset(&mut self, name: &str) -> (r: Option<u16>)
    ensures quiet(old(self), final(self)), final(self).log == old(self).log, r == mod_slot(name@) { None }
  #[verifier::external_body] pub fn identifier_constant(&mut self, name: &str) -> (r: u16)
    ensures quiet(old(self), final(self)), final(self).log@ == old(self).log@.push(Ev::Const(name@)), r == name_const(name@) { 0 }
}
