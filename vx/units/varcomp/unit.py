"""C02 (compile half: which instruction a variable access becomes): Compiler::{variable_get, variable_set, emit_local_get, emit_local_set,
resolve_local}.  A name is the INNERMOST local of that name (the last one declared, its slot counted from the bottom of the frame); a plain local
is read and written in its slot (GetLocal / SetLocal), a captured one through its box (GetBox / SetBox) — the same slot for read and write —, a
variable of an enclosing function through this closure's capture table (GetCapture / SetCapture), a module symbol by its module slot.  The panics
of these functions encode what the resolver guarantees; they are obligations under preconditions that state those guarantees by name."""
UNIT = dict(
  name='varcomp',
  properties=['C02', 'C15'],
  items=[
    ('laythe_vm/src/byte_code.rs', ['struct Label', 'enum CaptureIndex', 'enum SymbolicByteCode']),
    ('laythe_vm/src/compiler/ir/symbol_table.rs', ['enum SymbolState']),
    ('laythe_vm/src/compiler/mod.rs', ['struct Local', ("impl<'a, 'src: 'a> Compiler<'a, 'src>", ['variable_get', 'variable_set', 'emit_local_get', 'emit_local_set', 'resolve_local'])]),
  ],
  rewrites=[
    ('R7f', 'struct Label'),
    ('R11', 'struct Label', dict(drop=['Debug', 'Default', 'VariantCount'], add=['Structural'])),
    ('R11', 'enum CaptureIndex', dict(drop=['Debug', 'Default', 'VariantCount'], add=['Structural'])),
    ('R11', 'enum SymbolicByteCode', dict(drop=['Debug', 'Default', 'VariantCount'], add=['Structural'])),
    ('R11', 'enum SymbolicByteCode', dict(pat='  #[default]\n', rep='', count=1)),
    ('R11', 'enum SymbolicByteCode', dict(pat='  #[allow(dead_code)]\n', rep='', count=1)),
    ('R11', 'enum SymbolState', dict(drop=['Debug', 'Default'], add=['Structural'])),
    ('R11', 'enum SymbolState', dict(pat='  #[default]\n', rep='', count=1)),
    ('R11', 'struct Local', dict(drop=['Debug'], add=[])),
    ('R7f', 'struct Local'),
    ('R5', 'struct Local', dict(pat="pub struct Local<'a>", rep='pub struct Local', count=1)),
    ('R6', 'struct Local', dict(pat="&'a Symbol", rep='Symbol', count=1)),
    ('R5', 'kind:implhdr', dict(pat=r"impl<'a, 'src: 'a> Compiler<'a, 'src> \{", rep='impl Compiler {', regex=True, optional=True)),
    ('R5', 'Compiler::*', dict(pat=r"Token<'src>", rep='Token', regex=True, optional=True)),
    ('R7', 'Compiler::*', dict(pat=r'^(\s*(?:///?[^\n]*\n\s*)*)fn ', rep=r'\1pub fn ', regex=True, optional=True)),
    # R3: panics that encode resolver guarantees -> calls of a `requires false` stub (messages dropped)
    ('R3', 'Compiler::*', dict(pat=r'panic!\((?:[^()]|\((?:[^()]|\([^()]*\))*\))*\)(\s*;)', rep=r'verif_panic::<()>()\1', regex=True, optional=True)),
    ('R3', 'Compiler::*', dict(pat=r'panic!\((?:[^()]|\((?:[^()]|\([^()]*\))*\))*\)', rep='verif_panic()', regex=True, optional=True)),
    # R13: `for (i, local) in self.locals.iter().rev().enumerate()` -> index loop, innermost first
    ('R13', 'Compiler::resolve_local', dict(pat=r'for \(i, local\) in self\.locals\.iter\(\)\.rev\(\)\.enumerate\(\) \{', rep='let mut i: usize = 0;\n    while i < self.locals.len() {\n      let local = &self.locals[self.locals.len() - 1 - i];', regex=True, count=1)),
    ('R13', 'Compiler::resolve_local', dict(pat=r'(\}\s*)(\}\s*if let Some\(global_table\) = self\.module_table)', rep=r'\1  i += 1;\n    \2', regex=True, count=1)),
    ('R6', 'Compiler::resolve_local', dict(pat='name == local.symbol.name()', rep='verif_str_eq(name, local.symbol.name())', count=1)),
  ],
  assumption_ids=['A-compiler', 'A-resolver'],
)
