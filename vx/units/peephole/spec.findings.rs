// ---- C06 / C04: the depth the interpreter really has, along every control-flow path ---------------------------
pub open spec fn label_pos(code: Seq<SymbolicByteCode>, l: Label, p: int) -> bool { 0 <= p < code.len() && code[p] == SymbolicByteCode::Label(l) }

pub open spec fn falls_through(i: SymbolicByteCode) -> bool {
  !(i is Jump || i is Loop || i == SymbolicByteCode::Return || i == SymbolicByteCode::Raise || i == SymbolicByteCode::ContinueUnwind)
}

/// effect on the taken edge of a branching instruction (and/or keep their operand when they jump)
pub open spec fn eff_taken(i: SymbolicByteCode) -> int {
  match i { SymbolicByteCode::And(_) | SymbolicByteCode::Or(_) => 0, _ => eff(i) }
}

pub open spec fn branch_target(i: SymbolicByteCode) -> Option<Label> {
  match i {
    SymbolicByteCode::And(l) | SymbolicByteCode::Or(l) | SymbolicByteCode::JumpIfFalse(l) | SymbolicByteCode::Jump(l)
    | SymbolicByteCode::Loop(l) | SymbolicByteCode::CheckHandler(l) => Some(l),
    _ => None,
  }
}

/// d[k] = operand-stack depth (callee slot and parameters included) before instruction k, on every path
pub open spec fn cfg_depth_ok(code: Seq<SymbolicByteCode>, arity: int, d: Seq<int>) -> bool {
  &&& d.len() == code.len() + 1
  &&& d[0] == 1 + arity
  &&& forall|k: int| 0 <= k < code.len() && falls_through(code[k]) ==> #[trigger] d[k + 1] == d[k] + eff(code[k])
  &&& forall|k: int, p: int| 0 <= k < code.len() && (branch_target(code[k]) matches Some(l) && label_pos(code, l, p))
        ==> #[trigger] d[p] == #[trigger] d[k] + eff_taken(code[k])
}

/// C06/C04 property obligation: each handler records exactly the depth that is live where its try begins.
/// apply_stack_effects records lin_depth (proved in contracts.vrs), so the property is this equation.
pub proof fn handler_depth_is_live_depth(code: Seq<SymbolicByteCode>, arity: int, d: Seq<int>, k: int)
  requires cfg_depth_ok(code, arity, d), 0 <= k < code.len(), code[k] is PushHandler,
  ensures lin_depth(code, k) == d[k],
{
}

/// C06 property obligation: the reserved capacity covers the real depth on every path
pub proof fn max_slots_covers_live_depth(code: Seq<SymbolicByteCode>, arity: int, d: Seq<int>, k: int)
  requires cfg_depth_ok(code, arity, d), 0 <= k <= code.len(),
  ensures exists|j: int| 0 <= j <= code.len() && lin_depth(code, j) + arity >= d[k],
{
}
