// =====================================================================================================
// peephole unit — specification (no assumptions may appear in this file; axioms live in prelude.rs)
// =====================================================================================================

// ---- VecCursor: reader/writer cursors over one vector --------------------------------------------------
impl<T> VecCursor<T> {
  pub open spec fn wf(&self) -> bool {
    self.writer <= self.reader && self.reader <= self.vec.len() && self.vec.len() < usize::MAX
  }
  /// what has been emitted so far
  pub open spec fn written(&self) -> Seq<T> { self.vec@.subrange(0, self.writer as int) }
  /// what is still to be examined (never modified: writes land strictly below the reader)
  pub open spec fn unread(&self) -> Seq<T> { self.vec@.subrange(self.reader as int, self.vec.len() as int) }
  /// the program the cursor currently denotes
  pub open spec fn prog(&self) -> Seq<T> { self.written() + self.unread() }
}

pub open spec fn lockstep(i: &VecCursor<SymbolicByteCode>, l: &VecCursor<u16>) -> bool {
  i.reader == l.reader && i.writer == l.writer && i.vec.len() == l.vec.len()
}

// ---- abstract stack machine for the instructions the rules touch --------------------------------------
pub enum Loc { Local(u8), Boxed(u8), Capture(u8), ModSym(u16) }

/// `other` stands for everything the rules never look at (heap, frames, handlers, the trace of calls,
/// stores and control transfers performed so far); opaque instructions may change all of it.
pub struct St { pub err: bool, pub stack: Seq<int>, pub store: Map<Loc, int>, pub other: int }

pub open spec fn st_error() -> St { St { err: true, stack: Seq::empty(), store: Map::empty(), other: 0 } }

pub open spec fn st_pop(st: St, n: int) -> St {
  if st.err { st } else if n < 0 || st.stack.len() < n { st_error() }
  else { St { stack: st.stack.subrange(0, st.stack.len() - n), ..st } }
}
pub open spec fn st_push(st: St, v: int) -> St {
  if st.err { st } else { St { stack: st.stack.push(v), ..st } }
}
pub open spec fn st_get(st: St, l: Loc) -> St {
  if st.err { st } else { st_push(st, st.store[l]) }
}
pub open spec fn st_set(st: St, l: Loc) -> St {
  if st.err { st } else if st.stack.len() == 0 { st_error() } else { St { store: st.store.insert(l, st.stack.last()), ..st } }
}

/// every instruction the rules do not interpret: an arbitrary but fixed function of instruction and state
pub uninterp spec fn opaque_step(i: SymbolicByteCode, st: St) -> St;

pub open spec fn step(i: SymbolicByteCode, st: St) -> St {
  if st.err { st } else {
    match i {
      SymbolicByteCode::Drop => st_pop(st, 1),
      SymbolicByteCode::DropN(n) => st_pop(st, n as int),
      SymbolicByteCode::Dup => if st.stack.len() == 0 { st_error() } else { st_push(st, st.stack.last()) },
      SymbolicByteCode::GetLocal(s) => st_get(st, Loc::Local(s)),
      SymbolicByteCode::SetLocal(s) => st_set(st, Loc::Local(s)),
      SymbolicByteCode::GetBox(s) => st_get(st, Loc::Boxed(s)),
      SymbolicByteCode::SetBox(s) => st_set(st, Loc::Boxed(s)),
      SymbolicByteCode::GetCapture(s) => st_get(st, Loc::Capture(s)),
      SymbolicByteCode::SetCapture(s) => st_set(st, Loc::Capture(s)),
      SymbolicByteCode::GetModSym(s) => st_get(st, Loc::ModSym(s)),
      SymbolicByteCode::SetModSym(s) => st_set(st, Loc::ModSym(s)),
      SymbolicByteCode::Label(_) | SymbolicByteCode::ArgumentDelimiter => st,
      _ => { let r = opaque_step(i, st); if r.err { st_error() } else { r } },
    }
  }
}

/// unconditional transfers: execution of the straight-line segment ends here
pub open spec fn is_stop(i: SymbolicByteCode) -> bool {
  i is Jump || i is Loop || i == SymbolicByteCode::Return || i == SymbolicByteCode::Raise
}

/// run a straight-line segment from its first instruction; (final state, stopped at a transfer?)
pub open spec fn run(code: Seq<SymbolicByteCode>, st: St) -> (St, bool)
  decreases code.len()
{
  if code.len() == 0 { (st, false) }
  else if is_stop(code[0]) { (step(code[0], st), true) }
  else { run(code.subrange(1, code.len() as int), step(code[0], st)) }
}

pub open spec fn equiv_code(a: Seq<SymbolicByteCode>, b: Seq<SymbolicByteCode>) -> bool {
  forall|st: St| #![trigger run(a, st)] #![trigger run(b, st)] run(a, st) == run(b, st)
}

// ---- labels -----------------------------------------------------------------------------------------
pub open spec fn is_label(i: SymbolicByteCode) -> bool { i is Label }

/// the labels of a program, in order
pub open spec fn labels(code: Seq<SymbolicByteCode>) -> Seq<SymbolicByteCode>
  decreases code.len()
{
  if code.len() == 0 { Seq::empty() }
  else if is_label(code.last()) { labels(code.drop_last()).push(code.last()) }
  else { labels(code.drop_last()) }
}

pub open spec fn no_labels(code: Seq<SymbolicByteCode>) -> bool { forall|k: int| 0 <= k < code.len() ==> !is_label(#[trigger] code[k]) }

/// the code starting at the first occurrence of label `l` (empty when absent): "started at a jump target"
pub open spec fn sfx(code: Seq<SymbolicByteCode>, l: Label) -> Seq<SymbolicByteCode>
  decreases code.len()
{
  if code.len() == 0 { code }
  else if code[0] == SymbolicByteCode::Label(l) { code }
  else { sfx(code.subrange(1, code.len() as int), l) }
}

pub open spec fn has_label(code: Seq<SymbolicByteCode>, l: Label) -> bool {
  exists|k: int| 0 <= k < code.len() && #[trigger] code[k] == SymbolicByteCode::Label(l)
}

/// C12, as a relation between two instruction vectors: same labels in the same order, same behaviour from
/// the entry, same behaviour from every jump target.  (All transfer instructions are kept verbatim, so
/// targets coincide and segment-wise equality is a bisimulation of the two control-flow graphs.)
#[verifier::opaque]
pub open spec fn equiv_prog(p: Seq<SymbolicByteCode>, q: Seq<SymbolicByteCode>) -> bool {
  &&& labels(p) == labels(q)
  &&& equiv_code(p, q)
  &&& forall|l: Label| equiv_code(#[trigger] sfx(p, l), sfx(q, l))
}

/// A-delim, what Compiler::call emits: a call with arguments is separated from its last argument
#[verifier::opaque]
pub open spec fn delimited(code: Seq<SymbolicByteCode>) -> bool {
  forall|k: int| 0 <= k < code.len() ==> (#[trigger] code[k] matches SymbolicByteCode::Call(n) ==> n == 0 || (k > 0 && code[k - 1] == SymbolicByteCode::ArgumentDelimiter))
}

// ---- lemmas: composition ----------------------------------------------------------------------------
pub proof fn lemma_run_concat(a: Seq<SymbolicByteCode>, b: Seq<SymbolicByteCode>, st: St)
  ensures run(a + b, st) == (if run(a, st).1 { run(a, st) } else { run(b, run(a, st).0) }),
  decreases a.len(),
{
  if a.len() == 0 {
    assert(a + b =~= b);
  } else {
    let ab = a + b;
    assert(ab[0] == a[0]);
    assert(ab.subrange(1, ab.len() as int) =~= a.subrange(1, a.len() as int) + b);
    if !is_stop(a[0]) {
      lemma_run_concat(a.subrange(1, a.len() as int), b, step(a[0], st));
    }
  }
}

pub proof fn lemma_equiv_context(w: Seq<SymbolicByteCode>, a: Seq<SymbolicByteCode>, b: Seq<SymbolicByteCode>, u: Seq<SymbolicByteCode>)
  requires equiv_code(a, b),
  ensures equiv_code(w + a + u, w + b + u),
{
  assert forall|st: St| #[trigger] run(w + a + u, st) == run(w + b + u, st) by {
    lemma_run_concat(w + a, u, st);
    lemma_run_concat(w + b, u, st);
    lemma_run_concat(w, a, st);
    lemma_run_concat(w, b, st);
    let s1 = run(w, st).0;
    assert(run(a, s1) == run(b, s1));
  }
}

pub proof fn lemma_labels_concat(a: Seq<SymbolicByteCode>, b: Seq<SymbolicByteCode>)
  ensures labels(a + b) == labels(a) + labels(b),
  decreases b.len(),
{
  if b.len() == 0 {
    assert(a + b =~= a);
    assert(labels(a) + labels(b) =~= labels(a));
  } else {
    let ab = a + b;
    assert(ab.last() == b.last());
    assert(ab.drop_last() =~= a + b.drop_last());
    lemma_labels_concat(a, b.drop_last());
    if is_label(b.last()) {
      assert((labels(a) + labels(b.drop_last())).push(b.last()) =~= labels(a) + labels(b.drop_last()).push(b.last()));
    }
  }
}

pub proof fn lemma_no_labels_filter(a: Seq<SymbolicByteCode>)
  requires no_labels(a),
  ensures labels(a) == Seq::<SymbolicByteCode>::empty(),
  decreases a.len(),
{
  if a.len() > 0 {
    assert(no_labels(a.drop_last())) by {
      assert forall|k: int| 0 <= k < a.drop_last().len() implies !is_label(#[trigger] a.drop_last()[k]) by { assert(a.drop_last()[k] == a[k]); }
    }
    lemma_no_labels_filter(a.drop_last());
    assert(!is_label(a.last())) by { assert(a.last() == a[a.len() - 1]); }
  }
}

pub proof fn lemma_sfx_concat(a: Seq<SymbolicByteCode>, b: Seq<SymbolicByteCode>, l: Label)
  ensures
    has_label(a, l) ==> sfx(a + b, l) == sfx(a, l) + b,
    !has_label(a, l) ==> sfx(a + b, l) == sfx(b, l),
  decreases a.len(),
{
  if a.len() == 0 {
    assert(a + b =~= b);
  } else {
    let ab = a + b;
    let a1 = a.subrange(1, a.len() as int);
    assert(ab[0] == a[0]);
    assert(ab.subrange(1, ab.len() as int) =~= a1 + b);
    if a[0] == SymbolicByteCode::Label(l) {
      assert(has_label(a, l));
    } else {
      lemma_sfx_concat(a1, b, l);
      if has_label(a, l) {
        let k = choose|k: int| 0 <= k < a.len() && #[trigger] a[k] == SymbolicByteCode::Label(l);
        assert(a1[k - 1] == a[k]);
        assert(has_label(a1, l));
      } else {
        assert forall|k: int| 0 <= k < a1.len() implies #[trigger] a1[k] != SymbolicByteCode::Label(l) by { assert(a1[k] == a[k + 1]); }
      }
    }
  }
}

pub proof fn lemma_no_labels_has(a: Seq<SymbolicByteCode>, l: Label)
  requires no_labels(a),
  ensures !has_label(a, l),
{
  if has_label(a, l) {
    let k = choose|k: int| 0 <= k < a.len() && #[trigger] a[k] == SymbolicByteCode::Label(l);
    assert(is_label(a[k]));
  }
}

/// the congruence that lifts a local window rewrite `a -> b` to the whole program
pub proof fn lemma_rewrite(w: Seq<SymbolicByteCode>, a: Seq<SymbolicByteCode>, b: Seq<SymbolicByteCode>, u: Seq<SymbolicByteCode>)
  requires no_labels(a), no_labels(b), equiv_code(a, b),
  ensures equiv_prog(w + a + u, w + b + u),
{
  reveal(equiv_prog);
  lemma_equiv_context(w, a, b, u);
  lemma_labels_concat(w + a, u); lemma_labels_concat(w, a);
  lemma_labels_concat(w + b, u); lemma_labels_concat(w, b);
  lemma_no_labels_filter(a); lemma_no_labels_filter(b);
  assert forall|l: Label| equiv_code(#[trigger] sfx(w + a + u, l), sfx(w + b + u, l)) by {
    assert(w + a + u =~= w + (a + u));
    assert(w + b + u =~= w + (b + u));
    lemma_sfx_concat(w, a + u, l);
    lemma_sfx_concat(w, b + u, l);
    lemma_no_labels_has(a, l); lemma_no_labels_has(b, l);
    lemma_sfx_concat(a, u, l);
    lemma_sfx_concat(b, u, l);
    if has_label(w, l) {
      let s = sfx(w, l);
      lemma_equiv_context(s, a, b, u);
      assert(s + (a + u) =~= s + a + u);
      assert(s + (b + u) =~= s + b + u);
    }
  }
}

pub proof fn lemma_equiv_prog_refl(p: Seq<SymbolicByteCode>)
  ensures equiv_prog(p, p),
{ reveal(equiv_prog); }

pub proof fn lemma_equiv_prog_trans(p: Seq<SymbolicByteCode>, q: Seq<SymbolicByteCode>, r: Seq<SymbolicByteCode>)
  requires equiv_prog(p, q), equiv_prog(q, r),
  ensures equiv_prog(p, r),
{
  reveal(equiv_prog);
  assert forall|st: St| #[trigger] run(p, st) == run(r, st) by { assert(run(p, st) == run(q, st)); }
  assert forall|l: Label| equiv_code(#[trigger] sfx(p, l), sfx(r, l)) by {
    assert(equiv_code(sfx(p, l), sfx(q, l)));
    assert(equiv_code(sfx(q, l), sfx(r, l)));
    assert forall|st: St| #[trigger] run(sfx(p, l), st) == run(sfx(r, l), st) by { assert(run(sfx(p, l), st) == run(sfx(q, l), st)); }
  }
}

// ---- lemmas: the individual rules -------------------------------------------------------------------
pub open spec fn drops(k: nat) -> Seq<SymbolicByteCode> { Seq::new(k, |j: int| SymbolicByteCode::Drop) }

pub proof fn lemma_run_drops(k: nat, st: St)
  ensures !run(drops(k), st).1, run(drops(k), st).0 =~= st_pop(st, k as int),
  decreases k,
{
  if k > 0 {
    let d = drops(k);
    assert(d[0] == SymbolicByteCode::Drop);
    assert(d.subrange(1, d.len() as int) =~= drops((k - 1) as nat));
    let s1 = step(SymbolicByteCode::Drop, st);
    lemma_run_drops((k - 1) as nat, s1);
    if !st.err && st.stack.len() >= k as int {
      assert(st_pop(s1, k - 1).stack =~= st_pop(st, k as int).stack);
    }
  } else {
    assert(drops(0).len() == 0);
    if !st.err { assert(st.stack.subrange(0, st.stack.len() as int) =~= st.stack); }
  }
}

/// merging drops: k >= 2 consecutive `Drop` behave as one `DropN(k)` (k fits the u8 operand)
pub proof fn lemma_rule_drop(k: nat)
  requires 2 <= k <= 255,
  ensures equiv_code(drops(k), seq![SymbolicByteCode::DropN(k as u8)]),
{
  let o = seq![SymbolicByteCode::DropN(k as u8)];
  assert forall|st: St| #[trigger] run(drops(k), st) == run(o, st) by {
    lemma_run_drops(k, st);
    lemma_run1(o[0], st);
    assert(o =~= seq![o[0]]);
    assert(o.subrange(1, 1) =~= Seq::<SymbolicByteCode>::empty());
    assert(run(o, st) == run(o.subrange(1, 1), step(o[0], st)));
  }
}

pub open spec fn is_setter(s: SymbolicByteCode, g: SymbolicByteCode) -> bool {
  ||| (s matches SymbolicByteCode::SetLocal(a) && g == SymbolicByteCode::GetLocal(a))
  ||| (s matches SymbolicByteCode::SetBox(a) && g == SymbolicByteCode::GetBox(a))
  ||| (s matches SymbolicByteCode::SetCapture(a) && g == SymbolicByteCode::GetCapture(a))
  ||| (s matches SymbolicByteCode::SetModSym(a) && g == SymbolicByteCode::GetModSym(a))
}

pub proof fn lemma_run3(a: SymbolicByteCode, b: SymbolicByteCode, c: SymbolicByteCode, st: St)
  requires !is_stop(a), !is_stop(b), !is_stop(c),
  ensures run(seq![a, b, c], st) == (step(c, step(b, step(a, st))), false),
{
  let s = seq![a, b, c];
  assert(s.subrange(1, 3) =~= seq![b, c]);
  assert(seq![b, c].subrange(1, 2) =~= seq![c]);
  assert(seq![c].subrange(1, 1) =~= Seq::<SymbolicByteCode>::empty());
  assert(run(seq![c], step(b, step(a, st))) == run(Seq::<SymbolicByteCode>::empty(), step(c, step(b, step(a, st)))));
  assert(run(seq![b, c], step(a, st)) == run(seq![c], step(b, step(a, st))));
}

pub proof fn lemma_run2(a: SymbolicByteCode, b: SymbolicByteCode, st: St)
  requires !is_stop(a), !is_stop(b),
  ensures run(seq![a, b], st) == (step(b, step(a, st)), false),
{
  let s = seq![a, b];
  assert(s.subrange(1, 2) =~= seq![b]);
  assert(seq![b].subrange(1, 1) =~= Seq::<SymbolicByteCode>::empty());
  assert(run(seq![b], step(a, st)) == run(Seq::<SymbolicByteCode>::empty(), step(b, step(a, st))));
}

pub proof fn lemma_run1(a: SymbolicByteCode, st: St)
  requires !is_stop(a),
  ensures run(seq![a], st) == (step(a, st), false),
{
  assert(seq![a].subrange(1, 1) =~= Seq::<SymbolicByteCode>::empty());
  assert(run(seq![a], st) == run(Seq::<SymbolicByteCode>::empty(), step(a, st)));
}

/// removing the drop between a store and a reload of the same variable
pub proof fn lemma_rule_eliminate_drop(s: SymbolicByteCode, g: SymbolicByteCode)
  requires is_setter(s, g),
  ensures equiv_code(seq![s, SymbolicByteCode::Drop, g], seq![s]),
{
  let a3 = seq![s, SymbolicByteCode::Drop, g];
  let b1 = seq![s];
  assert forall|st: St| #[trigger] run(a3, st) == run(b1, st) by {
    lemma_run3(s, SymbolicByteCode::Drop, g, st);
    lemma_run1(s, st);
    let s1 = step(s, st);
    if !s1.err {
      let s3 = step(g, step(SymbolicByteCode::Drop, s1));
      assert(s3.stack =~= s1.stack);
    }
  }
}

pub open spec fn is_getter(g: SymbolicByteCode) -> bool {
  g is GetLocal || g is GetBox || g is GetCapture || g is GetModSym
}

/// replacing a repeated load by a duplication: one more copy of `g` after `g` is `Dup`
pub proof fn lemma_get_dup(g: SymbolicByteCode, st: St)
  requires is_getter(g),
  ensures step(g, step(g, st)) == step(SymbolicByteCode::Dup, step(g, st)),
{
  let s1 = step(g, st);
  if !s1.err {
    assert(s1.stack.last() == s1.stack[s1.stack.len() - 1]);
  }
}

/// after a load `g`, any number of `Dup` leaves a state in which another `g` is again a `Dup`
pub open spec fn dup_tail(g: SymbolicByteCode, k: nat) -> Seq<SymbolicByteCode> { seq![g] + Seq::new(k, |j: int| SymbolicByteCode::Dup) }
pub open spec fn get_run(g: SymbolicByteCode, k: nat) -> Seq<SymbolicByteCode> { Seq::new(k, |j: int| g) }

pub proof fn lemma_run_push(code: Seq<SymbolicByteCode>, i: SymbolicByteCode, st: St)
  requires !is_stop(i),
  ensures run(code.push(i), st) == (if run(code, st).1 { run(code, st) } else { (step(i, run(code, st).0), false) }),
{
  assert(code.push(i) =~= code + seq![i]);
  lemma_run_concat(code, seq![i], st);
  lemma_run1(i, run(code, st).0);
}

/// after one or more loads of `g` (and nothing else) the top of the stack holds the variable's value
pub open spec fn loaded(g: SymbolicByteCode, st: St, r: (St, bool)) -> bool {
  !r.1 && (r.0.err || (!st.err && r.0.stack.len() > 0 && r.0.stack.last() == r.0.store[loc_of(g)]))
}

pub proof fn lemma_rule_load_multiple(g: SymbolicByteCode, k: nat)
  requires is_getter(g), k >= 1,
  ensures
    equiv_code(get_run(g, k), dup_tail(g, (k - 1) as nat)),
    forall|st: St| loaded(g, st, #[trigger] run(get_run(g, k), st)),
  decreases k,
{
  let a = get_run(g, k);
  let b = dup_tail(g, (k - 1) as nat);
  if k == 1 {
    assert(a =~= seq![g]);
    assert(b =~= seq![g]);
    assert forall|st: St| loaded(g, st, #[trigger] run(a, st)) by { lemma_run1(g, st); }
  } else {
    let a1 = get_run(g, (k - 1) as nat);
    let b1 = dup_tail(g, (k - 2) as nat);
    lemma_rule_load_multiple(g, (k - 1) as nat);
    assert(a =~= a1.push(g));
    assert(b =~= b1.push(SymbolicByteCode::Dup));
    assert forall|st: St| #[trigger] run(a, st) == run(b, st) by {
      lemma_run_push(a1, g, st);
      lemma_run_push(b1, SymbolicByteCode::Dup, st);
      assert(run(a1, st) == run(b1, st));
      assert(loaded(g, st, run(a1, st)));
    }
    assert forall|st: St| loaded(g, st, #[trigger] run(a, st)) by {
      lemma_run_push(a1, g, st);
      assert(loaded(g, st, run(a1, st)));
    }
  }
}

pub open spec fn loc_of(g: SymbolicByteCode) -> Loc {
  match g {
    SymbolicByteCode::GetLocal(s) => Loc::Local(s),
    SymbolicByteCode::GetBox(s) => Loc::Boxed(s),
    SymbolicByteCode::GetCapture(s) => Loc::Capture(s),
    SymbolicByteCode::GetModSym(s) => Loc::ModSym(s),
    _ => Loc::Local(0),
  }
}

/// deleting code after an unconditional transfer (up to the next label)
pub proof fn lemma_rule_dead_code(t: SymbolicByteCode, d: Seq<SymbolicByteCode>)
  requires is_stop(t),
  ensures equiv_code(seq![t] + d, seq![t]),
{
  let a = seq![t] + d;
  let b = seq![t];
  assert forall|st: St| #[trigger] run(a, st) == run(b, st) by {
    assert(a[0] == t);
  }
}

/// the argument delimiter emits nothing and does nothing
pub proof fn lemma_rule_delimiter()
  ensures equiv_code(seq![SymbolicByteCode::ArgumentDelimiter], Seq::<SymbolicByteCode>::empty()),
{
  let a = seq![SymbolicByteCode::ArgumentDelimiter];
  let b = Seq::<SymbolicByteCode>::empty();
  assert forall|st: St| #[trigger] run(a, st) == run(b, st) by {
    lemma_run1(SymbolicByteCode::ArgumentDelimiter, st);
  }
}

/// fusing property-get + call into invoke (A-invoke is the instruction-set axiom in prelude.rs)
pub proof fn lemma_rule_invoke(s: u16)
  ensures equiv_code(seq![SymbolicByteCode::GetPropByName(s), SymbolicByteCode::PropertySlot, SymbolicByteCode::Call(0)],
                     seq![SymbolicByteCode::Invoke((s, 0)), SymbolicByteCode::InvokeSlot]),
{
  let a = seq![SymbolicByteCode::GetPropByName(s), SymbolicByteCode::PropertySlot, SymbolicByteCode::Call(0)];
  let b = seq![SymbolicByteCode::Invoke((s, 0)), SymbolicByteCode::InvokeSlot];
  assert forall|st: St| #[trigger] run(a, st) == run(b, st) by {
    lemma_run3(SymbolicByteCode::GetPropByName(s), SymbolicByteCode::PropertySlot, SymbolicByteCode::Call(0), st);
    lemma_run2(SymbolicByteCode::Invoke((s, 0)), SymbolicByteCode::InvokeSlot, st);
    axiom_invoke_fusion(s, st);
  }
}

pub proof fn lemma_rule_invoke_super(s: u16)
  ensures equiv_code(seq![SymbolicByteCode::GetSuper(s), SymbolicByteCode::Call(0)],
                     seq![SymbolicByteCode::SuperInvoke((s, 0)), SymbolicByteCode::InvokeSlot]),
{
  let a = seq![SymbolicByteCode::GetSuper(s), SymbolicByteCode::Call(0)];
  let b = seq![SymbolicByteCode::SuperInvoke((s, 0)), SymbolicByteCode::InvokeSlot];
  assert forall|st: St| #[trigger] run(a, st) == run(b, st) by {
    lemma_run2(SymbolicByteCode::GetSuper(s), SymbolicByteCode::Call(0), st);
    lemma_run2(SymbolicByteCode::SuperInvoke((s, 0)), SymbolicByteCode::InvokeSlot, st);
    axiom_super_invoke_fusion(s, st);
  }
}

/// frame + progress shared by every rewrite: cursors stay well formed and in lock step, the vector keeps its
/// length, the unread suffix is untouched, at least one instruction is consumed
#[verifier::opaque]
pub open spec fn rewrite_frame(oi: &VecCursor<SymbolicByteCode>, ol: &VecCursor<u16>, ni: &VecCursor<SymbolicByteCode>, nl: &VecCursor<u16>) -> bool {
  &&& ni.wf() && nl.wf() && lockstep(ni, nl)
  &&& ni.vec.len() == oi.vec.len()
  &&& ni.reader > oi.reader
  &&& ni.writer >= oi.writer
  &&& ni.unread() =~= oi.unread().subrange(ni.reader - oi.reader, oi.unread().len() as int)
  &&& ni.written().subrange(0, oi.writer as int) =~= oi.written()
}

/// C12 (d) / C18 for one rewrite: every line emitted for the window is the line of the window's first
/// instruction, or the emitted lines are the window's own lines copied position by position
#[verifier::opaque]
pub open spec fn lines_attached(ol: &VecCursor<u16>, nl: &VecCursor<u16>) -> bool {
  let emitted = nl.written().subrange(ol.writer as int, nl.writer as int);
  let consumed = nl.reader - ol.reader;
  &&& ol.writer <= nl.writer && ol.reader <= nl.reader
  &&& nl.written().subrange(0, ol.writer as int) =~= ol.written()
  &&& nl.unread() =~= ol.unread().subrange(consumed, ol.unread().len() as int)
  &&& ((forall|j: int| #![auto] 0 <= j < emitted.len() ==> emitted[j] == ol.unread()[0])
       || (emitted.len() <= consumed && forall|j: int| #![auto] 0 <= j < emitted.len() ==> emitted[j] == ol.unread()[j]))
}

pub broadcast proof fn lemma_equiv_prog_trans_b(p: Seq<SymbolicByteCode>, q: Seq<SymbolicByteCode>, r: Seq<SymbolicByteCode>)
  requires #[trigger] equiv_prog(p, q), #[trigger] equiv_prog(q, r),
  ensures equiv_prog(p, r),
{
  lemma_equiv_prog_trans(p, q, r);
}

/// what the dispatcher needs from one rewrite step
pub proof fn lemma_frame_step(oi: &VecCursor<SymbolicByteCode>, ol: &VecCursor<u16>, ni: &VecCursor<SymbolicByteCode>, nl: &VecCursor<u16>, input: Seq<SymbolicByteCode>)
  requires
    rewrite_frame(oi, ol, ni, nl), oi.wf(), oi.vec.len() == input.len(),
    oi.unread() == input.subrange(oi.reader as int, input.len() as int),
  ensures
    ni.wf(), nl.wf(), lockstep(ni, nl), ni.vec.len() == input.len(), ni.reader > oi.reader,
    ni.unread() == input.subrange(ni.reader as int, input.len() as int),
{
  reveal(rewrite_frame);
  assert(ni.unread() =~= input.subrange(ni.reader as int, input.len() as int));
}

/// the same for an instruction copied through unchanged by `copy_cursors` on both cursors
pub proof fn lemma_copy_step(oi: &VecCursor<SymbolicByteCode>, ni: &VecCursor<SymbolicByteCode>, input: Seq<SymbolicByteCode>)
  requires
    oi.wf(), oi.vec.len() == input.len(), oi.reader < oi.vec.len(),
    oi.unread() == input.subrange(oi.reader as int, input.len() as int),
    ni.vec.len() == oi.vec.len(), ni.reader == oi.reader + 1,
    ni.unread() == oi.unread().subrange(1, oi.unread().len() as int),
  ensures
    ni.unread() == input.subrange(ni.reader as int, input.len() as int),
{
  assert(ni.unread() =~= input.subrange(ni.reader as int, input.len() as int));
}

pub proof fn lemma_delimited_call(input: Seq<SymbolicByteCode>, k: int, n: u8)
  requires delimited(input), 0 < k < input.len(), input[k] == SymbolicByteCode::Call(n), input[k - 1] != SymbolicByteCode::ArgumentDelimiter,
  ensures n == 0,
{
  reveal(delimited);
}

pub open spec fn copy_frame(oi: &VecCursor<SymbolicByteCode>, ol: &VecCursor<u16>, ni: &VecCursor<SymbolicByteCode>, nl: &VecCursor<u16>) -> bool {
  &&& ni.wf() && nl.wf() && lockstep(ni, nl)
  &&& ni.vec.len() == oi.vec.len() && ni.reader == oi.reader + 1
  &&& ni.unread() == oi.unread().subrange(1, oi.unread().len() as int)
  &&& ni.prog() == oi.prog()
}

/// one dispatcher step, whichever arm ran: a rewrite (frame + equivalence) or a plain copy
pub proof fn lemma_step(oi: &VecCursor<SymbolicByteCode>, ol: &VecCursor<u16>, ni: &VecCursor<SymbolicByteCode>, nl: &VecCursor<u16>, input: Seq<SymbolicByteCode>)
  requires
    oi.wf(), oi.vec.len() == input.len(), oi.reader < oi.vec.len(),
    oi.unread() == input.subrange(oi.reader as int, input.len() as int),
    equiv_prog(oi.prog(), input),
    (rewrite_frame(oi, ol, ni, nl) && equiv_prog(ni.prog(), oi.prog())) || copy_frame(oi, ol, ni, nl),
  ensures
    ni.wf(), nl.wf(), lockstep(ni, nl), ni.vec.len() == input.len(), ni.reader > oi.reader,
    ni.unread() == input.subrange(ni.reader as int, input.len() as int),
    equiv_prog(ni.prog(), input),
{
  if rewrite_frame(oi, ol, ni, nl) && equiv_prog(ni.prog(), oi.prog()) {
    lemma_frame_step(oi, ol, ni, nl, input);
    lemma_equiv_prog_trans(ni.prog(), oi.prog(), input);
  } else {
    lemma_copy_step(oi, ni, input);
  }
}

// ---- C12 (d) / C18 at the level of the whole pass ------------------------------------------------------
/// every output line is the line of an input instruction, and the origins are in input order
pub open spec fn lines_from(out_lines: Seq<u16>, in_lines: Seq<u16>, origin: Seq<int>) -> bool {
  &&& origin.len() == out_lines.len()
  &&& forall|j: int| 0 <= j < origin.len() ==> 0 <= #[trigger] origin[j] < in_lines.len() && out_lines[j] == in_lines[origin[j]]
  &&& forall|i: int, j: int| 0 <= i < j < origin.len() ==> origin[i] <= origin[j]
}

pub open spec fn lines_ok(out_lines: Seq<u16>, in_lines: Seq<u16>) -> bool { exists|origin: Seq<int>| lines_from(out_lines, in_lines, origin) }

pub open spec fn lines_inv(l: &VecCursor<u16>, in_lines: Seq<u16>, origin: Seq<int>) -> bool {
  &&& l.wf() && l.vec.len() == in_lines.len()
  &&& l.unread() == in_lines.subrange(l.reader as int, in_lines.len() as int)
  &&& lines_from(l.written(), in_lines, origin)
  &&& forall|j: int| 0 <= j < origin.len() ==> #[trigger] origin[j] < l.reader
}

pub proof fn lemma_lines_step(ol: &VecCursor<u16>, nl: &VecCursor<u16>, in_lines: Seq<u16>, origin: Seq<int>) -> (r: Seq<int>)
  requires lines_inv(ol, in_lines, origin), lines_attached(ol, nl), nl.wf(), nl.vec.len() == ol.vec.len(),
           ol.reader < nl.reader || nl.writer == ol.writer,
  ensures lines_inv(nl, in_lines, r),
{
  reveal(lines_attached);
  let emitted = nl.written().subrange(ol.writer as int, nl.writer as int);
  let first = forall|j: int| #![auto] 0 <= j < emitted.len() ==> emitted[j] == ol.unread()[0];
  let r = Seq::new(nl.writer as nat, |j: int| if j < ol.writer { origin[j] } else if first { ol.reader as int } else { ol.reader + (j - ol.writer) });
  assert(nl.unread() =~= in_lines.subrange(nl.reader as int, in_lines.len() as int));
  assert forall|j: int| 0 <= j < r.len() implies 0 <= #[trigger] r[j] < in_lines.len() && nl.written()[j] == in_lines[r[j]] && r[j] < nl.reader by {
    if j < ol.writer {
      assert(nl.written().subrange(0, ol.writer as int)[j] == ol.written()[j]);
      assert(origin[j] < ol.reader);
    } else {
      assert(emitted[j - ol.writer] == nl.written()[j]);
      if first { assert(ol.unread()[0] == in_lines[ol.reader as int]); }
      else { assert(ol.unread()[j - ol.writer] == in_lines[ol.reader + (j - ol.writer)]); }
    }
  }
  assert forall|i: int, j: int| 0 <= i < j < r.len() implies r[i] <= r[j] by {
    if i < ol.writer { assert(origin[i] < ol.reader); }
  }
  r
}

/// a plain copy or a consumed-without-output step also keeps lines attached
pub proof fn lemma_lines_copy(ol: &VecCursor<u16>, nl: &VecCursor<u16>)
  requires ol.wf(), nl.wf(), ol.reader < ol.vec.len(), nl.vec.len() == ol.vec.len(), nl.reader == ol.reader + 1,
    nl.unread() == ol.unread().subrange(1, ol.unread().len() as int),
    (nl.writer == ol.writer && nl.written() == ol.written()) || (nl.writer == ol.writer + 1 && nl.written() == ol.written().push(ol.unread()[0])),
  ensures lines_attached(ol, nl),
{
  reveal(lines_attached);
  let emitted = nl.written().subrange(ol.writer as int, nl.writer as int);
  assert(nl.written().subrange(0, ol.writer as int) =~= ol.written());
}
