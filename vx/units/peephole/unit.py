_ENUM_DERIVE = dict(drop=['Debug', 'Default', 'VariantCount'], add=['Structural'])
UNIT = dict(
  name='peephole',
  properties=['C12', 'C06', 'C15', 'C18', 'C04'],
  shared=['isa.rs'],
  items=[
    ('laythe_vm/src/byte_code.rs', [
      'struct Label', ('impl Label', ['new', 'val']),
      'enum CaptureIndex', 'enum SymbolicByteCode',
      ('impl SymbolicByteCode', ['len', 'stack_effect']),
    ]),
    ('laythe_core/src/object/fun.rs', [
      'struct FunBuilder', ('impl FunBuilder', ['update_max_slots', 'build']),
      'struct Fun', ('impl Fun', ['max_slots']),
    ]),
    ('laythe_vm/src/compiler/peephole.rs', [
      'struct VecCursor',
      ('impl VecCursor<T>', None),
      'fn peephole_optimize', 'fn drop', 'fn load_multiple', 'fn eliminate_drop', 'fn invoke', 'fn invoke_super',
      'fn remove_dead_code', 'fn label_count', 'fn apply_stack_effects', 'fn compute_label_offsets',
    ]),
  ],
  rewrites=[
    ('R7f', 'struct Label'), ('R7f', 'struct VecCursor'), ('R7f', 'struct FunBuilder'),
    ('R7', 'struct VecCursor', dict(pat='struct VecCursor', rep='pub struct VecCursor', count=1)),
    ('R10', 'struct FunBuilder', dict(keep=['max_slots'])),
    ('R7f', 'struct Fun'), ('R10', 'struct Fun', dict(keep=['max_slot'])), ('R11', 'struct Fun', dict(drop=['Clone'])),
    # R10: the struct literal in build() is projected to the kept field; `chunk` is an opaque parameter
    ('R10', 'FunBuilder::build', dict(pat=r'Fun \{\s*name: self\.name,\s*arity: self\.arity,\s*capture_count: self\.capture_count,\s*(max_slot: [^,]+,)\s*module_id: self\.module\.id\(\),\s*module: self\.module,\s*chunk,\s*\}',
                                      rep=r'Fun { \1 }', regex=True, count=1)),
    ('R11', 'struct Label', _ENUM_DERIVE),
    ('R11', 'enum CaptureIndex', _ENUM_DERIVE),
    ('R11', 'enum SymbolicByteCode', _ENUM_DERIVE),
    # `#[default]` marks the variant used by the dropped `Default` derive
    ('R11', 'enum SymbolicByteCode', dict(pat='  #[default]\n', rep='', count=1)),
    ('R11', 'enum SymbolicByteCode', dict(pat='  #[allow(dead_code)]\n', rep='', count=1)),
    ('R1', 'VecCursor::take'),
    ('R2', 'peephole_optimize'),
    ('R13', 'label_count', dict(nth=0, mutable=False)),
    ('R13', 'apply_stack_effects', dict(nth=0, mutable=True)),
    ('R13', 'compute_label_offsets', dict(nth=0, mutable=False)),
  ],
)
