// ---- trusted base of the peephole unit ----------------------------------------------------------------
// A-invoke: the instruction-set meaning of the fused forms.  `Invoke((s, 0)); InvokeSlot` is by definition
// "look property s up on the receiver on top of the stack and call it with no arguments", which is what
// `GetPropByName(s); PropertySlot; Call(0)` does (up to the intermediate bound-method object).  The VM side
// of this equation (op_invoke vs op_get_prop_by_name + op_call) is the subject of C03/C13, not of C12.
#[verifier::external_body]
pub proof fn axiom_invoke_fusion(s: u16, st: St)
  ensures
    step(SymbolicByteCode::Call(0), step(SymbolicByteCode::PropertySlot, step(SymbolicByteCode::GetPropByName(s), st)))
      == step(SymbolicByteCode::InvokeSlot, step(SymbolicByteCode::Invoke((s, 0)), st)),
{ }

#[verifier::external_body]
pub proof fn axiom_super_invoke_fusion(s: u16, st: St)
  ensures
    step(SymbolicByteCode::Call(0), step(SymbolicByteCode::GetSuper(s), st))
      == step(SymbolicByteCode::InvokeSlot, step(SymbolicByteCode::SuperInvoke((s, 0)), st)),
{ }

/// laythe_core::Chunk — opaque here (FunBuilder::build only moves it into the Fun)
#[verifier::external_body]
pub struct Chunk { _p: u8 }
