// ---- trusted model (A-fiber): fibers are identities, their state a ghost map -----------------------------------------------------------------------------
#[derive(Clone, Copy)] pub struct FiberRef { pub id: int }
#[derive(Clone, Copy)] pub struct FunRef { pub id: int }
#[derive(Clone, Copy)] pub struct Captures { pub id: int }
pub uninterp spec fn fiber_complete(f: FiberRef) -> bool;
pub uninterp spec fn fiber_top_fun(f: FiberRef) -> FunRef;
#[derive(Clone, Copy)] pub struct WaiterRef { pub id: int }
/// the fiber a waiter stands for (None: not a fiber's waiter)
pub uninterp spec fn waiter_fiber(w: WaiterRef) -> Option<FiberRef>;
pub struct Queue { pub q: Ghost<Seq<FiberRef>> }
impl Queue {
  /// VecDeque::push_back / push_front
  #[verifier::external_body] pub fn push_back(&mut self, f: FiberRef) ensures final(self).q@ == old(self).q@.push(f) { }
  #[verifier::external_body] pub fn push_front(&mut self, f: FiberRef) ensures final(self).q@ == seq![f] + old(self).q@ { }
}
pub enum Ev { StoreIp(FiberRef), LoadIp(FiberRef), Activate(FiberRef), PushFrame(FiberRef, FunRef, Captures, usize), Unblock(FiberRef) }
pub struct Vm { pub fiber: FiberRef, pub current_fun: FunRef, pub fiber_queue: Queue, pub log: Ghost<Seq<Ev>> }
impl Vm {
  /// the instruction pointer goes into the top frame of the CURRENT fiber / comes from it
  #[verifier::external_body] pub fn store_ip(&mut self) ensures final(self).log@ == old(self).log@.push(Ev::StoreIp(old(self).fiber)), final(self).fiber == old(self).fiber, final(self).current_fun == old(self).current_fun { }
  #[verifier::external_body] pub fn load_ip(&mut self) ensures final(self).log@ == old(self).log@.push(Ev::LoadIp(old(self).fiber)), final(self).fiber == old(self).fiber, final(self).current_fun == old(self).current_fun { }
  #[verifier::external_body] pub fn verif_is_complete(&self, f: FiberRef) -> (r: bool) ensures r == fiber_complete(f) { unimplemented!() }
  #[verifier::external_body] pub fn verif_activate(&mut self, f: FiberRef) ensures final(self).log@ == old(self).log@.push(Ev::Activate(f)), final(self).fiber == old(self).fiber, final(self).current_fun == old(self).current_fun { }
  #[verifier::external_body] pub fn verif_fiber_fun(&self, f: FiberRef) -> (r: FunRef) ensures r == fiber_top_fun(f) { unimplemented!() }
  #[verifier::external_body] pub fn verif_fiber_push_frame(&mut self, closure: FunRef, captures: Captures, arg_count: usize)
    ensures final(self).log@ == old(self).log@.push(Ev::PushFrame(old(self).fiber, closure, captures, arg_count)), final(self).fiber == old(self).fiber, final(self).current_fun == old(self).current_fun { }
  #[verifier::external_body] pub fn verif_waiter_fiber(&self, w: WaiterRef) -> (r: Option<FiberRef>) ensures r == waiter_fiber(w) { unimplemented!() }
  #[verifier::external_body] pub fn verif_unblock(&mut self, f: FiberRef) ensures final(self).log@ == old(self).log@.push(Ev::Unblock(f)), final(self).fiber == old(self).fiber,
    final(self).current_fun == old(self).current_fun, final(self).fiber_queue == old(self).fiber_queue { }
  #[verifier::external_body] pub fn internal_error<T>(&self, message: &str) -> T requires false { unimplemented!() }
}
