"""C07 / C01 (switching fibers and entering a function keep every fiber's place): Vm::{context_switch, push_frame} (vm/basic.rs), extracted as
they are.  A switch saves the outgoing fiber's instruction pointer into its frame — unless that fiber has completed —, makes the incoming fiber
current and active, and continues at ITS saved instruction pointer in the function of ITS top frame.  Entering a function saves the caller's
instruction pointer first, pushes the frame, and continues at the start of the callee.  store_ip / load_ip / the fiber operations are stubs that
log which fiber they act on.  A fiber that stops waiting is unblocked and joins the run queue AT THE END (first in, first out: signalvm takes from
the front)."""
UNIT = dict(
  name='basicvm',
  properties=['C07', 'C01'],
  items=[('laythe_vm/src/vm/basic.rs', [('impl Vm', ['context_switch', 'push_frame', 'queue_blocked_fiber'])])],
  rewrites=[
    ('R7', 'Vm::*', dict(pat=r'pub\(super\) unsafe fn', rep='pub fn', regex=True, optional=True)),
    ('R6', 'Vm::*', dict(pat='Ref<Fiber>', rep='FiberRef', optional=True)),
    ('R6', 'Vm::*', dict(pat='ObjRef<Fun>', rep='FunRef', optional=True)),
    # R9: `let mut fiber = self.fiber; fiber.push_frame(self, ..)` (a copy of the GC pointer) -> the fiber reached through self
    ('R9', 'Vm::push_frame', dict(pat=r'let mut fiber = self\.fiber;\s*', rep='', regex=True, count=1)),
    ('R9', 'Vm::push_frame', dict(pat=r'fiber\.push_frame\(self, ', rep='self.verif_fiber_push_frame(', regex=True, count=1)),
    # the model's fiber operations take the heap of fibers explicitly (the fiber is a GC pointer)
    ('R16', 'Vm::context_switch', dict(pat='self.fiber.is_complete()', rep='self.verif_is_complete(self.fiber)', count=1)),
    ('R16', 'Vm::context_switch', dict(pat='self.fiber.activate();', rep='self.verif_activate(self.fiber);', count=1)),
    ('R16', 'Vm::context_switch', dict(pat='fiber.fun()', rep='self.verif_fiber_fun(fiber)', optional=True)),
    # queue_blocked_fiber: the downcast of the waiter's payload and the state change of the fiber (GC pointers) -> named stubs on the fiber identity
    ('R7', 'Vm::queue_blocked_fiber', dict(pat=r'pub\(super\) fn', rep='pub fn', regex=True, count=1)),
    ('R6', 'Vm::queue_blocked_fiber', dict(pat='mut waiter: Ref<ChannelWaiter>', rep='waiter: WaiterRef', count=1)),
    ('R6', 'Vm::queue_blocked_fiber', dict(pat='waiter.get_waiter_mut::<FiberRef>()', rep='self.verif_waiter_fiber(waiter)', count=1)),
    ('R16', 'Vm::queue_blocked_fiber', dict(pat='fiber.unblock();', rep='self.verif_unblock(fiber);', count=1)),
    ('R6', 'Vm::queue_blocked_fiber', dict(pat='(*fiber)', rep='(fiber)', count=1)),
  ],
  assumption_ids=['A-fiber'],
)
