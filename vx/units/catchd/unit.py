"""C02 / C04: the compiler's catch clause (Compiler::catch): the error class is tested, the unwind finished and the handler popped BEFORE the
catch variable exists; the variable is DEFINED with the state its declaration returned (a captured catch variable needs its box filled)."""
UNIT = dict(
  name='catchd',
  properties=['C02', 'C04'],
  prelude_files=['../compilerd/prelude.rs', 'prelude.rs'],
  spec_files=['../compilerd/spec.rs'],
  items=[
    ('laythe_vm/src/byte_code.rs', ['struct Label', ('impl Label', ['new', 'val']), 'enum CaptureIndex', 'enum SymbolicByteCode']),
    ('laythe_core/src/object/fun.rs', ['enum FunKind']),
    ('laythe_vm/src/compiler/ir/ast.rs', ['enum BinaryOp', 'enum UnaryOp']),
    ('laythe_vm/src/compiler/ir/symbol_table.rs', ['enum SymbolState']),   # named by the shared compilerd spec
    ('laythe_vm/src/compiler/mod.rs', ['struct TryAttributes', 'struct LoopAttributes', ("impl<'a, 'src: 'a> Compiler<'a, 'src>", ['catch'])]),
  ],
  rewrites=[
    ('R7f', 'struct Label'), ('R7f', 'struct TryAttributes'), ('R7f', 'struct LoopAttributes'),
    ('R11', 'struct Label', dict(drop=['Debug', 'Default', 'VariantCount'], add=['Structural'])),
    ('R11', 'enum CaptureIndex', dict(drop=['Debug', 'Default', 'VariantCount'], add=['Structural'])),
    ('R11', 'enum SymbolicByteCode', dict(drop=['Debug', 'Default', 'VariantCount'], add=['Structural'])),
    ('R11', 'enum SymbolicByteCode', dict(pat='  #[default]\n', rep='', count=1)),
    ('R11', 'enum SymbolicByteCode', dict(pat='  #[allow(dead_code)]\n', rep='', count=1)),
    ('R11', 'enum FunKind', dict(drop=['Debug'], add=['Structural'])),
    ('R11', 'enum SymbolState', dict(drop=['Debug', 'Default'], add=['Structural'])),
    ('R11', 'enum SymbolState', dict(pat='  #[default]\n', rep='', count=1)),
    ('R11', 'struct TryAttributes', dict(drop=['Debug'])), ('R11', 'struct LoopAttributes', dict(drop=['Debug'])),
    ('R5', 'kind:implhdr', dict(pat=r"impl<'a, 'src: 'a> Compiler<'a, 'src> \{", rep='impl Compiler {', regex=True, optional=True)),
    ('R5', 'Compiler::*', dict(pat=r"&'a ast::(\w+)<'src>", rep=r'&\1', regex=True, optional=True)),
    ('R7', 'Compiler::*', dict(pat=r'^(\s*(?:///?[^\n]*\n\s*)*)fn ', rep=r'\1pub fn ', regex=True, optional=True)),
    ('R17', 'Compiler::catch'),
    # the default class token (`catch e { .. }` means `catch e: Error`): token construction is a stub
    ('R6', 'Compiler::catch', dict(pat=r'let default_error = &Token::new\(\s*TokenKind::Identifier,\s*Lexeme::Slice\(ERROR_CLASS_NAME\),\s*catch\.name\.end\(\),\s*catch\.name\.end\(\),\s*\);', rep='let default_error = &verif_default_error_token();', regex=True, count=1)),
    ('R6', 'Compiler::catch', dict(pat='catch.class.as_ref().unwrap_or(default_error)', rep='(match &catch.class { Some(verif_t) => verif_t, None => default_error })', count=1)),
    ('R6', 'Compiler::catch', dict(pat=r'catch\.name\.str\(\)', rep='&catch.name', regex=True, count=2)),
    ('R6', 'Compiler::catch', dict(pat=r', catch\.name\.span\(\)\)', rep=')', regex=True, count=1)),
    ('R6', 'Compiler::catch', dict(pat=r', catch\.span\(\)\)', rep=')', regex=True, count=1)),
  ],
  assumption_ids=['A-compiler'],
)
