// ---- additional model for the catch clause (catchd unit) ------------------------------------------------------------------------------
pub open spec fn state_code(s: SymbolState) -> nat { match s { SymbolState::LocalInitialized => 0, SymbolState::LocalCaptured => 1, SymbolState::ModuleInitialized => 2, SymbolState::GlobalInitialized => 3, SymbolState::Uninitialized => 4, SymbolState::AlreadyInitialized => 5 } }
pub uninterp spec fn default_error_token() -> int;
#[verifier::external_body] pub fn verif_default_error_token() -> (r: Token) ensures r.id == default_error_token() { unimplemented!() }
/// the state the resolver recorded for a name (LocalCaptured when a closure captures it: its box must be filled at definition)
pub uninterp spec fn declared_state(name: int) -> SymbolState;
impl Compiler {
  #[verifier::external_body] pub fn variable_get(&mut self, name: &Token) ensures quiet(old(self), final(self)), final(self).log@ == old(self).log@.push(Ev::VarGet(name.id)) { }
  #[verifier::external_body] pub fn declare_variable(&mut self, name: &Token) -> (r: (SymbolState, u16))
    ensures quiet(old(self), final(self)), final(self).log@ == old(self).log@.push(Ev::Declare(name.id)), r.0 == declared_state(name.id) { (SymbolState::LocalInitialized, 0) }
  #[verifier::external_body] pub fn define_variable(&mut self, name: &Token, state: SymbolState)
    ensures quiet(old(self), final(self)), final(self).log@ == old(self).log@.push(Ev::Define(name.id, state_code(state))) { }
}
