// ---- the Leaf / TraceLog model of the gctrace unit ------------------------------------------------------------------------------------------
pub struct TraceLog { pub ghost seen: Set<int>, pub ghost marked: Set<int> }
#[derive(Clone, Copy)]
pub struct Leaf { pub p: usize }
impl Leaf {
  pub uninterp spec fn reach(&self) -> Set<int>;
  #[verifier::external_body]
  pub fn trace(&self, verif_log: &mut TraceLog)
    ensures final(verif_log).seen == old(verif_log).seen.union(self.reach()), old(verif_log).marked.subset_of(final(verif_log).marked)
  { }
}
