pub open spec fn prop_traced(p: Seq<Option<PropertyCache>>, n: int, seen: Set<int>) -> bool {
  forall|i: int| 0 <= i < n && (#[trigger] p[i]) is Some ==> p[i].unwrap().class.reach().subset_of(seen)
}
pub open spec fn invoke_traced(p: Seq<Option<InvokeCache>>, n: int, seen: Set<int>) -> bool {
  forall|i: int| 0 <= i < n && (#[trigger] p[i]) is Some ==> p[i].unwrap().class.reach().subset_of(seen) && p[i].unwrap().method.reach().subset_of(seen)
}
