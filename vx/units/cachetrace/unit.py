"""C05 / C13: the inline caches are GC roots (fix ae3a806, D21): `impl Trace for InlineCache` issues a trace for the class of EVERY filled property
entry and for the class and the method of EVERY filled invoke entry.  The structs are the real ones (ObjRef<Class> / Value fields become the
gctrace Leaf model); the ghost trace log is threaded through as in the gctrace unit."""
UNIT = dict(
  name='cachetrace',
  properties=['C05', 'C13'],
  items=[('laythe_vm/src/cache.rs', ['struct PropertyCache', 'struct InvokeCache', 'struct InlineCache', ('impl Trace for InlineCache', ['trace'])])],
  rewrites=[
    ('R7f', 'struct PropertyCache'), ('R7f', 'struct InvokeCache'), ('R7f', 'struct InlineCache'),
    ('R7', 'struct PropertyCache', dict(pat=r'\nstruct ', rep='\npub struct ', regex=True, count=1)),
    ('R7', 'struct InvokeCache', dict(pat=r'\nstruct ', rep='\npub struct ', regex=True, count=1)),
    ('R11', 'struct PropertyCache', dict(drop=['Debug'], add=[])),
    ('R11', 'struct InvokeCache', dict(drop=['Debug'], add=[])),
    ('R11', 'struct InlineCache', dict(drop=['Debug'], add=[])),
    # R6: GC handles and values -> the Leaf model of the gctrace unit (reach() = what their trace call is issued for)
    ('R6', 'struct PropertyCache', dict(pat='ObjRef<Class>', rep='Leaf', count=1)),
    ('R6', 'struct InvokeCache', dict(pat='ObjRef<Class>', rep='Leaf', count=1)),
    ('R6', 'struct InvokeCache', dict(pat='method: Value', rep='method: Leaf', count=1)),
    ('R15', 'kind:implhdr', dict(pat=r'impl Trace for InlineCache \{', rep='impl InlineCache {', regex=True, optional=True)),
    ('R7', 'Trace for InlineCache::trace', dict(pat=r'^(\s*)fn trace', rep=r'\1pub fn trace', regex=True, count=1)),
    ('R13f', 'Trace for InlineCache::trace'),
    ('R16', 'Trace for InlineCache::trace', dict(methods=['trace'], name='verif_log', ty='TraceLog')),
  ],
  assumption_ids=['A-alias'],
)
