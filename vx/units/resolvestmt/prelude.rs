// ---- trusted model (A-resolver): every callee is a stub that LOGS what it was asked to do --------------------------------------------------------
#[derive(Clone, Copy, PartialEq, Eq, Structural)]
pub enum TokenKind { Identifier }
pub enum Lexeme { Slice(&'static str) }
pub const ERROR_CLASS_NAME: &'static str = "Error";
pub struct Token { pub id: int }
pub uninterp spec fn error_class_token() -> int;
pub uninterp spec fn self_token() -> int;
pub uninterp spec fn uninit_token() -> int;
impl Token {
  #[verifier::external_body] pub fn new(kind: TokenKind, lexeme: Lexeme, start: u32, end: u32) -> (r: Token) ensures r.id == error_class_token() { unimplemented!() }
  #[verifier::external_body] pub fn end(&self) -> u32 { 0 }
}
#[verifier::external_body] pub fn verif_self_token() -> (r: Token) ensures r.id == self_token() { unimplemented!() }
#[verifier::external_body] pub fn verif_uninit_token() -> (r: Token) ensures r.id == uninit_token() { unimplemented!() }
pub struct SymbolTable { pub p: usize }
pub struct Expr { pub id: int }
pub struct Atom { pub id: int }
pub struct Block { pub id: int, pub symbols: SymbolTable }
pub struct CallSignature { pub id: int }
pub struct Node<T> { pub t: T }
impl<T> core::ops::Deref for Node<T> { type Target = T; #[verifier::external_body] fn deref(&self) -> (r: &T) ensures *r == self.t { &self.t } }
pub enum FunBody { Block(Block), Expr(Expr) }
pub struct Fun { pub call_sig: CallSignature, pub body: FunBody, pub symbols: SymbolTable }
pub struct Let { pub name: Token, pub value: Option<Expr> }
pub struct Return { pub value: Option<Expr> }
pub struct Launch { pub closure: Expr }
pub struct Raise { pub error: Expr }
pub struct Assign { pub lhs: Atom, pub rhs: Expr }
pub struct Send { pub lhs: Atom, pub rhs: Expr }
pub struct AssignBinary { pub lhs: Atom, pub rhs: Expr }
pub struct Catch { pub id: int, pub symbols: SymbolTable, pub name: Token, pub class: Option<Token>, pub block: Block }
pub struct Try { pub block: Block, pub catches: Vec<Catch> }
pub enum Ev { Begin, End, Declare(int), Define(int), ResolveVar(int), ResolveExpr(int), ResolveBlock(int), ResolveAtom(int), CallSig(int), Catch(int) }
pub struct Resolver { pub fun_depth: i32, pub log: Ghost<Seq<Ev>> }
impl Resolver {
  #[verifier::external_body] pub fn begin_scope(&mut self) ensures final(self).fun_depth == old(self).fun_depth, final(self).log@ == old(self).log@.push(Ev::Begin) { }
  #[verifier::external_body] pub fn end_scope(&mut self) -> (r: SymbolTable) ensures final(self).fun_depth == old(self).fun_depth, final(self).log@ == old(self).log@.push(Ev::End) { SymbolTable { p: 0 } }
  #[verifier::external_body] pub fn declare_variable(&mut self, t: &Token) ensures final(self).fun_depth == old(self).fun_depth, final(self).log@ == old(self).log@.push(Ev::Declare(t.id)) { }
  #[verifier::external_body] pub fn define_variable(&mut self, t: &Token) ensures final(self).fun_depth == old(self).fun_depth, final(self).log@ == old(self).log@.push(Ev::Define(t.id)) { }
  #[verifier::external_body] pub fn resolve_variable(&mut self, t: &Token) ensures final(self).fun_depth == old(self).fun_depth, final(self).log@ == old(self).log@.push(Ev::ResolveVar(t.id)) { }
  #[verifier::external_body] pub fn expr(&mut self, e: &Expr) ensures final(self).fun_depth == old(self).fun_depth, final(self).log@ == old(self).log@.push(Ev::ResolveExpr(e.id)) { }
  #[verifier::external_body] pub fn block(&mut self, b: &Block) ensures final(self).fun_depth == old(self).fun_depth, final(self).log@ == old(self).log@.push(Ev::ResolveBlock(b.id)) { }
  #[verifier::external_body] pub fn atom(&mut self, a: &Atom) ensures final(self).fun_depth == old(self).fun_depth, final(self).log@ == old(self).log@.push(Ev::ResolveAtom(a.id)) { }
  #[verifier::external_body] pub fn call_sig(&mut self, c: &CallSignature) ensures final(self).fun_depth == old(self).fun_depth, final(self).log@ == old(self).log@.push(Ev::CallSig(c.id)) { }
}
