pub open spec fn opt_expr(v: Option<Expr>) -> Seq<Ev> { match v { Some(e) => seq![Ev::ResolveExpr(e.id)], None => Seq::<Ev>::empty() } }
pub open spec fn body_evs(b: FunBody) -> Seq<Ev> { match b { FunBody::Block(bl) => seq![Ev::ResolveBlock(bl.id)], FunBody::Expr(e) => seq![Ev::ResolveExpr(e.id)] } }
/// the receiver slot a function body starts with
pub open spec fn slot0_evs(k: FunKind) -> Seq<Ev> {
  match k {
    FunKind::Method | FunKind::Initializer => seq![Ev::Declare(self_token()), Ev::Define(self_token())],
    FunKind::Fun | FunKind::StaticMethod => seq![Ev::Declare(uninit_token()), Ev::Define(uninit_token())],
    FunKind::Script => Seq::<Ev>::empty(),
  }
}
pub open spec fn catch_evs(c: Catch) -> Seq<Ev> {
  seq![Ev::Declare(c.name.id), Ev::Define(c.name.id), Ev::ResolveVar(match c.class { Some(t) => t.id, None => error_class_token() }), Ev::Begin, Ev::ResolveBlock(c.block.id), Ev::End]
}
pub open spec fn catches_evs(cs: Seq<Catch>, n: int) -> Seq<Ev> decreases n {
  if n <= 0 { Seq::<Ev>::empty() } else { catches_evs(cs, n - 1) + seq![Ev::Begin] + catch_evs(cs[n - 1]) + seq![Ev::End] }
}
