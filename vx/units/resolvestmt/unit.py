"""C02 / C15: the resolver's statement visitors — Resolver::{let_, function, try_, catch, return_, launch, raise, assign, send, assign_binary}
(Resolver::scope inlined per its definition, R17).  Every callee logs; the contract is the ORDER of the log and the balance of scopes and of the
function depth:  `let x = e` resolves e while x is declared but not yet defined (that is what makes `let x = x` a diagnostic) and defines x after;
a function body is resolved one function level deeper inside its own scope, with the receiver slot declared first, and both are restored; a catch
variable is declared and defined before the class and the block are resolved; every child of every statement is visited."""
UNIT = dict(
  name='resolvestmt',
  properties=['C02', 'C15'],
  items=[
    ('laythe_core/src/object/fun.rs', ['enum FunKind']),
    ('laythe_vm/src/compiler/resolver.rs', [("impl<'a, 'src> Resolver<'a, 'src>", ['let_', 'function', 'try_', 'catch', 'return_', 'launch', 'raise', 'assign', 'send', 'assign_binary'])]),
  ],
  rewrites=[
    ('R11', 'enum FunKind', dict(drop=['Debug'], add=['Structural'])),
    ('R5', 'kind:implhdr', dict(pat=r"^impl<'a, 'src> Resolver<'a, 'src> \{", rep='impl Resolver {', regex=True, count=1)),
    ('R5', 'Resolver::*', dict(pat=r"<'src>", rep='', regex=True, optional=True)),
    ('R5', 'Resolver::*', dict(pat='ast::', rep='', optional=True)),
    ('R7', 'Resolver::*', dict(pat=r'^(\s*(?:///?[^\n]*\n\s*)*)fn ', rep=r'\1pub fn ', regex=True, optional=True)),
    # R13: `for catch in &mut try_.catches` -> index loop with the same `&mut` element
    ('R13', 'Resolver::try_', dict(pat=r'for catch in &mut try_\.catches \{', rep='let mut verif_c: usize = 0;\n    while verif_c < try_.catches.len() {\n      let catch = &mut try_.catches[verif_c];', regex=True, count=1)),
    ('R17', 'Resolver::try_', dict(pat=r'(self\.scope\(\|self_\| self_\.catch\(catch\)\))(\s*\})', rep=r'\1;\2', regex=True, count=1)),
    ('R17', 'Resolver::try_'), ('R17', 'Resolver::catch'),
    ('R13', 'Resolver::try_', dict(pat=r'(catch\.symbols = self\.end_scope\(\);?)\s*\}', rep=r'\1;\n      verif_c += 1;\n    }', regex=True, count=1)),
    # the static tokens for the receiver slot
    ('R6', 'Resolver::function', dict(pat=r'\bSELF_TOKEN\b', rep='&verif_self_token()', regex=True, count=2)),
    ('R6', 'Resolver::function', dict(pat=r'\bUNINITIALIZED_TOKEN\b', rep='&verif_uninit_token()', regex=True, count=2)),
    # the stubs only log the node's identity and take `&`
    ('R6', 'Resolver::*', dict(pat=r'self\.(expr|block|atom|catch)\(&mut ', rep=r'self.\1(&', regex=True, optional=True)),
    ('R6', 'Resolver::*', dict(pat=r'if let Some\(v\) = &mut ', rep='if let Some(v) = &', regex=True, optional=True)),
    ('R6', 'Resolver::function', dict(pat='match &mut fun.body {', rep='match &fun.body {', count=1)),
  ],
  assumption_ids=['A-resolver'],
)
