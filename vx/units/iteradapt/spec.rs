/// the predicate holds for an item (the callback answers something truthy)
pub open spec fn holds(f: Value, x: Value) -> bool { call1(f, x) matches Ok(v) && !falsey(v) }
pub open spec fn fails(f: Value, x: Value) -> bool { call1(f, x) matches Ok(v) && falsey(v) }
