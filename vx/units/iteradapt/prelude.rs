// ---- trusted model (A-iter): values, truthiness, the source stream, the callback ---------------------------------------------------------------
#[derive(Clone, Copy, PartialEq, Eq, Structural)] pub struct Value { pub id: int }
pub struct LyError { pub id: int }
pub type Call = Result<Value, LyError>;
pub uninterp spec fn falsey(v: Value) -> bool;
#[verifier::external_body] pub fn is_falsey(v: Value) -> (r: bool) ensures r == falsey(v) { true }
/// val!(true) / val!(false)
#[verifier::external_body] pub fn verif_bool(b: bool) -> (r: Value) ensures falsey(r) == !b { unimplemented!() }
/// what the callback answers for an argument (uninterpreted; it may raise)
pub uninterp spec fn call1(f: Value, x: Value) -> Call;
pub struct Hooks { pub calls: Ghost<Seq<(Value, Value)>> }
impl Hooks {
  #[verifier::external_body] pub fn verif_call1(&mut self, f: Value, x: Value) -> (r: Call)
    ensures r == call1(f, x), final(self).calls@ == old(self).calls@.push((f, x)) { unimplemented!() }
}
/// the source enumerator: the items it will deliver, how many it has delivered, how many times it was asked
pub struct EnumRef { pub items: Ghost<Seq<Value>>, pub pos: Ghost<int>, pub asked: Ghost<nat>, pub fails_at: Ghost<Option<int>> }
impl EnumRef {
  pub open spec fn wf(&self) -> bool { 0 <= self.pos@ <= self.items@.len() }
  /// Enumerator::next: true and one step forward while items remain, false at the end; it may fail (a source built on callbacks)
  #[verifier::external_body] pub fn next(&mut self, hooks: &mut Hooks) -> (r: Call)
    requires old(self).wf()
    ensures final(self).items == old(self).items, final(self).asked@ == old(self).asked@ + 1, final(self).wf(), final(self).fails_at == old(self).fails_at,
      final(hooks).calls == old(hooks).calls,
      r matches Ok(v) ==> (falsey(v) <==> old(self).pos@ >= old(self).items@.len()) && final(self).pos@ == (if old(self).pos@ < old(self).items@.len() { old(self).pos@ + 1 } else { old(self).pos@ }),
      r is Err ==> final(self).pos == old(self).pos
  { unimplemented!() }
  /// Enumerator::current: the item delivered last
  #[verifier::external_body] pub fn current(&self) -> (r: Value) requires 0 < self.pos@ <= self.items@.len() ensures r == self.items@[self.pos@ - 1] { unimplemented!() }
}
