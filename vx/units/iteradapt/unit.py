"""C11 (iterator adaptors as lazy stream functions, evaluated left to right): the `next` step of take / map / filter —
`impl Enumerate for {TakeIterator, MapIterator, FilterIterator}`.  The source enumerator is a ghost stream (items, position, number of times it
was asked); the callback is an uninterpreted function of its argument that may fail.  Per step: take(n) asks its source at most n times in total
and never once it has delivered n items; map asks once and applies the callback to exactly that item; filter asks until the predicate holds and
yields the FIRST such item, every skipped item having failed it; a failure of the source or the callback is the failure of the step."""
UNIT = dict(
  name='iteradapt',
  properties=['C11'],
  items=[('laythe_lib/src/global/primitives/iter.rs', ['struct TakeIterator', 'struct MapIterator', 'struct FilterIterator',
      ('impl Enumerate for TakeIterator', ['next']), ('impl Enumerate for MapIterator', ['next']), ('impl Enumerate for FilterIterator', ['next'])])],
  rewrites=[
    ('R7f', 'struct TakeIterator'), ('R7f', 'struct MapIterator'), ('R7f', 'struct FilterIterator'),
    ('R7', 'struct TakeIterator', dict(pat=r'\nstruct ', rep='\npub struct ', regex=True, count=1)),
    ('R7', 'struct MapIterator', dict(pat=r'\nstruct ', rep='\npub struct ', regex=True, count=1)),
    ('R7', 'struct FilterIterator', dict(pat=r'\nstruct ', rep='\npub struct ', regex=True, count=1)),
    ('R11', 'struct MapIterator', dict(drop=['Debug'], add=[])), ('R11', 'struct FilterIterator', dict(drop=['Debug'], add=[])), ('R11', 'struct TakeIterator', dict(drop=['Debug'], add=[])),
    # R6: the GC handle of the source enumerator -> the stream model
    ('R6', 'struct TakeIterator', dict(pat='ObjRef<Enumerator>', rep='EnumRef', count=1)),
    ('R6', 'struct MapIterator', dict(pat='ObjRef<Enumerator>', rep='EnumRef', count=1)),
    ('R6', 'struct FilterIterator', dict(pat='ObjRef<Enumerator>', rep='EnumRef', count=1)),
    ('R15', 'kind:implhdr', dict(pat=r'impl Enumerate for (\w+) \{', rep=r'impl \1 {', regex=True, optional=True)),
    ('R7', 'Enumerate for *', dict(pat=r'^(\s*)fn next', rep=r'\1pub fn next', regex=True, count=1)),
    ('R6', 'Enumerate for *', dict(pat=r'val!\((true|false)\)', rep=r'verif_bool(\1)', regex=True, optional=True)),
    ('R6', 'Enumerate for *', dict(pat=r'hooks\.call\(self\.callable, &\[current\]\)', rep='hooks.verif_call1(self.callable, current)', regex=True, optional=True)),
  ],
  assumption_ids=['A-iter'],
)
