"""C01 (every syntactic form is compiled by the code for THAT form): the dispatchers Compiler::{symbol, expr, primary}, extracted as they
are.  The AST enums are a model (each variant carries a node identity), the per-form compile methods are stubs that log their own name and the
node they were given — enums, stubs and the table `which form -> which method` are generated below from the form names.  Contract: exactly one
method runs, the one of the form, on the node of the form; `primary` answers whether the form was `self` (what property access on self
relies on: propcomp unit)."""
FORMS = {
  'Symbol': [('Class', 'class'), ('Fun', 'fun'), ('Let', 'let_'), ('Trait', None), ('TypeDecl', None)],
  'Expr': [('Assign', 'assign'), ('Send', 'send'), ('AssignBinary', 'assign_binary'), ('Ternary', 'ternary'), ('Binary', 'binary'), ('Unary', 'unary'), ('Atom', 'atom')],
  'Primary': [('Channel', 'channel'), ('True', 'true_'), ('False', 'false_'), ('Nil', 'nil'), ('Number', 'number'), ('Grouping', 'expr_grouping'), ('String', 'string'),
              ('Interpolation', 'interpolation'), ('Ident', 'identifier'), ('InstanceAccess', 'instance_access'), ('Self_', 'self_'), ('Super', 'super_'),
              ('Lambda', 'lambda'), ('List', 'list'), ('Tuple', 'tuple'), ('Map', 'map')],
}
RETURNS_U16 = {'class', 'fun', 'let_'}

def _w(m): return 'Which::M' + ''.join(p.capitalize() for p in m.split('_') if p)

def generate(repo):
  methods = []
  for forms in FORMS.values():
    for _, m in forms:
      if m and m != 'expr_grouping' and m not in methods: methods.append(m)
  which = 'pub enum Which { %s }\n' % ', '.join(_w(m)[7:] for m in methods)
  enums = ''
  for en, forms in FORMS.items():
    # `Primary::Grouping(expr) => self.expr(expr)`: the payload is an expression and expr is itself one of the extracted dispatchers
    enums += 'pub enum %s { %s }\n' % (en, ', '.join('%s(Box<%s>)' % (v, 'Expr' if m == 'expr_grouping' else 'Node') for v, m in forms))
  stubs = ''
  for m in methods:
    ret = ' -> (r: u16)' if m in RETURNS_U16 else ''
    stubs += ('  #[verifier::external_body] pub fn %s(&mut self, n: &Node)%s ensures final(self).log@ == old(self).log@.push(Ev::Ran(%s, n.id)) { unimplemented!() }\n' % (m, ret, _w(m)))
  prelude = ('pub struct Node { pub id: int }\n' + which + enums + 'pub enum Ev { Ran(Which, int) }\npub struct Compiler { pub log: Ghost<Seq<Ev>> }\nimpl Compiler {\n' + stubs + '}\n')
  def table(en):
    arms = []
    for v, m in FORMS[en]:
      if m is None: arms.append('%s::%s(_) => Seq::<Ev>::empty(),' % (en, v))
      elif m == 'expr_grouping': arms.append('%s::%s(e) => expr_evs(*e),' % (en, v))
      else: arms.append('%s::%s(n) => seq![Ev::Ran(%s, n.id)],' % (en, v, _w(m)))
    return ' '.join(arms)
  spec = ('/// what compiling a form runs: the method of that form, on the node of the form\n'
          'pub open spec fn expr_evs(e: Expr) -> Seq<Ev> { match e { %s } }\n' % table('Expr')
          + 'pub open spec fn primary_evs(p: Primary) -> Seq<Ev> { match p { %s } }\n' % table('Primary')
          + 'pub open spec fn symbol_evs(s: Symbol) -> Seq<Ev> { match s { %s } }\n' % table('Symbol'))
  return dict(prelude=prelude + spec, contracts='')

UNIT = dict(
  name='dispatchc',
  properties=['C01'],
  items=[('laythe_vm/src/compiler/mod.rs', [("impl<'a, 'src: 'a> Compiler<'a, 'src>", ['expr', 'primary', 'symbol'])])],
  rewrites=[
    ('R5', 'kind:implhdr', dict(pat=r"impl<'a, 'src: 'a> Compiler<'a, 'src> \{", rep='impl Compiler {', regex=True, optional=True)),
    ('R5', 'Compiler::*', dict(pat=r"&'a (?:ast::)?(\w+)<'src>", rep=r'&\1', regex=True, optional=True)),
    ('R5', 'Compiler::*', dict(pat='ast::', rep='', optional=True)),
    ('R7', 'Compiler::*', dict(pat=r'^(\s*(?:///?[^\n]*\n\s*)*)fn ', rep=r'\1pub fn ', regex=True, optional=True)),
  ],
  generate=generate,
  assumption_ids=['A-compiler'],
)
