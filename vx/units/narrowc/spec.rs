pub open spec fn args_evs(a: Seq<Expr>, n: int) -> Seq<Ev> decreases n {
  if n <= 0 { Seq::<Ev>::empty() } else { args_evs(a, n - 1).push(Ev::Expr(a[n - 1].id)).push(Ev::Emit(SymbolicByteCode::ArgumentDelimiter)) }
}
pub open spec fn items_evs(a: Seq<Expr>, n: int) -> Seq<Ev> decreases n {
  if n <= 0 { Seq::<Ev>::empty() } else { items_evs(a, n - 1).push(Ev::Expr(a[n - 1].id)) }
}
pub open spec fn entries_evs(a: Seq<(Expr, Expr)>, n: int) -> Seq<Ev> decreases n {
  if n <= 0 { Seq::<Ev>::empty() } else { entries_evs(a, n - 1).push(Ev::Expr(a[n - 1].0.id)).push(Ev::Expr(a[n - 1].1.id)) }
}
