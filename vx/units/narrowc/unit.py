"""C15 / C12 / C06: the operand counts the compiler narrows to u8 / u16 — Compiler::{call, list, tuple, map}: every argument / item is compiled
in order, the count operand is EXACTLY the number compiled (no truncation under the limits the parser guarantees: parserd unit), and a Call with
arguments is immediately preceded by an ArgumentDelimiter (the A-delim assumption of the peephole proof, discharged here for Compiler::call)."""
UNIT = dict(
  name='narrowc',
  properties=['C15', 'C12', 'C06'],
  items=[
    ('laythe_vm/src/byte_code.rs', ['struct Label', 'enum CaptureIndex', 'enum SymbolicByteCode']),
    ('laythe_vm/src/compiler/mod.rs', [("impl<'a, 'src: 'a> Compiler<'a, 'src>", ['call', 'list', 'tuple', 'map'])]),
  ],
  rewrites=[
    ('R7f', 'struct Label'),
    ('R11', 'struct Label', dict(drop=['Debug', 'Default', 'VariantCount'], add=['Structural'])),
    ('R11', 'enum CaptureIndex', dict(drop=['Debug', 'Default', 'VariantCount'], add=['Structural'])),
    ('R11', 'enum SymbolicByteCode', dict(drop=['Debug', 'Default', 'VariantCount'], add=['Structural'])),
    ('R11', 'enum SymbolicByteCode', dict(pat='  #[default]\n', rep='', count=1)),
    ('R11', 'enum SymbolicByteCode', dict(pat='  #[allow(dead_code)]\n', rep='', count=1)),
    ('R5', 'kind:implhdr', dict(pat=r"impl<'a, 'src: 'a> Compiler<'a, 'src> \{", rep='impl Compiler {', regex=True, optional=True)),
    ('R5', 'Compiler::*', dict(pat=r"&'a ast::(\w+)<'src>", rep=r'&\1', regex=True, optional=True)),
    ('R7', 'Compiler::*', dict(pat=r'^(\s*(?:///?[^\n]*\n\s*)*)fn ', rep=r'\1pub fn ', regex=True, optional=True)),
    # R13: for loops over the argument / item vectors -> index loops (same order)
    ('R13', 'Compiler::call', dict(pat=r'for expr in &call\.args \{', rep='let mut verif_i: usize = 0;\n    while verif_i < call.args.len() {\n      let expr = &call.args[verif_i];', regex=True, count=1)),
    ('R13', 'Compiler::list', dict(pat=r'for item in list\.items\.iter\(\) \{', rep='let mut verif_i: usize = 0;\n    while verif_i < list.items.len() {\n      let item = &list.items[verif_i];', regex=True, count=1)),
    ('R13', 'Compiler::tuple', dict(pat=r'for item in list\.items\.iter\(\) \{', rep='let mut verif_i: usize = 0;\n    while verif_i < list.items.len() {\n      let item = &list.items[verif_i];', regex=True, count=1)),
    ('R13', 'Compiler::map', dict(pat=r'for \(key, value\) in map\.entries\.iter\(\) \{', rep='let mut verif_i: usize = 0;\n    while verif_i < map.entries.len() {\n      let key = &map.entries[verif_i].0;\n      let value = &map.entries[verif_i].1;', regex=True, count=1)),
    ('R13', 'Compiler::*', dict(pat=r'(\n    \}\n\n    self\.emit_byte\()', rep=r'\n      verif_i += 1;\1', regex=True, count=1)),
  ],
  assumption_ids=['A-compiler'],
)
