// ---- trusted model (A-compiler): every other compiler method is a stub that logs --------------------------------------------------------------
pub struct Expr { pub id: int }
impl Expr { #[verifier::external_body] pub fn end(&self) -> u32 { 0 } }
pub struct Call { pub args: Vec<Expr> }
impl Call { #[verifier::external_body] pub fn end(&self) -> u32 { 0 } }
pub struct Collection { pub items: Vec<Expr> }
impl Collection { #[verifier::external_body] pub fn end(&self) -> u32 { 0 } }
pub struct Map { pub entries: Vec<(Expr, Expr)> }
impl Map { #[verifier::external_body] pub fn end(&self) -> u32 { 0 } }
pub enum Ev { Emit(SymbolicByteCode), Expr(int) }
pub struct Compiler { pub log: Ghost<Seq<Ev>> }
impl Compiler {
  #[verifier::external_body] pub fn emit_byte(&mut self, op: SymbolicByteCode, offset: u32) ensures final(self).log@ == old(self).log@.push(Ev::Emit(op)) { }
  #[verifier::external_body] pub fn expr(&mut self, e: &Expr) ensures final(self).log@ == old(self).log@.push(Ev::Expr(e.id)) { }
}
