// ---- trusted model of the list heap (A-listheap) ------------------------------------------------------------------------------
#[derive(Clone, Copy)]
pub struct Value { pub bits: u64 }
pub struct GcHooks { }
/// one allocated vector: header (capacity word with the moved flag, length word or forwarding pointer) + `cap` element slots
pub ghost struct Cell { pub moved: bool, pub fwd: usize, pub len: nat, pub cap: nat, pub elems: Seq<Value> }
/// all list vectors; `next` is the allocation counter (ids are handed out in increasing order)
pub struct ListHeap { pub ghost cells: Map<usize, Cell>, pub ghost next: usize }

/// RawSharedVector<Value, ObjHeader>: a copyable pointer to a vector's header
#[derive(Clone, Copy, PartialEq, Eq, Structural)]
pub struct RawSharedVector { pub id: usize }
pub enum RawVecLocation { Here(usize), Forwarded(RawSharedVector) }
/// List: newtype over the pointer
#[derive(Clone, Copy, PartialEq, Eq, Structural)]
pub struct List(pub RawSharedVector);

impl RawSharedVector {
  /// read_cap + msb test: where the elements are
  #[verifier::external_body]
  pub fn state(&self, verif_heap: &mut ListHeap) -> (r: RawVecLocation)
    requires old(verif_heap).cells.dom().contains(self.id)
    ensures *final(verif_heap) == *old(verif_heap),
            !old(verif_heap).cells[self.id].moved ==> r == RawVecLocation::Here(old(verif_heap).cells[self.id].cap as usize),
            old(verif_heap).cells[self.id].moved ==> r == RawVecLocation::Forwarded(RawSharedVector { id: old(verif_heap).cells[self.id].fwd })
  { RawVecLocation::Here(0) }
  #[verifier::external_body]
  pub fn has_moved(&self, verif_heap: &mut ListHeap) -> (r: bool)
    requires old(verif_heap).cells.dom().contains(self.id)
    ensures *final(verif_heap) == *old(verif_heap), r == old(verif_heap).cells[self.id].moved
  { true }
  /// the length word of THIS header (meaningful only while the vector has not moved)
  #[verifier::external_body]
  pub fn read_len(&self, verif_heap: &mut ListHeap) -> (r: usize)
    requires old(verif_heap).cells.dom().contains(self.id), !old(verif_heap).cells[self.id].moved
    ensures *final(verif_heap) == *old(verif_heap), r == old(verif_heap).cells[self.id].len
  { 0 }
  #[verifier::external_body]
  pub fn write_len(&mut self, verif_heap: &mut ListHeap, len: usize)
    requires old(verif_heap).cells.dom().contains(old(self).id), !old(verif_heap).cells[old(self).id].moved
    ensures *final(self) == *old(self), final(verif_heap).next == old(verif_heap).next,
            final(verif_heap).cells == old(verif_heap).cells.insert(old(self).id, Cell { len: len as nat, ..old(verif_heap).cells[old(self).id] })
  { }
  /// ptr::write(self.item_mut(index), value): item_mut follows the forwarding chain to the vector that holds the elements
  #[verifier::external_body]
  pub fn write_value(&mut self, verif_heap: &mut ListHeap, value: Value, index: usize)
    requires old(verif_heap).wf(), old(verif_heap).cells.dom().contains(old(self).id), (index as int) < old(verif_heap).cells[resolve(old(verif_heap), old(self).id)].cap
    ensures *final(self) == *old(self), final(verif_heap).next == old(verif_heap).next,
            ({ let r = resolve(old(verif_heap), old(self).id);
               final(verif_heap).cells == old(verif_heap).cells.insert(r, Cell { elems: old(verif_heap).cells[r].elems.update(index as int, value), ..old(verif_heap).cells[r] }) })
  { }
  #[verifier::external_body]
  pub fn read_value(&mut self, verif_heap: &mut ListHeap, index: usize) -> (r: Value)
    requires old(verif_heap).wf(), old(verif_heap).cells.dom().contains(old(self).id), (index as int) < old(verif_heap).cells[resolve(old(verif_heap), old(self).id)].cap
    ensures *final(self) == *old(self), *final(verif_heap) == *old(verif_heap), r == old(verif_heap).cells[resolve(old(verif_heap), old(self).id)].elems[index as int]
  { Value { bits: 0 } }
  /// R9: ptr::copy(self.item_ptr(src), self.item_mut(dst), n) — memmove of n slots inside the vector that holds the elements
  #[verifier::external_body]
  pub fn verif_copy_within(&self, verif_heap: &mut ListHeap, src: usize, dst: usize, n: usize)
    requires old(verif_heap).wf(), old(verif_heap).cells.dom().contains(self.id),
             src as int + n as int <= old(verif_heap).cells[resolve(old(verif_heap), self.id)].cap, dst as int + n as int <= old(verif_heap).cells[resolve(old(verif_heap), self.id)].cap
    ensures final(verif_heap).next == old(verif_heap).next,
            ({ let r = resolve(old(verif_heap), self.id); let e = old(verif_heap).cells[r].elems;
               final(verif_heap).cells == old(verif_heap).cells.insert(r, Cell { elems: Seq::new(e.len(), |k: int| if dst as int <= k < dst as int + n as int { e[k - dst as int + src as int] } else { e[k] }), ..old(verif_heap).cells[r] }) })
  { }
  /// R9: manage_obj(VecBuilder::new(self, new_cap)): a FRESH vector of capacity new_cap holding a copy of the current elements
  #[verifier::external_body]
  pub fn verif_alloc_copy(&self, verif_heap: &mut ListHeap, new_cap: usize) -> (r: RawSharedVector)
    requires old(verif_heap).wf(), old(verif_heap).cells.dom().contains(self.id), view(old(verif_heap), self.id).len() <= new_cap, old(verif_heap).next < usize::MAX
    ensures r.id == old(verif_heap).next, final(verif_heap).next == old(verif_heap).next + 1,
            ({ let v = view(old(verif_heap), self.id);
               exists|pad: Seq<Value>| pad.len() == new_cap - v.len() && final(verif_heap).cells == old(verif_heap).cells.insert(r.id, Cell { moved: false, fwd: 0, len: v.len(), cap: new_cap as nat, elems: v + pad }) })
  { RawSharedVector { id: 0 } }
  /// R9: write_len(new_list): the length word of a vector that is about to be marked moved holds the pointer to its successor
  #[verifier::external_body]
  pub fn verif_write_fwd(&mut self, verif_heap: &mut ListHeap, to: RawSharedVector)
    requires old(verif_heap).cells.dom().contains(old(self).id), !old(verif_heap).cells[old(self).id].moved
    ensures *final(self) == *old(self), final(verif_heap).next == old(verif_heap).next,
            final(verif_heap).cells == old(verif_heap).cells.insert(old(self).id, Cell { fwd: to.id, ..old(verif_heap).cells[old(self).id] })
  { }
  /// sets the moved flag in the capacity word
  #[verifier::external_body]
  pub fn mark_moved(&mut self, verif_heap: &mut ListHeap, cap: usize)
    requires old(verif_heap).cells.dom().contains(old(self).id)
    ensures *final(self) == *old(self), final(verif_heap).next == old(verif_heap).next,
            final(verif_heap).cells == old(verif_heap).cells.insert(old(self).id, Cell { moved: true, cap: cap as nat, ..old(verif_heap).cells[old(self).id] })
  { }
}
