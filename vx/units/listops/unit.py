"""C10 / C11 (unbounded): the real List operations (push, pop, insert, remove, len, cap, state, ensure_capacity, grow) and the real
RawSharedVector::{len, cap, is_empty} against a sequence model, INCLUDING growth and forwarding: every handle of one list — stale or
not — sees the same sequence after every operation, other lists are untouched.
The heap of list vectors is reached through raw pointers in the real code; in the unit it is explicit state threaded through every call
(R16), and the raw primitives (header reads / writes, element reads / writes, memmove, allocation of the grown copy) are stubs over it."""
_HM = ['state', 'pop', 'remove', 'push', 'insert', 'ensure_capacity', 'grow', 'len', 'cap', 'has_moved', 'is_empty',
       'read_len', 'write_len', 'read_value', 'write_value', 'mark_moved']
UNIT = dict(
  name='listops',
  properties=['C10', 'C11'],
  items=[
    ('laythe_core/src/collections/shared_vector/raw_shared_vector.rs', ['enum IndexedResult', ('impl<T, H> RawSharedVector<T, H>', ['len', 'is_empty', 'cap'])]),
    ('laythe_core/src/object/list.rs', ['enum ListLocation', ('impl List', ['new', 'len', 'is_empty', 'cap', 'has_moved', 'state', 'pop', 'remove', 'push', 'insert', 'ensure_capacity', 'grow'])]),
  ],
  rewrites=[
    ('R11', 'enum IndexedResult', dict(drop=['Debug', 'PartialEq', 'Eq'])),
    ('R6', 'kind:implhdr', dict(pat='impl<T, H> RawSharedVector<T, H> {', rep='impl RawSharedVector {', optional=True)),
    ('R6', 'RawSharedVector::*', dict(pat='RawVecLocation<T, H>', rep='RawVecLocation', optional=True)),
    ('R6', 'List::new', dict(pat='raw_vector: RawSharedVector<Value, ObjHeader>', rep='raw_vector: RawSharedVector', count=1)),
    ('R7', 'List::*', dict(pat=r'^(\s*(?:///[^\n]*\n\s*)*)fn ', rep=r'\1pub fn ', regex=True, optional=True)),
    # R9: the raw memmove of insert / remove (ptr::copy between item_ptr / item_mut of one vector) is one stub with the same three operands
    ('R9', 'List::remove', dict(pat=r'ptr::copy\(\s*self\.0\.item_ptr\(([^,]*)\),\s*self\.0\.item_mut\(([^,]*)\),\s*([^,]*),\s*\);', rep=r'self.0.verif_copy_within(\1, \2, \3);', regex=True, count=1)),
    ('R9', 'List::insert', dict(pat=r'ptr::copy\(\s*list\.0\.item_ptr\(([^,]*)\),\s*list\.0\.item_mut\(([^,]*)\),\s*([^,]*),\s*\);', rep=r'list.0.verif_copy_within(\1, \2, \3);', regex=True, count=1)),
    # R9: the grown copy (manage_obj(VecBuilder::new(self, new_cap)): a fresh vector holding the current elements) and the forwarding pointer
    ('R9', 'List::grow', dict(pat='List::new(hooks.manage_obj(VecBuilder::new(self, new_cap)))', rep='List::new(self.0.verif_alloc_copy(new_cap))', count=1)),
    ('R9', 'List::grow', dict(pat='self.0.write_len(new_list);', rep='self.0.verif_write_fwd(new_list.0);', count=1)),
    # R16: thread the heap
    ('R16', 'kind:fn', dict(methods=_HM + ['verif_copy_within', 'verif_alloc_copy', 'verif_write_fwd'])),
    ('R16x', 'List::new', dict(pat='pub fn new(verif_heap: &mut ListHeap, raw_vector', rep='pub fn new(raw_vector', count=1)),
  ],
  assumption_ids=['A-listheap'],
)
