// ---- listops: specification ---------------------------------------------------------------------------------------------------
impl ListHeap {
  /// every vector has room, a live one's length fits, a moved one points to a vector allocated LATER (so chains are finite)
  pub open spec fn cell_ok(&self, id: usize) -> bool {
    let c = self.cells[id];
    &&& id < self.next
    &&& c.cap >= 1 && c.cap <= usize::MAX && c.elems.len() == c.cap
    &&& (!c.moved ==> c.len <= c.cap)
    &&& (c.moved ==> id < c.fwd && c.fwd < self.next && self.cells.dom().contains(c.fwd))
  }
  pub open spec fn wf(&self) -> bool { forall|id: usize| self.cells.dom().contains(id) ==> #[trigger] self.cell_ok(id) }
}
/// the vector that holds the elements of the list a handle denotes
pub open spec fn resolve(h: &ListHeap, id: usize) -> usize
  decreases h.next - id when h.wf() && h.cells.dom().contains(id) via resolve_decreases
{
  if h.cells[id].moved { resolve(h, h.cells[id].fwd) } else { id }
}
#[via_fn]
proof fn resolve_decreases(h: &ListHeap, id: usize) { assert(h.cell_ok(id)); }
/// the list as a sequence, through any handle
pub open spec fn view(h: &ListHeap, id: usize) -> Seq<Value> {
  let r = resolve(h, id);
  h.cells[r].elems.subrange(0, h.cells[r].len as int)
}
pub proof fn lemma_resolve_props(h: &ListHeap, id: usize)
  requires h.wf(), h.cells.dom().contains(id),
  ensures h.cells.dom().contains(resolve(h, id)), !h.cells[resolve(h, id)].moved, id <= resolve(h, id) < h.next,
  decreases h.next - id
{
  assert(h.cell_ok(id));
  if h.cells[id].moved { lemma_resolve_props(h, h.cells[id].fwd); }
}

// ---- how resolve / view react to the three kinds of heap update the operations make ---------------------------------------------
/// (1) a LIVE vector's length / elements change (it stays live, same capacity)
pub open spec fn live_update(h1: &ListHeap, h2: &ListHeap, r: usize) -> bool {
  &&& h1.wf() && h1.cells.dom().contains(r) && !h1.cells[r].moved
  &&& h2.next == h1.next && h2.cells.dom() =~= h1.cells.dom()
  &&& forall|id: usize| h1.cells.dom().contains(id) && id != r ==> #[trigger] h2.cells[id] == h1.cells[id]
  &&& !h2.cells[r].moved && h2.cells[r].cap == h1.cells[r].cap && h2.cells[r].elems.len() == h2.cells[r].cap && h2.cells[r].len <= h2.cells[r].cap
}
pub proof fn lemma_live_update_wf(h1: &ListHeap, h2: &ListHeap, r: usize)
  requires live_update(h1, h2, r),
  ensures h2.wf(),
{
  assert forall|id: usize| h2.cells.dom().contains(id) implies #[trigger] h2.cell_ok(id) by {
    if id != r { assert(h2.cells[id] == h1.cells[id]); assert(h1.cell_ok(id)); } else { assert(h1.cell_ok(r)); }
  }
}
pub proof fn lemma_live_update_resolve(h1: &ListHeap, h2: &ListHeap, r: usize, id: usize)
  requires live_update(h1, h2, r), h1.cells.dom().contains(id),
  ensures resolve(h2, id) == resolve(h1, id),
  decreases h1.next - id
{
  lemma_live_update_wf(h1, h2, r);
  assert(h1.cell_ok(id));
  if id != r {
    assert(h2.cells[id] == h1.cells[id]);
    if h1.cells[id].moved { lemma_live_update_resolve(h1, h2, r, h1.cells[id].fwd); }
  }
}
/// after a live update every handle denotes what it denoted, except that handles of the updated list see the new contents
pub proof fn lemma_live_update_views(h1: &ListHeap, h2: &ListHeap, r: usize)
  requires live_update(h1, h2, r),
  ensures h2.wf(),
    forall|id: usize| h1.cells.dom().contains(id) ==> #[trigger] resolve(h2, id) == resolve(h1, id),
    forall|id: usize| h1.cells.dom().contains(id) && resolve(h1, id) != r ==> #[trigger] view(h2, id) == view(h1, id),
    forall|id: usize| h1.cells.dom().contains(id) && resolve(h1, id) == r ==> #[trigger] view(h2, id) == h2.cells[r].elems.subrange(0, h2.cells[r].len as int),
{
  lemma_live_update_wf(h1, h2, r);
  assert forall|id: usize| h1.cells.dom().contains(id) implies #[trigger] resolve(h2, id) == resolve(h1, id) by { lemma_live_update_resolve(h1, h2, r, id); }
  assert forall|id: usize| h1.cells.dom().contains(id) && resolve(h1, id) != r implies #[trigger] view(h2, id) == view(h1, id) by {
    lemma_live_update_resolve(h1, h2, r, id); lemma_resolve_props(h1, id); assert(h2.cells[resolve(h1, id)] == h1.cells[resolve(h1, id)]);
  }
  assert forall|id: usize| h1.cells.dom().contains(id) && resolve(h1, id) == r implies #[trigger] view(h2, id) == h2.cells[r].elems.subrange(0, h2.cells[r].len as int) by {
    lemma_live_update_resolve(h1, h2, r, id);
  }
}

/// (2) a fresh vector is allocated
pub open spec fn alloc_update(h1: &ListHeap, h2: &ListHeap, n: usize) -> bool {
  &&& h1.wf() && n == h1.next && h2.next == h1.next + 1 && !h1.cells.dom().contains(n)
  &&& h2.cells.dom() =~= h1.cells.dom().insert(n)
  &&& forall|id: usize| h1.cells.dom().contains(id) ==> #[trigger] h2.cells[id] == h1.cells[id]
  &&& !h2.cells[n].moved && h2.cells[n].cap >= 1 && h2.cells[n].cap <= usize::MAX && h2.cells[n].elems.len() == h2.cells[n].cap && h2.cells[n].len <= h2.cells[n].cap
}
pub proof fn lemma_alloc_update_wf(h1: &ListHeap, h2: &ListHeap, n: usize)
  requires alloc_update(h1, h2, n),
  ensures h2.wf(),
{
  assert forall|id: usize| h2.cells.dom().contains(id) implies #[trigger] h2.cell_ok(id) by {
    if id != n { assert(h1.cells.dom().contains(id)); assert(h2.cells[id] == h1.cells[id]); assert(h1.cell_ok(id)); }
  }
}
pub proof fn lemma_alloc_update_resolve(h1: &ListHeap, h2: &ListHeap, n: usize, id: usize)
  requires alloc_update(h1, h2, n), h1.cells.dom().contains(id),
  ensures resolve(h2, id) == resolve(h1, id), view(h2, id) == view(h1, id),
  decreases h1.next - id
{
  lemma_alloc_update_wf(h1, h2, n);
  assert(h1.cell_ok(id));
  assert(h2.cells[id] == h1.cells[id]);
  if h1.cells[id].moved { lemma_alloc_update_resolve(h1, h2, n, h1.cells[id].fwd); }
  lemma_resolve_props(h1, id);
  assert(h2.cells[resolve(h1, id)] == h1.cells[resolve(h1, id)]);
}

/// (3) a live vector r is marked moved, forwarding to a live vector n allocated later
pub open spec fn move_update(h1: &ListHeap, h2: &ListHeap, r: usize, n: usize) -> bool {
  &&& h1.wf() && h1.cells.dom().contains(r) && !h1.cells[r].moved && h1.cells.dom().contains(n) && !h1.cells[n].moved && r < n
  &&& h2.next == h1.next && h2.cells.dom() =~= h1.cells.dom()
  &&& forall|id: usize| h1.cells.dom().contains(id) && id != r ==> #[trigger] h2.cells[id] == h1.cells[id]
  &&& h2.cells[r].moved && h2.cells[r].fwd == n && h2.cells[r].cap >= 1 && h2.cells[r].cap <= usize::MAX && h2.cells[r].elems.len() == h2.cells[r].cap
}
pub proof fn lemma_move_update_wf(h1: &ListHeap, h2: &ListHeap, r: usize, n: usize)
  requires move_update(h1, h2, r, n),
  ensures h2.wf(),
{
  assert forall|id: usize| h2.cells.dom().contains(id) implies #[trigger] h2.cell_ok(id) by {
    if id != r { assert(h2.cells[id] == h1.cells[id]); assert(h1.cell_ok(id)); } else { assert(h1.cell_ok(r)); assert(h1.cell_ok(n)); }
  }
}
pub proof fn lemma_move_update_resolve(h1: &ListHeap, h2: &ListHeap, r: usize, n: usize, id: usize)
  requires move_update(h1, h2, r, n), h1.cells.dom().contains(id),
  ensures resolve(h2, id) == (if resolve(h1, id) == r { n } else { resolve(h1, id) }),
  decreases h1.next - id
{
  lemma_move_update_wf(h1, h2, r, n);
  assert(h1.cell_ok(id)); assert(h1.cell_ok(n));
  if id == r {
    assert(h2.cells[n] == h1.cells[n]);
    assert(resolve(h2, n) == n);
  } else {
    assert(h2.cells[id] == h1.cells[id]);
    if h1.cells[id].moved { lemma_move_update_resolve(h1, h2, r, n, h1.cells[id].fwd); }
  }
}
