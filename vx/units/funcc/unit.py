"""C02 / C01 / C06: Compiler::function — a function, method or lambda is compiled by a CHILD compiler in its own scope: slot 0 is the receiver
(methods, initialisers) or a reserved placeholder (functions, static methods), then the parameters, then the body (an expression body gets its
implicit Return); the child's diagnostics are handed to the parent; and the parent emits either the function as a plain constant (no captures, a
plain function) or Closure(constant) followed by ONE CaptureIndex operand per capture of the child, in the child's order — the order op_closure
(ops unit) reads them in.  Every callee logs on the compiler it is called on (stub-and-log)."""
UNIT = dict(
  name='funcc',
  properties=['C02', 'C01', 'C06'],
  items=[
    ('laythe_vm/src/byte_code.rs', ['struct Label', 'enum CaptureIndex', 'enum SymbolicByteCode']),
    ('laythe_core/src/object/fun.rs', ['enum FunKind']),
    ('laythe_vm/src/compiler/mod.rs', [("impl<'a, 'src: 'a> Compiler<'a, 'src>", ['function'])]),
  ],
  rewrites=[
    ('R7f', 'struct Label'),
    ('R11', 'struct Label', dict(drop=['Debug', 'Default', 'VariantCount'], add=['Structural'])),
    ('R11', 'enum CaptureIndex', dict(drop=['Debug', 'Default', 'VariantCount'], add=['Structural'])),
    ('R11', 'enum SymbolicByteCode', dict(drop=['Debug', 'Default', 'VariantCount'], add=['Structural'])),
    ('R11', 'enum SymbolicByteCode', dict(pat='  #[default]\n', rep='', count=1)),
    ('R11', 'enum SymbolicByteCode', dict(pat='  #[allow(dead_code)]\n', rep='', count=1)),
    ('R11', 'enum FunKind', dict(drop=['Debug'], add=['Structural'])),
    ('R5', 'kind:implhdr', dict(pat=r"impl<'a, 'src: 'a> Compiler<'a, 'src> \{", rep='impl Compiler {', regex=True, optional=True)),
    ('R5', 'Compiler::*', dict(pat=r"&'a ast::(\w+)<'src>", rep=r'&\1', regex=True, optional=True)),
    ('R5', 'Compiler::*', dict(pat='ast::FunBody::', rep='FunBody::', optional=True)),
    ('R7', 'Compiler::*', dict(pat=r'^(\s*(?:///?[^\n]*\n\s*)*)fn ', rep=r'\1pub fn ', regex=True, optional=True)),
    # R6: interning the name (allocator), the arity object
    ('R6', 'Compiler::function', dict(pat=r'let name = fun\s*\.name\s*\.as_ref\(\)\s*\.map\(\|name\| self\.gc\.borrow_mut\(\)\.manage_str\(name\.str\(\), self\)\)\s*\.unwrap_or_else\(\|\| self\.gc\.borrow_mut\(\)\.manage_str\("lambda", self\)\);', rep='let name = self.verif_fun_name(fun);', regex=True, count=1)),
    ('R6', 'Compiler::function', dict(pat='let fun = self.gc.borrow_mut().manage_obj(fun, self);', rep='let fun = self.verif_manage_fun(fun);', count=1)),
    ('R3', 'Compiler::function', dict(pat=r'panic!\("Did not expect script\."\)', rep='verif_panic()', regex=True, count=1)),
    ('R6', 'Compiler::function', dict(pat='self.errors.extend_from_slice(&errors);', rep='self.verif_take_errors(&errors);', count=1)),
    ('R6', 'Compiler::function', dict(pat=r'matches!\(fun_kind, FunKind::Fun \| FunKind::Script\)', rep='(fun_kind == FunKind::Fun || fun_kind == FunKind::Script)', regex=True, count=1)),
    ('R6', 'Compiler::function', dict(pat='val!(fun)', rep='verif_val(fun)', count=2)),
    # R13f: captures.iter().for_each(|capture| EXPR) -> index loop
    ('R13f', 'Compiler::function', dict(pat=r'captures\s*\.iter\(\)\s*\.for_each\(\|capture\| (self\.emit_byte\(SymbolicByteCode::CaptureIndex\(\*capture\), end_line\))\);', rep=r'let mut verif_k: usize = 0;\n      while verif_k < captures.len() {\n        let capture = &captures[verif_k];\n        \1;\n        verif_k += 1;\n      }', regex=True, count=1)),
  ],
  assumption_ids=['A-compiler'],
)
