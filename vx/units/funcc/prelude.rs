// ---- trusted model (A-compiler): every callee is a stub that LOGS on the compiler it is called on ----------------------------------------------------
pub const SELF: &'static str = "self";
pub const UNINITIALIZED_VAR: &'static str = "$uninit";
pub uninterp spec fn name_id(s: &str) -> int;
#[derive(Clone, Copy)] pub struct Span { pub start: u32, pub end: u32 }
pub struct SymbolTable { pub p: usize }
pub struct Param { }
pub struct CallSignature { pub id: int, pub params: Vec<Param> }
impl CallSignature { #[verifier::external_body] pub fn span(&self) -> Span { Span { start: 0, end: 0 } } }
pub struct Block { pub id: int }
pub struct Expr { pub id: int }
impl Expr { #[verifier::external_body] pub fn end(&self) -> u32 { 0 } }
pub enum FunBody { Block(Block), Expr(Expr) }
pub struct Fun { pub id: int, pub symbols: SymbolTable, pub call_sig: CallSignature, pub body: FunBody }
impl Fun { #[verifier::external_body] pub fn end(&self) -> u32 { 0 } }
pub struct LyStr { pub p: usize }
#[derive(Clone, Copy, PartialEq, Eq, Structural)] pub enum Arity { Fixed(u8) }
pub struct Diag { }
/// the compiled function object
pub struct FunObj { pub id: Ghost<int>, pub ncaps: Ghost<nat> }
#[derive(Clone, Copy)] pub struct FunRef { pub id: Ghost<int>, pub ncaps: Ghost<nat> }
impl FunRef { #[verifier::external_body] pub fn capture_count(&self) -> (r: usize) ensures r == self.ncaps@ { 0 } }
#[derive(Clone, Copy)] pub struct Value { pub id: Ghost<int> }
#[verifier::external_body] pub fn verif_val(f: FunRef) -> (r: Value) ensures r.id@ == f.id@ { unimplemented!() }
#[verifier::external_body] pub fn verif_panic<T>() -> T requires false { unimplemented!() }
pub enum Ev { Emit(SymbolicByteCode), Const(int), BeginScope, DeclareParam(int), Declare(int), CallSig(int), Block(int), Expr(int), Errors(nat) }
pub struct Compiler { pub fun_kind: FunKind, pub captures: Ghost<Seq<CaptureIndex>>, pub nerrors: Ghost<nat>, pub log: Ghost<Seq<Ev>> }
pub uninterp spec fn const_of(v: int) -> u16;
impl Compiler {
  pub open spec fn quiet(o: &Compiler, n: &Compiler) -> bool { n.fun_kind == o.fun_kind && n.captures == o.captures && n.nerrors == o.nerrors }
  #[verifier::external_body] pub fn verif_fun_name(&mut self, fun: &Fun) -> (r: LyStr) ensures *final(self) == *old(self) { LyStr { p: 0 } }
  /// Compiler::child (compilerd unit): a fresh compiler of this kind, nothing emitted, nothing captured yet
  #[verifier::external_body] pub fn child(name: LyStr, arity: Arity, fun_kind: FunKind, enclosing: &mut Compiler) -> (r: Compiler)
    ensures *final(enclosing) == *old(enclosing), r.fun_kind == fun_kind, r.log@.len() == 0 { unimplemented!() }
  #[verifier::external_body] pub fn begin_scope(&mut self, t: &SymbolTable) ensures Self::quiet(old(self), final(self)), final(self).log@ == old(self).log@.push(Ev::BeginScope) { }
  #[verifier::external_body] pub fn declare_and_define_parameter(&mut self, name: &str, span: Span) ensures Self::quiet(old(self), final(self)), final(self).log@ == old(self).log@.push(Ev::DeclareParam(name_id(name))) { }
  #[verifier::external_body] pub fn declare_variable(&mut self, name: &str, span: Span) -> (r: (u8, u16)) ensures Self::quiet(old(self), final(self)), final(self).log@ == old(self).log@.push(Ev::Declare(name_id(name))) { (0, 0) }
  /// parameters, the body: these may capture and may record diagnostics
  #[verifier::external_body] pub fn call_sig(&mut self, c: &CallSignature) ensures final(self).fun_kind == old(self).fun_kind, final(self).log@ == old(self).log@.push(Ev::CallSig(c.id)) { }
  #[verifier::external_body] pub fn block(&mut self, b: &Block) ensures final(self).fun_kind == old(self).fun_kind, final(self).log@ == old(self).log@.push(Ev::Block(b.id)) { }
  #[verifier::external_body] pub fn expr(&mut self, e: &Expr) ensures final(self).fun_kind == old(self).fun_kind, final(self).log@ == old(self).log@.push(Ev::Expr(e.id)) { }
  #[verifier::external_body] pub fn emit_byte(&mut self, op: SymbolicByteCode, offset: u32) ensures Self::quiet(old(self), final(self)), final(self).log@ == old(self).log@.push(Ev::Emit(op)) { }
  /// end_compiler: the function object, the child's diagnostics, the child's captures in its own order
  #[verifier::external_body] pub fn end_compiler(self, line: u32) -> (r: (FunObj, Vec<Diag>, Vec<CaptureIndex>))
    ensures r.2@ == child_caps(self.log@), r.0.ncaps@ == child_caps(self.log@).len(), r.1@.len() == child_errs(self.log@), r.0.id@ == fun_of(self.log@) { unimplemented!() }
  #[verifier::external_body] pub fn verif_manage_fun(&mut self, f: FunObj) -> (r: FunRef) ensures *final(self) == *old(self), r.id == f.id, r.ncaps == f.ncaps { unimplemented!() }
  #[verifier::external_body] pub fn verif_take_errors(&mut self, e: &Vec<Diag>) ensures final(self).fun_kind == old(self).fun_kind, final(self).captures == old(self).captures, final(self).nerrors@ == old(self).nerrors@ + e@.len(), final(self).log@ == old(self).log@.push(Ev::Errors(e@.len() as nat)) { }
  #[verifier::external_body] pub fn make_constant(&mut self, v: Value) -> (r: u16) ensures Self::quiet(old(self), final(self)), r == const_of(v.id@), final(self).log@ == old(self).log@.push(Ev::Const(v.id@)) { 0 }
  #[verifier::external_body] pub fn emit_constant(&mut self, v: Value, line: u32) ensures Self::quiet(old(self), final(self)), final(self).log@ == old(self).log@.push(Ev::Const(v.id@)).push(Ev::Emit(SymbolicByteCode::Constant(0))) { }
}
/// the function object compiled from what the child was asked to do, the captures it collected doing so (its own order) and its diagnostics
pub uninterp spec fn fun_of(log: Seq<Ev>) -> int;
pub uninterp spec fn child_caps(log: Seq<Ev>) -> Seq<CaptureIndex>;
pub uninterp spec fn child_errs(log: Seq<Ev>) -> nat;
