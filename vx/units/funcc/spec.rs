/// what the CHILD compiler is asked to do, in order
pub open spec fn child_evs(fun: &Fun, kind: FunKind) -> Seq<Ev> {
  seq![Ev::BeginScope, match kind { FunKind::Method | FunKind::Initializer => Ev::DeclareParam(name_id(SELF)), _ => Ev::Declare(name_id(UNINITIALIZED_VAR)) }, Ev::CallSig(fun.call_sig.id)]
    + (match fun.body { FunBody::Block(b) => seq![Ev::Block(b.id)], FunBody::Expr(e) => seq![Ev::Expr(e.id), Ev::Emit(SymbolicByteCode::Return)] })
}
pub open spec fn caps_evs(cs: Seq<CaptureIndex>, n: int) -> Seq<Ev> decreases n {
  if n <= 0 { Seq::<Ev>::empty() } else { caps_evs(cs, n - 1).push(Ev::Emit(SymbolicByteCode::CaptureIndex(cs[n - 1]))) }
}
