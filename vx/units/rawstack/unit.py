"""C06 / C01 (the value stack behaves as a stack): Fiber::{push, pop, drop, drop_n, peek, peek_set, get_val, set_val} (fiber/mod.rs), extracted
as they are.  The stack memory is a model (a sequence of slots, the reserved capacity) and `stack_top` an offset into it; `*location` and
`*location = v` become named loads / stores, the debug-only bounds assertions are dropped (R3d: they are not in a release build).  With the
abstract view `slots below stack_top`, the contracts are the stack laws the ops units ASSUME of their Fiber model (A-fiber): push appends, pop
removes and answers the last, peek(d) / peek_set(d) address the d-th slot from the top, drop / drop_n shorten — each while the depth stays inside
the reserved capacity, which is the precondition (max_slots: C06)."""
UNIT = dict(
  name='rawstack',
  properties=['C06', 'C01'],
  items=[('laythe_vm/src/fiber/mod.rs', [('impl Fiber', ['push', 'pop', 'drop', 'drop_n', 'peek', 'peek_set', 'get_val', 'set_val'])])],
  rewrites=[
    ('R7', 'Fiber::*', dict(pat=r'(pub )?unsafe fn', rep='pub fn', regex=True, count=1)),
    ('R7', 'Fiber::*', dict(pat=r'\{ unsafe \{', rep='{ {', regex=True, count=1)),
    # R3d: debug-only bounds assertions dropped
    ('R3d', 'Fiber::*', dict(pat=r'#\[cfg\(debug_assertions\)\]\s*(?:self\.assert_stack_inbounds\(\);|assert_inbounds\(&self\.stack, location\);)\s*', rep='', regex=True, optional=True)),
    # raw pointer loads / stores -> named operations on the stack memory (operands kept as written)
    ('R6', 'Fiber::get_val', dict(pat=r'\*location\n', rep='verif_load(&self.mem, location)\n', regex=True, count=1)),
    ('R6', 'Fiber::set_val', dict(pat=r'\*location = val', rep='verif_store(&mut self.mem, location, val)', regex=True, count=1)),
  ],
  assumption_ids=['A-fiber'],
)
