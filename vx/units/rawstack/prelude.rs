// ---- trusted model: the stack memory and pointers into it (A-fiber) ---------------------------------------------------------------------------------------
#[derive(Clone, Copy)] pub struct Value { pub bits: u64 }
pub struct Mem { pub slots: Ghost<Seq<Value>> }
#[derive(Clone, Copy)] pub struct Ptr { pub off: isize }
impl Ptr {
  pub fn offset(self, n: isize) -> (r: Ptr) requires isize::MIN <= self.off + n <= isize::MAX ensures r.off == self.off + n { Ptr { off: self.off + n } }
  #[verifier::external_body] pub fn sub(self, n: usize) -> (r: Ptr) requires isize::MIN <= self.off - n <= isize::MAX ensures r.off == self.off - n { unimplemented!() }
}
/// `*p`
#[verifier::external_body] pub fn verif_load(m: &Mem, p: Ptr) -> (r: Value) requires 0 <= p.off < m.slots@.len() ensures r == m.slots@[p.off as int] { unimplemented!() }
/// `*p = v`
#[verifier::external_body] pub fn verif_store(m: &mut Mem, p: Ptr, v: Value) requires 0 <= p.off < old(m).slots@.len() ensures final(m).slots@ == old(m).slots@.update(p.off as int, v) { unimplemented!() }
pub struct Fiber { pub mem: Mem, pub stack_top: Ptr }
/// the stack: the slots below stack_top
pub open spec fn view(f: &Fiber) -> Seq<Value> { f.mem.slots@.subrange(0, f.stack_top.off as int) }
pub open spec fn wf(f: &Fiber) -> bool { 0 <= f.stack_top.off <= f.mem.slots@.len() && f.mem.slots@.len() < isize::MAX }
