/// C01 / C02: the code of `for item in iterable { body }` with first fresh label n at try depth d
pub open spec fn for_evs(f: &For, n: int, d: nat) -> Seq<Ev> {
  let it = name_id(ITER_VAR); let item = f.item.id; let s = Label(n as u32); let e = Label((n + 1) as u32);
  seq![Ev::BeginScope,
       // the iterable, `.iter()` on it, kept as the hidden local $iter
       Ev::Expr(f.iter.id), fv(Fv::Declare(it)), fv(Fv::KnownInvoke(name_id(ITER), 0)), fv(Fv::Define(it, SymbolState::LocalInitialized)),
       // the item variable: declared ONCE, before the loop starts, initialised with nil
       fv(Fv::Declare(item)), Ev::Emit(SymbolicByteCode::Nil), fv(Fv::Define(item, decl_state(item))),
       // every iteration: $iter.next() — false leaves forward to the end label
       Ev::Emit(SymbolicByteCode::Label(s)), fv(Fv::StrConst(name_id("next"))), fv(Fv::StrConst(name_id("current"))),
       Ev::Emit(if local_of(it).1 == SymbolState::LocalCaptured { SymbolicByteCode::GetBox(local_of(it).0) } else { SymbolicByteCode::GetLocal(local_of(it).0) }), Ev::Emit(SymbolicByteCode::IterNext(str_const(name_id("next")))), Ev::Emit(SymbolicByteCode::JumpIfFalse(e)),
       // item = $iter.current(), the copy dropped
       Ev::Emit(if local_of(it).1 == SymbolState::LocalCaptured { SymbolicByteCode::GetBox(local_of(it).0) } else { SymbolicByteCode::GetLocal(local_of(it).0) }), Ev::Emit(SymbolicByteCode::IterCurrent(str_const(name_id("current")))), Ev::Emit(if local_of(item).1 == SymbolState::LocalCaptured { SymbolicByteCode::SetBox(local_of(item).0) } else { SymbolicByteCode::SetLocal(local_of(item).0) }), Ev::Emit(SymbolicByteCode::Drop),
       // the body, back to the start label, the end label
       Ev::BeginScope, Ev::Body(d, d), Ev::EndScope, Ev::Emit(SymbolicByteCode::Loop(s)), Ev::Emit(SymbolicByteCode::Label(e)),
       Ev::EndScope]
}
