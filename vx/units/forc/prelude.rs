// ---- what Compiler::for_ calls (on top of the compilerd model): stubs that log --------------------------------------------------------------------
pub const ITER_VAR: &'static str = "$iter";
pub const ITER: &'static str = "iter";
#[derive(Clone, Copy)] pub struct Span { pub start: u32, pub end: u32 }
impl Token { #[verifier::external_body] pub fn str(&self) -> (r: &str) ensures name_id(r) == self.id { "" } #[verifier::external_body] pub fn span(&self) -> Span { Span { start: 0, end: 0 } } }
impl Expr { #[verifier::external_body] pub fn span(&self) -> Span { Span { start: 0, end: 0 } } }
pub struct For { pub symbols: SymbolTable, pub item: Token, pub iter: Expr, pub body: Block }
impl For { #[verifier::external_body] pub fn end(&self) -> u32 { 0 } }
pub enum Fv { Declare(int), Define(int, SymbolState), KnownInvoke(int, u8), StrConst(int) }
pub uninterp spec fn fv(e: Fv) -> Ev;
pub uninterp spec fn str_const(name: int) -> u16;
pub uninterp spec fn decl_state(name: int) -> SymbolState;
impl Compiler {
  #[verifier::external_body] pub fn declare_variable(&mut self, name: &str, span: Span) -> (r: (SymbolState, u16)) ensures quiet(old(self), final(self)), r.0 == decl_state(name_id(name)), final(self).log@ == old(self).log@.push(fv(Fv::Declare(name_id(name)))) { (SymbolState::Uninitialized, 0) }
  #[verifier::external_body] pub fn define_variable(&mut self, name: &str, state: SymbolState, span: Span) ensures quiet(old(self), final(self)), final(self).log@ == old(self).log@.push(fv(Fv::Define(name_id(name), state))) { }
  #[verifier::external_body] pub fn emit_known_invoke(&mut self, name: &str, args: u8, offset: u32) ensures quiet(old(self), final(self)), final(self).log@ == old(self).log@.push(fv(Fv::KnownInvoke(name_id(name), args))) { }
  #[verifier::external_body] pub fn string_constant(&mut self, s: &str) -> (r: u16) ensures quiet(old(self), final(self)), r == str_const(name_id(s)), final(self).log@ == old(self).log@.push(fv(Fv::StrConst(name_id(s)))) { 0 }
  /// the real loop_scope (compilerd unit): its contract
  #[verifier::external_body] pub fn loop_scope(&mut self, end_line: u32, start: Label, end: Label, table: &SymbolTable, cb: BodyCb)
    ensures quiet(old(self), final(self)),
      final(self).log@ =~= old(self).log@ + seq![Ev::BeginScope, Ev::Body(try_depth_of(old(self).try_attributes), try_depth_of(old(self).try_attributes)), Ev::EndScope, Ev::Emit(SymbolicByteCode::Loop(start)), Ev::Emit(SymbolicByteCode::Label(end))] { }
}
