"""C01 / C02 / C06: Compiler::for_ — the iteration protocol of every for loop: inside ONE scope for the whole loop the iterable is evaluated and
`iter` invoked on it, its result is the hidden local $iter; the item variable is declared ONCE, before the loop starts (C02: one variable for the
whole loop), initialised with nil; every iteration starts at the start label, asks $iter for `next`, leaves FORWARD to the end label on false,
stores $iter's `current` into the item variable (and drops the copy), then runs the body as a loop body that jumps BACK to the start label.
Stub-and-log extraction on the compilerd model."""
UNIT = dict(
  name='forc',
  properties=['C01', 'C02', 'C06'],
  prelude_files=['../compilerd/prelude.rs', 'prelude.rs'],
  spec_files=['../compilerd/spec.rs'],
  items=[
    ('laythe_vm/src/byte_code.rs', ['struct Label', ('impl Label', ['new', 'val']), 'enum CaptureIndex', 'enum SymbolicByteCode']),
    ('laythe_core/src/object/fun.rs', ['enum FunKind']),
    ('laythe_vm/src/compiler/ir/ast.rs', ['enum BinaryOp', 'enum UnaryOp']),
    ('laythe_vm/src/compiler/ir/symbol_table.rs', ['enum SymbolState']),
    ('laythe_vm/src/compiler/mod.rs', ['struct TryAttributes', 'struct LoopAttributes', ("impl<'a, 'src: 'a> Compiler<'a, 'src>", ['for_'])]),
  ],
  rewrites=[
    ('R7f', 'struct Label'), ('R7f', 'struct TryAttributes'), ('R7f', 'struct LoopAttributes'),
    ('R11', 'struct Label', dict(drop=['Debug', 'Default', 'VariantCount'], add=['Structural'])),
    ('R11', 'enum CaptureIndex', dict(drop=['Debug', 'Default', 'VariantCount'], add=['Structural'])),
    ('R11', 'enum SymbolicByteCode', dict(drop=['Debug', 'Default', 'VariantCount'], add=['Structural'])),
    ('R11', 'enum SymbolicByteCode', dict(pat='  #[default]\n', rep='', count=1)),
    ('R11', 'enum SymbolicByteCode', dict(pat='  #[allow(dead_code)]\n', rep='', count=1)),
    ('R11', 'enum FunKind', dict(drop=['Debug'], add=['Structural'])),
    ('R11', 'enum SymbolState', dict(drop=['Debug', 'Default'], add=['Structural'])),
    ('R11', 'enum SymbolState', dict(pat='  #[default]\n', rep='', count=1)),
    ('R11', 'struct TryAttributes', dict(drop=['Debug'])), ('R11', 'struct LoopAttributes', dict(drop=['Debug'])),
    ('R5', 'kind:implhdr', dict(pat=r"impl<'a, 'src: 'a> Compiler<'a, 'src> \{", rep='impl Compiler {', regex=True, optional=True)),
    ('R5', 'Compiler::*', dict(pat=r"&'a ast::(\w+)<'src>", rep=r'&\1', regex=True, optional=True)),
    ('R7', 'Compiler::*', dict(pat=r'^(\s*(?:///?[^\n]*\n\s*)*)fn ', rep=r'\1pub fn ', regex=True, optional=True)),
    # the loop body callback is the BodyCb the real loop_scope (compilerd unit) runs; then the whole-loop scope is inlined (R17)
    ('R4', 'Compiler::for_', dict(pat=r'\|self_\| \{\s*self_\.block\(&for_\.body\);\s*\},', rep='BodyCb { },', regex=True, count=1)),
    ('R17', 'Compiler::for_'),
    ('R6', 'Compiler::for_', dict(pat=r'\.expect\("[^"]*"\)', rep='.unwrap()', regex=True, count=2)),
    # function-local consts: Verus wants the lifetime spelled out
    ('R5', 'Compiler::for_', dict(pat=r'const (NEXT|CURRENT): &str = ', rep=r"const \1: &'static str = ", regex=True, count=2)),
  ],
  assumption_ids=['A-compiler'],
)
