// ---- map objects: the sequence of insertions, in order (on top of the ops prelude) -------------------------------------------------------------
#[derive(Clone, Copy)]
pub struct MapRef { pub id: Ghost<int>, pub inserted: Ghost<Seq<(Value, Value)>> }
/// the value of a map object: its identity and what was inserted into it, in order
pub uninterp spec fn from_map(id: int, inserted: Seq<(Value, Value)>) -> Value;
impl IntoValue for MapRef {
  open spec fn into_value_spec(self) -> Value { from_map(self.id@, self.inserted@) }
  #[verifier::external_body] fn into_value(self) -> (r: Value) { Value { bits: 0 } }
}
impl MapRef {
  #[verifier::external_body] pub fn insert(&mut self, k: Value, v: Value) -> (r: Option<Value>)
    ensures final(self).id == old(self).id, final(self).inserted@ == old(self).inserted@.push((k, v)) { None }
}
impl Vm {
  /// manage_obj(Map::with_capacity(n)): a fresh empty map
  #[verifier::external_body] pub fn verif_new_map(&mut self, n: usize) -> (r: MapRef)
    ensures r.inserted@.len() == 0, final(self).fiber == old(self).fiber, final(self).ip == old(self).ip, final(self).raised == old(self).raised, aux_same(old(self), final(self)) { unimplemented!() }
}
