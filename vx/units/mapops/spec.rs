/// the first k insertions of a map literal whose 2n operands are the top of stack s: pair i (from the top) is (s[len-2-2i], s[len-1-2i])
pub open spec fn lit_pairs(s: Seq<Value>, k: int) -> Seq<(Value, Value)> decreases k {
  if k <= 0 { Seq::<(Value, Value)>::empty() } else { lit_pairs(s, k - 1).push((s[s.len() - 2 - 2 * (k - 1)], s[s.len() - 1 - 2 * (k - 1)])) }
}
