"""C01 (while / for statements): the bodies of the closures Parser::while_ and Parser::for_ hand to loop_ (R18b slices: the statements between
`self.loop_(|self_| {` and the closing `})`, `self_` renamed to `self`; a `?` inside the closure returns from the closure, as it returns from the
sliced function).  A while statement is (the expression after the keyword, `{`, the block after it); a for statement is (an identifier — the loop
variable —, `in`, the expression after it, `{`, the block), each part taken in that order of the source.  expr / block / consume / node are stubs
that log; the loop-depth bookkeeping of loop_ itself is the parserd unit."""
UNIT = dict(
  name='parserloop',
  properties=['C01'],
  items=[('laythe_vm/src/compiler/parser.rs', [("impl<'a> Parser<'a>", ['while_', 'for_'])])],
  rewrites=[
    ('R5', 'kind:implhdr', dict(pat="impl<'a> Parser<'a> {", rep='impl Parser {', count=1)),
    ('R18b', 'Parser::while_', dict(start=r'let cond = self_\.expr\(\)\?;', end=r'Ok\(Stmt::While\([^\n]*\)\)', sig='pub fn while_(&mut self) -> ParseResult<Stmt>')),
    ('R18b', 'Parser::for_', dict(start=r'self_\.consume\(TokenKind::Identifier,', end=r'(?s)\.map\(\|body\| Stmt::For\(.*?\)\)\)\)', sig='pub fn for_(&mut self, table: SymbolTable) -> ParseResult<Stmt>')),
    ('R18b', 'Parser::*', dict(pat=r'\bself_\b', rep='self', regex=True, min=1)),
    # R4: `X.and_then(|()| Y).map(|body| Z)` (closures over self) -> nested match, X / Y / Z copied unchanged
    ('R4', 'Parser::for_', dict(pat=r'(?s)(self\s*\.consume\(TokenKind::LeftBrace, "[^"]*"\))\s*\.and_then\(\|\(\)\| (self\.block\([^()]*\))\)\s*\.map\(\|body\| (.*)\)\s*\}\s*$',
      rep=r'match \1 { Ok(()) => match \2 { Ok(body) => Ok(\3), Err(verif_e) => Err(verif_e) }, Err(verif_e) => Err(verif_e) }\n  }\n', regex=True, count=1)),
  ],
  assumption_ids=['A-parser'],
)
