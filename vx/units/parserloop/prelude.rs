// ---- trusted model of the parser around the loop statements (A-parser) ---------------------------------------------------------------------------------
pub struct Diag { }
pub type ParseResult<T> = Result<T, Diag>;
#[derive(Clone, Copy, PartialEq, Eq, Structural)]
pub enum TokenKind { Identifier, In, LeftBrace, Other }
#[derive(Clone, Copy)]
pub struct Token { pub k: TokenKind, pub id: u64 }
impl Token { pub fn clone(&self) -> (r: Token) ensures r == *self { *self } }
#[derive(Clone, Copy)] pub enum BlockReturn { Can, Cannot }
pub struct Expr { pub id: u64 }
pub struct Block { pub id: u64 }
pub struct SymbolTable { pub id: u64 }
pub struct While { pub cond: Expr, pub body: Block }
impl While { pub fn new(cond: Expr, body: Block) -> (r: While) ensures r.cond == cond, r.body == body { While { cond, body } } }
pub struct For { pub item: Token, pub iter: Expr, pub symbols: SymbolTable, pub body: Block }
impl For { pub fn new(item: Token, iter: Expr, symbols: SymbolTable, body: Block) -> (r: For) ensures r.item == item, r.iter == iter, r.symbols == symbols, r.body == body { For { item, iter, symbols, body } } }
pub enum Stmt { While(Box<While>), For(Box<For>), Other }
pub enum Ev { Consume(TokenKind, Token), Expr(Expr), Block(Block) }
pub struct Parser {
  pub previous: Token,
  pub current: Token,
  /// ghost: what was parsed / demanded, in order (a consumed token is logged with the token itself)
  pub log: Ghost<Seq<Ev>>,
}
impl Parser {
  /// demand a token of this kind: it becomes `previous`
  #[verifier::external_body] pub fn consume(&mut self, kind: TokenKind, message: &str) -> (r: ParseResult<()>)
    ensures r is Ok ==> final(self).log@ == old(self).log@.push(Ev::Consume(kind, final(self).previous)) { unimplemented!() }
  #[verifier::external_body] pub fn expr(&mut self) -> (r: ParseResult<Expr>)
    ensures r matches Ok(e) ==> final(self).log@ == old(self).log@.push(Ev::Expr(e)) { unimplemented!() }
  #[verifier::external_body] pub fn block(&mut self, block_return: BlockReturn) -> (r: ParseResult<Block>)
    ensures r matches Ok(b) ==> final(self).log@ == old(self).log@.push(Ev::Block(b)) { unimplemented!() }
  #[verifier::external_body] pub fn node<T>(&self, t: T) -> (r: Box<T>) ensures *r == t { unimplemented!() }
}
