#!/bin/sh
# debug helper: verify one function of an already-built unit with expanded errors
# usage: vx/vf.sh <unit> <function> [extra verus args]
u=$1; f=$2; shift 2
cd /verif/.build/vx/$u && verus unit.rs --crate-type=bin --crate-name unit --verify-root --verify-function "$f" --expand-errors "$@" 2>&1 | grep -v "^$" | head -${VF_LINES:-80}
