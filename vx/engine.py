"""Verus engine: extract real items from /repo, apply listed rewrites, splice contracts, run Verus,
classify the outcome.

Failure classes (DESIGN.md §2.1):
  * ScanError / rewrite precondition / Verus front-end error / rlimit  -> UNDECIDED (exit 2)
  * a verification-condition failure                                   -> obligation failed
"""
from __future__ import annotations
import difflib, hashlib, importlib.util, json, os, re, subprocess, sys, time
from dataclasses import dataclass, field
from typing import Dict, List, Optional, Tuple

sys.path.insert(0, os.path.dirname(os.path.abspath(__file__)))
import rsitems
from rsitems import ScanError, RustFile, fn_anatomy, find_code

VX = os.path.dirname(os.path.abspath(__file__))
VERIF = os.path.dirname(VX)
REPO = os.environ.get('VERIF_REPO', '/repo')
BUILD = os.path.join(VERIF, '.build')


class Undecided(Exception):
  """anything that prevents a decision but is not evidence of a violation"""
  pass


# ------------------------------------------------------------------------------------------------
# contracts file

@dataclass
class FnContract:
  path: str
  tags: List[str] = field(default_factory=list)
  ret: Optional[str] = None
  spec: str = ''
  loops: Dict[int, str] = field(default_factory=dict)
  proofs: List[Tuple[str, str]] = field(default_factory=list)   # (anchor, text)
  attrs: List[str] = field(default_factory=list)
  sig_subst: List[Tuple[str, str]] = field(default_factory=list)
  effect: Optional[str] = None
  line: int = 0


def parse_contracts(path: str) -> Dict[str, FnContract]:
  out: Dict[str, FnContract] = {}
  if not os.path.exists(path): return out
  cur: Optional[FnContract] = None
  sect = None
  buf: List[str] = []

  def flush():
    nonlocal buf, sect
    if cur is None or sect is None:
      buf = []; return
    text = '\n'.join(buf).rstrip()
    kind, arg = sect
    if kind == 'spec': cur.spec = text
    elif kind == 'loop': cur.loops[int(arg) if arg.strip().isdigit() else arg.strip()] = text
    elif kind == 'proof': cur.proofs.append((arg, text))
    buf = []; sect = None

  for ln, raw in enumerate(open(path, encoding='utf-8').read().split('\n'), 1):
    line = raw.rstrip('\n')
    if line.startswith('@'):
      flush()
      parts = line[1:].split(None, 1)
      d = parts[0]
      arg = parts[1].strip() if len(parts) > 1 else ''
      if d == 'fn':
        cur = FnContract(path=arg, line=ln)
        if arg in out: raise Undecided('%s:%d duplicate contract for %s' % (path, ln, arg))
        out[arg] = cur
      elif d == 'end':
        cur = None
      elif cur is None:
        raise Undecided('%s:%d directive outside @fn' % (path, ln))
      elif d == 'tags': cur.tags = arg.split()
      elif d == 'ret': cur.ret = arg
      elif d == 'attr': cur.attrs.append(arg)
      elif d == 'effect': cur.effect = arg
      elif d == 'spec': sect = ('spec', None)
      elif d == 'loop': sect = ('loop', arg)
      elif d == 'proof': sect = ('proof', arg)
      else: raise Undecided('%s:%d unknown directive @%s' % (path, ln, d))
    elif line.startswith('//!'):
      continue
    else:
      buf.append(line)
  flush()
  return out


# ------------------------------------------------------------------------------------------------
# rewrites

@dataclass
class RewriteLog:
  rule: str
  item: str
  detail: str
  diff: str


def _diff(a: str, b: str, label: str) -> str:
  return ''.join(difflib.unified_diff(a.splitlines(True), b.splitlines(True), 'repo:' + label, 'unit:' + label, n=1))


def rw_subst(text: str, pattern: str, repl: str, count=None, regex: bool = False, min_count: int = 1) -> str:
  """substitution with a checked number of matches (count=None: at least min_count)"""
  if regex:
    new, n = re.subn(pattern, repl, text, flags=re.S)
  else:
    n = text.count(pattern)
    new = text.replace(pattern, repl)
  if count is not None and n != count:
    raise Undecided('rewrite precondition: expected %d match(es) of %r, found %d' % (count, pattern, n))
  if count is None and n < min_count:
    raise Undecided('rewrite precondition: expected >=%d match(es) of %r, found %d' % (min_count, pattern, n))
  return new


def rw_option_tail(text: str) -> str:
  """R4g: a function whose body is one tail expression `RECV.map(|x| E)` / `RECV.and_then(|x| E)` (Option receiver) becomes
  `match RECV { Some(x) => Some(E) | E, None => None }`.  RECV and E are copied unchanged; applied repeatedly to RECV is not
  attempted.  A non-Option receiver is a type error in Verus (UNDECIDED), never a silent change of meaning."""
  a = fn_anatomy(text)
  body = text[a.body_open + 1:a.body_close]
  toks = rsitems.lex(body)
  s = rsitems.sig(toks)
  depth = 0
  found = None
  for n, k in enumerate(s):
    t = toks[k]
    if t.kind == 'p' and t.text in '([{': depth += 1
    elif t.kind == 'p' and t.text in ')]}': depth -= 1
    elif t.kind == 'p' and t.text == ';' and depth == 0:
      raise Undecided('R4g: body of %s is not a single tail expression' % a.name)
    elif depth == 0 and t.kind == 'p' and t.text == '.' and n + 5 < len(s):
      t1, t2, t3, t4, t5 = (toks[s[n + i]] for i in range(1, 6))
      if t1.kind == 'id' and t1.text in ('map', 'and_then') and t2.text == '(' and t3.text == '|' and t4.kind == 'id' and t5.text == '|':
        found = (n, t1.text, t4.text)
  if found is None: raise Undecided('R4g: no tail Option combinator with a closure in %s' % a.name)
  n, comb, var = found
  kopen = s[n + 2]
  kclose = rsitems.match_close(toks, kopen)
  rest = ''.join(t.text for t in toks[kclose + 1:] if t.kind not in ('ws', 'lc', 'bc'))
  if rest: raise Undecided('R4g: combinator in %s is not in tail position' % a.name)
  recv = body[:toks[s[n]].start]
  clos = body[toks[s[n + 5]].end:toks[kclose].start]
  arm = ('Some(%s)' if comb == 'map' else '%s') % ('{' + clos + '}')
  new_body = ' match %s { Some(%s) => %s, None => None } ' % (recv.strip(), var, arm)
  return text[:a.body_open + 1] + new_body + text[a.body_close:]


def rw_trace_log(text: str) -> str:
  """R15: thread a ghost trace log through a `fn trace(&self)` body so that "which children were traced" becomes expressible:
       fn trace(&self)                                   -> fn trace(&self, verif_log: &mut TraceLog)
       X.trace() / X.mark()                              -> X.trace(verif_log) / X.mark(verif_log)
       for V in &RECV { V.trace()[;] }                   -> RECV.verif_trace_each(verif_log, true, false);
       RECV.iter().for_each(|P| BODY) / RECV.keys()...   -> RECV.verif_trace_each(verif_log, <first bound name traced in BODY>, <second ...>)
     BODY may only consist of `NAME.trace()` statements over the closure's own parameters (anything else: UNDECIDED); a parameter
     that BODY does not trace yields `false`, so a dropped call changes the verified term.  A bare `self` receiver becomes
     `self.verif_elems()` (the Deref to the underlying table, stated by the model)."""
  a = fn_anatomy(text)
  if re.sub(r'\s+', '', text[a.params_open:a.params_close + 1]) != '(&self)':
    raise Undecided('R15: %s is not `fn trace(&self)`' % a.name)
  head = text[:a.params_open] + '(&self, verif_log: &mut TraceLog)'
  pre = text[a.params_close + 1:a.body_open + 1]
  body = text[a.body_open + 1:a.body_close]
  # comments inside the body are blanked (a commented-out loop must not be rewritten or refused)
  body = ''.join((' ' * len(t.text) if t.kind in ('lc', 'bc') else t.text) for t in rsitems.lex(body))
  post = text[a.body_close:]
  LOGARG = 'verif_log'

  def recv_fix(r: str) -> str:
    r = re.sub(r'\s+', '', r)
    return 'self.verif_elems()' if r == 'self' else r

  # for loops
  def for_sub(m):
    if m.group(1) != m.group(3): raise Undecided('R15: for loop in %s does not trace its own variable' % a.name)
    return '%s.verif_trace_each(%s, true, false);' % (recv_fix(m.group(2)), LOGARG)
  body = re.sub(r'for\s+(\w+)\s+in\s+&((?:self)(?:\s*\.\s*\w+)*)\s*\{\s*(\w+)\s*\.\s*trace\(\)\s*;?\s*\}', for_sub, body)
  if re.search(r'\bfor\b', re.sub(r'for_each', '', body)): raise Undecided('R15: unsupported for loop in %s' % a.name)

  # for_each closures
  while True:
    m = re.search(r'((?:self)(?:\s*\.\s*\w+)*)\s*\.\s*(iter|keys|values)\(\)\s*\.\s*for_each\s*\(', body)
    if not m: break
    toks = rsitems.lex(body)
    kopen = next(k for k, t in enumerate(toks) if t.start == m.end() - 1)
    kclose = rsitems.match_close(toks, kopen)
    clos = body[toks[kopen].end:toks[kclose].start].strip()
    cm = re.match(r'^\|\s*(\(\s*(\w+)\s*,\s*(\w+)\s*\)|(\w+))\s*\|\s*(.*)$', clos, flags=re.S)
    if not cm: raise Undecided('R15: unsupported closure parameters in %s' % a.name)
    names = [cm.group(2), cm.group(3)] if cm.group(2) else [cm.group(4), None]
    cb = cm.group(5).strip()
    if cb.startswith('{') and cb.endswith('}'): cb = cb[1:-1]
    traced = set()
    for st in [x.strip() for x in cb.split(';') if x.strip()]:
      sm = re.match(r'^(\w+)\s*\.\s*trace\(\)$', st)
      if not sm or sm.group(1) not in [n for n in names if n]: raise Undecided('R15: closure body in %s is not a list of `param.trace()` calls: %r' % (a.name, st))
      traced.add(sm.group(1))
    f0 = 'true' if names[0] in traced else 'false'
    f1 = 'true' if (names[1] is not None and names[1] in traced) else 'false'
    if m.group(2) == 'values': f0, f1 = 'false', f0
    call = '%s.verif_trace_each(%s, %s, %s)' % (recv_fix(m.group(1)), LOGARG, f0, f1)
    body = body[:m.start()] + call + body[toks[kclose].end:]
  if 'for_each' in body: raise Undecided('R15: unsupported for_each in %s' % a.name)
  body = re.sub(r'\.\s*trace\(\)', '.trace(%s)' % LOGARG, body)
  body = re.sub(r'\.\s*mark\(\)', '.mark(%s)' % LOGARG, body)
  body = re.sub(r'\.\s*marked\(\)', '.marked(%s)' % LOGARG, body)
  return head + pre + body + post


def rw_drop_cfg_debug(text: str) -> str:
  """R3d: statements and blocks under `#[cfg(debug_assertions)]` are dropped (the verified text is the release build's; what the
  debug-only code asserts is NOT verified and is named in the unit's notes)"""
  while True:
    toks = rsitems.lex(text)
    s = rsitems.sig(toks)
    hit = None
    for n in range(len(s) - 6):
      seq = ''.join(toks[s[n + i]].text for i in range(7))
      if seq == '#[cfg(debug_assertions)]':
        hit = n; break
    if hit is None: return text
    start = toks[s[hit]].start
    nxt = s[hit + 7]
    if toks[nxt].text == '{':
      end = toks[rsitems.match_close(toks, nxt)].end
    else:
      depth, end = 0, None
      for k in s[hit + 7:]:
        t = toks[k]
        if t.kind == 'p' and t.text in '([{': depth += 1
        elif t.kind == 'p' and t.text in ')]}': depth -= 1
        elif t.kind == 'p' and t.text == ';' and depth == 0: end = t.end; break
      if end is None: raise Undecided('R3d: no statement end after #[cfg(debug_assertions)]')
    text = text[:start] + text[end:]


def _cfg_eval(toks, features):
  """evaluate a cfg predicate given as a list of significant tokens; returns True / False, or None when it mentions anything but
  feature = "..", not / any / all"""
  pos = [0]
  def peek(): return toks[pos[0]].text if pos[0] < len(toks) else None
  def eat(x=None):
    t = toks[pos[0]]; pos[0] += 1
    if x is not None and t.text != x: raise ScanError('cfg: expected %s, got %s' % (x, t.text))
    return t
  def pred():
    t = eat()
    if t.text == 'feature':
      eat('='); v = eat()
      if v.kind != 'str': raise ScanError('cfg: feature value')
      return v.text.strip('"') in features
    if t.text in ('not', 'any', 'all'):
      eat('('); vals = []
      while peek() != ')':
        vals.append(pred())
        if peek() == ',': eat(',')
      eat(')')
      if any(v is None for v in vals): return None
      if t.text == 'not': return not vals[0]
      return any(vals) if t.text == 'any' else all(vals)
    # debug_assertions, test, target_*: not decided here
    if peek() == '=': eat('='); eat()
    return None
  v = pred()
  if pos[0] != len(toks): raise ScanError('cfg: trailing tokens')
  return v


def rw_eval_cfg(text: str, features: List[str]) -> str:
  """R3c: `#[cfg(PRED)]` on a statement, block or expression statement, where PRED only mentions cargo features: evaluated under the stated
  feature set (the default build: none of the gc_log_* / gc_stress features). A false item is dropped with its attribute, a true item keeps its
  text and loses the attribute. Attributes whose predicate mentions anything else (debug_assertions, test) are left alone."""
  feats = set(features)
  scan_from = 0
  while True:
    toks = rsitems.lex(text)
    s = rsitems.sig(toks)
    hit = None
    for n in range(len(s) - 3):
      if toks[s[n]].start < scan_from: continue
      if toks[s[n]].text == '#' and toks[s[n + 1]].text == '[' and toks[s[n + 2]].text == 'cfg' and toks[s[n + 3]].text == '(':
        hit = n; break
    if hit is None: return text
    kopen = s[hit + 3]
    kclose = rsitems.match_close(toks, kopen)
    inner = [toks[k] for k in s if kopen < k < kclose]
    val = _cfg_eval(inner, feats)
    # the closing ']' of the attribute
    kend = next(k for k in s if k > kclose)
    if toks[kend].text != ']': raise Undecided('R3c: malformed cfg attribute')
    attr_start, attr_end = toks[s[hit]].start, toks[kend].end
    if val is None:
      scan_from = attr_end; continue
    if val:
      text = text[:attr_start] + text[attr_end:]
      scan_from = attr_start; continue
    # false: drop the attribute and the item it is attached to
    after = [k for k in s if k > kend]
    if not after: raise Undecided('R3c: cfg attribute without an item')
    first = after[0]
    if toks[first].text == '{':
      end = toks[rsitems.match_close(toks, first)].end
    else:
      depth, end = 0, None
      for k in after:
        t = toks[k]
        if t.kind == 'p' and t.text in '([{': depth += 1
        elif t.kind == 'p' and t.text in ')]}':
          depth -= 1
          if depth < 0: end = t.start; break           # a tail expression: runs to the end of the enclosing block
          if depth == 0 and t.text == '}' and toks[first].text in ('if', 'match', 'while', 'for', 'loop', 'unsafe'): end = t.end; break
        elif t.kind == 'p' and t.text == ';' and depth == 0: end = t.end; break
      if end is None: raise Undecided('R3c: no end of the item after a cfg attribute')
    text = text[:attr_start] + text[end:]
    scan_from = attr_start


def rw_range_map_collect(text: str) -> str:
  """R13m: `let NAME = (0..N).map(|_| { BODY }).collect::<Vec<T>>();` -> the loop the iterator chain runs:
       let verif_n = N; let mut verif_out: Vec<T> = Vec::new(); let mut verif_k = 0;
       while verif_k < verif_n { let verif_e: T = { BODY }; verif_out.push(verif_e); verif_k += 1; }
       let NAME = verif_out;
     N and BODY are copied unchanged (map over a range is lazy and in order; collect pushes in order)."""
  m = re.search(r'let\s+(\w+)\s*=\s*\(0\.\.', text)
  if not m: raise Undecided('R13m: no `let X = (0..N).map(..).collect()`')
  toks = rsitems.lex(text)
  kopen = next(k for k, t in enumerate(toks) if t.start == m.end() - 4 and t.text == '(')
  kclose = rsitems.match_close(toks, kopen)
  n_expr = text[toks[kopen].end:toks[kclose].start].strip()
  if not n_expr.startswith('0..'): raise Undecided('R13m: range does not start at 0')
  n_expr = n_expr[3:].strip()
  rest = text[toks[kclose].end:]
  mm = re.match(r'\s*\.\s*map\s*\(\s*\|\s*_\s*\|\s*\{', rest)
  if not mm: raise Undecided('R13m: expected `.map(|_| {`')
  bopen_off = toks[kclose].end + mm.end() - 1
  kb = next(k for k, t in enumerate(toks) if t.start == bopen_off)
  kbc = rsitems.match_close(toks, kb)
  body = text[toks[kb].end:toks[kbc].start]
  after = text[toks[kbc].end:]
  mc = re.match(r'\s*\)\s*\.\s*collect::<Vec<(.*?)>>\(\)\s*;', after, flags=re.S)
  if not mc: raise Undecided('R13m: expected `).collect::<Vec<T>>();`')
  ty = mc.group(1).strip()
  name = m.group(1)
  new = ('let verif_n = %s;\n    let mut verif_out: Vec<%s> = Vec::new();\n    let mut verif_k = 0;\n    while verif_k < verif_n {\n      let verif_e: %s = {%s};\n      verif_out.push(verif_e);\n      verif_k += 1;\n    }\n    let %s = verif_out;'
         % (n_expr, ty, ty, body, name))
  return text[:m.start()] + new + after[mc.end():]


def rw_thread_heap(text: str, methods: List[str], name: str = 'verif_heap', ty: str = 'ListHeap') -> str:
  """R16: the list heap is reached through raw pointers; in the unit it is explicit ghost-bearing state threaded through every call:
       fn f(&self / &mut self, ARGS)          -> fn f(&self / &mut self, verif_heap: &mut ListHeap, ARGS)
       RECV.m(ARGS) for m in `methods`        -> RECV.m(verif_heap, ARGS)          (RECV = any expression; the call text is otherwise unchanged)
     Nothing else is touched."""
  a = fn_anatomy(text)
  params = text[a.params_open + 1:a.params_close]
  m = re.match(r'^(\s*&\s*(?:mut\s+)?self\s*)(,?)(.*)$', params, flags=re.S)
  if not m:
    m2 = re.match(r'^(\s*)(.*)$', params, flags=re.S)
    new_params = '%s: &mut %s' % (name, ty) + (', ' + params if params.strip() else '')
  else:
    rest = m.group(3)
    new_params = m.group(1) + ', %s: &mut %s' % (name, ty) + (',' + rest if rest.strip() else '')
  head = text[:a.params_open + 1] + new_params + text[a.params_close:a.body_open + 1]
  body = text[a.body_open + 1:a.body_close]
  alt = '|'.join(re.escape(x) for x in sorted(methods, key=len, reverse=True))
  def sub(mm):
    return '.%s(%s%s' % (mm.group(1), name, '' if mm.group(2) == ')' else ', ') + ('' if mm.group(2) != ')' else ')')
  body = re.sub(r'\.\s*(%s)\s*\(\s*(\)|(?=[^\s)]))' % alt, sub, body)
  return head + body + text[a.body_close:]


def rw_inline_scope(text: str) -> str:
  """R17: `LHS = RECV.scope(|self_| BODY);` is inlined per the definition of Resolver::scope (begin_scope(); cb(self); end_scope()):
       RECV.begin_scope(); BODY' ; LHS = RECV.end_scope();        with every identifier `self_` of the whole function replaced by `self`
     (the closure parameter is the receiver itself).  BODY is a block or a single expression; innermost closures are inlined first."""
  while True:
    ms = list(re.finditer(r'(\b[\w.]+(?:\.\w+)*)\s*=\s*(self_?)\s*\.\s*scope\s*\(\s*\|\s*self_\s*\|', text))
    if not ms: break
    m = ms[-1]                      # last = innermost or independent: its body contains no further `= ..scope(` to the right of it
    toks = rsitems.lex(text)
    # the '(' of scope(
    kopen = max(k for k, t in enumerate(toks) if t.text == '(' and t.start < m.end() and t.start >= m.start())
    kclose = rsitems.match_close(toks, kopen)
    inner = text[m.end():toks[kclose].start].strip()
    if inner.startswith('{') and inner.endswith('}'): inner = inner[1:-1]
    else: inner = inner + ';'
    after = text[toks[kclose].end:]
    if not after.lstrip().startswith(';'): raise Undecided('R17: scope(..) is not a whole assignment statement')
    after = after.lstrip()[1:]
    recv = m.group(2)
    text = text[:m.start()] + '%s.begin_scope();\n%s\n%s = %s.end_scope();' % (recv, inner, m.group(1), recv) + after
  # statement form of Compiler::scope (begin_scope(table); cb(self); end_scope(end_line)): `RECV.scope(A, B, |self_| BODY);`
  while True:
    ms = list(re.finditer(r'(self_*)\s*\.\s*scope\s*\(', text))
    ms = [m for m in ms if re.match(r'[^|]*\|\s*self_+\s*\|', text[m.end():], flags=re.S)]
    if not ms: break
    m = ms[-1]
    toks = rsitems.lex(text)
    kopen = next(k for k, t in enumerate(toks) if t.start == m.end() - 1)
    kclose = rsitems.match_close(toks, kopen)
    args = text[m.end():toks[kclose].start]
    am = re.match(r'^(.*?),\s*(.*?),\s*\|\s*self_+\s*\|(.*)$', args, flags=re.S)
    if not am: raise Undecided('R17: unsupported scope(..) call')
    inner = am.group(3).strip()
    if inner.startswith('{') and inner.endswith('}'): inner = inner[1:-1]
    else: inner = inner + ';'
    after = text[toks[kclose].end:]
    if not after.lstrip().startswith(';'): raise Undecided('R17: scope(..) is not a statement')
    after = after.lstrip()[1:]
    recv = m.group(1)
    text = text[:m.start()] + '%s.begin_scope(%s);\n%s\n%s.end_scope(%s);' % (recv, am.group(2).strip(), inner, recv, am.group(1).strip()) + after
  return ''.join(('self' if (t.kind == 'id' and re.fullmatch(r'self_+', t.text)) else t.text) for t in rsitems.lex(text))


def rw_for_range(text: str) -> str:
  """R13r: every `for _ in A..B { BODY }` (bounds evaluated once, as Rust does) -> `let mut verif_rK = A; let verif_nK = B; while verif_rK < verif_nK { BODY verif_rK += 1; }`"""
  k = 0
  while True:
    m = re.search(r'for\s+_\s+in\s+', text)
    if not m: return text
    toks = rsitems.lex(text)
    # the loop body's '{': first '{' at depth 0 after the header start
    depth, kb = 0, None
    for idx, t in enumerate(toks):
      if t.start < m.end(): continue
      if t.kind == 'p' and t.text in '([': depth += 1
      elif t.kind == 'p' and t.text in ')]': depth -= 1
      elif t.kind == 'p' and t.text == '{' and depth == 0: kb = idx; break
    if kb is None: raise Undecided('R13r: no loop body')
    header = text[m.end():toks[kb].start].strip()
    hm = re.match(r'^(.*?)\.\.(.*)$', header, flags=re.S)
    if not hm: raise Undecided('R13r: not a range loop: %r' % header)
    lo, hi = (hm.group(1).strip() or '0'), hm.group(2).strip()
    kc = rsitems.match_close(toks, kb)
    body = text[toks[kb].end:toks[kc].start]
    if any(t.kind == 'id' and t.text in ('continue', 'break') for t in rsitems.lex(body)): raise Undecided('R13r: loop body contains continue / break')
    b = body.rstrip()
    if b and not b.endswith(';') and not b.endswith('}'): b += ';'
    new = 'let mut verif_r%d = %s; let verif_n%d = %s;\n    while verif_r%d < verif_n%d {%s\n      verif_r%d += 1;\n    }' % (k, lo, k, hi, k, k, b, k)
    text = text[:m.start()] + new + text[toks[kc].end:]
    k += 1


def rw_next_if_pred(text: str, fns: List[str], vars: List[str] = ()) -> str:
  """R4n: `self.next_if(|c| PRED)` -> `self.verif_next_if(Ghost(|c: char| PRED'))` where PRED' is PRED with `*c` -> `c` and each call of a listed
  pure character-class function `f(` -> `f_spec(`; anything else in PRED (another call, a block, a captured mutable) is refused."""
  while True:
    m = re.search(r'self\s*\.\s*next_if\s*\(\s*\|\s*c\s*\|', text)
    if not m: return text
    toks = rsitems.lex(text)
    ko = None
    for idx, t in enumerate(toks):
      if t.start >= m.start() and t.kind == 'p' and t.text == '(': ko = idx; break
    kc = rsitems.match_close(toks, ko)
    body = [t for t in toks[ko + 1:kc] if t.start >= m.end()]
    sig = [t for t in body if t.kind not in ('ws', 'lc', 'bc')]
    out = []
    for n, t in enumerate(body):
      if t.kind in ('ws', 'lc', 'bc'): out.append(' '); continue
      k = sig.index(t)
      nxt = sig[k + 1] if k + 1 < len(sig) else None
      prv = sig[k - 1] if k > 0 else None
      if t.kind == 'p' and t.text == '*' and nxt is not None and nxt.kind == 'id' and nxt.text == 'c' and (prv is None or prv.kind == 'p'):
        continue   # deref of the closure parameter
      if t.kind == 'id' and nxt is not None and nxt.text == '(':
        if t.text not in fns: raise Undecided('R4n: call of %s in a next_if predicate' % t.text)
        out.append(t.text + '_spec'); continue
      if t.kind == 'id' and t.text != 'c' and t.text not in vars: raise Undecided('R4n: predicate mentions %s' % t.text)
      if t.kind == 'p' and t.text in '{};.': raise Undecided('R4n: predicate is not a plain expression')
      out.append(t.text)
    pred = re.sub(r'\s+', ' ', ''.join(out)).strip()
    text = text[:m.start()] + 'self.verif_next_if(Ghost(|c: char| %s))' % pred + text[toks[kc].end:]


def rw_for_each_index(text: str) -> str:
  """R13f: `RECV.iter().for_each(|X| { BODY });` (RECV a field path) -> `let mut verif_f_F: usize = 0; while verif_f_F < RECV.len() { let X = &RECV[verif_f_F]; BODY verif_f_F += 1; }` (F = last field of RECV)
  (iter() over a Vec visits index 0, 1, .. in order; the closure body is copied unchanged; refused when it contains return / break / continue)"""
  k = 0
  while True:
    m = re.search(r'((?:\w+)(?:\s*\.\s*\w+)+)\s*\.\s*iter\(\)\s*\.\s*for_each\(\s*\|\s*(\w+)\s*\|\s*\{', text)
    if not m: return text
    toks = rsitems.lex(text)
    kb = next(i for i, t in enumerate(toks) if t.end == m.end() and t.text == '{')
    kc = rsitems.match_close(toks, kb)
    body = text[toks[kb].end:toks[kc].start]
    if any(t.kind == 'id' and t.text in ('return', 'break', 'continue') for t in rsitems.lex(body)): raise Undecided('R13f: closure body leaves the loop')
    rest = text[toks[kc].end:]
    mm = re.match(r'\s*\)\s*;', rest)
    if not mm: raise Undecided('R13f: for_each is not a whole statement')
    recv = re.sub(r'\s+', '', m.group(1))
    b = body.rstrip()
    if b and not b.endswith(';') and not b.endswith('}'): b += ';'
    v = 'verif_f_' + recv.split('.')[-1]
    new = 'let mut %s: usize = 0;\n      while %s < %s.len() {\n        let %s = &%s[%s];%s\n        %s += 1;\n      }' % (v, v, recv, m.group(2), recv, v, b, v)
    text = text[:m.start()] + new + rest[mm.end():]
    k += 1


def rw_project_literal(text: str, name: str, keep: List[str], extra: str = '') -> str:
  """R10l: the one struct literal `NAME { f: e, g, .. }` of a constructor is projected onto the fields the model keeps (same rule as R10 for the
  struct itself): `field: expr,` / shorthand `field,` entries of other fields are dropped, and so is every `let field[: T] = ...;` statement that
  only feeds a dropped shorthand entry.  `extra` (ghost fields of the model) is appended.  Kept entries are copied unchanged."""
  toks = rsitems.lex(text)
  s = rsitems.sig(toks)
  hit = None
  for n in range(len(s) - 1):
    if toks[s[n]].kind == 'id' and toks[s[n]].text == name and toks[s[n + 1]].text == '{' and (n == 0 or toks[s[n - 1]].text not in ('struct', 'impl', 'for', '>')):
      hit = n
  if hit is None: raise Undecided('R10l: no `%s { .. }` literal' % name)
  ko = s[hit + 1]; kc = rsitems.match_close(toks, ko)
  # split the entries at depth-0 commas
  entries, depth, start = [], 0, toks[ko].end
  for k in range(ko + 1, kc):
    t = toks[k]
    if t.kind == 'p' and t.text in '([{': depth += 1
    elif t.kind == 'p' and t.text in ')]}': depth -= 1
    elif t.kind == 'p' and t.text == ',' and depth == 0:
      entries.append(text[start:t.start]); start = t.end
  if text[start:toks[kc].start].strip(): entries.append(text[start:toks[kc].start])
  kept, dropped_short = [], []
  for e in entries:
    m = re.match(r'^\s*(\w+)\s*(:)?', e)
    if not m: raise Undecided('R10l: cannot read literal entry %r' % e[:40])
    if m.group(1) in keep: kept.append(e.strip())
    elif not m.group(2): dropped_short.append(m.group(1))
  lit = '%s {\n      %s,%s\n    }' % (name, ',\n      '.join(kept), ('\n      ' + extra) if extra else '')
  out = text[:toks[s[hit]].start] + lit + text[toks[kc].end:]
  for d in dropped_short:
    out, n = re.subn(r'\n[ \t]*let\s+%s\b[^;]*;' % re.escape(d), '', out)
    if n == 0: raise Undecided('R10l: no `let %s` for a dropped shorthand field' % d)
  return out


def rw_rev_take_zip_map(text: str) -> str:
  """R13c: the tail expression  `A.iter().rev().take(N).zip(B.iter()).map(|(X, Y)| { BODY }).collect::<Vec<T>>()`  ->  the loop the chain runs:
       let verif_n = N; let mut verif_out: Vec<T> = Vec::new(); let mut verif_k: usize = 0;
       while verif_k < verif_n && verif_k < A.len() && verif_k < B.len() { let X = &A[A.len() - 1 - verif_k]; let Y = &B[verif_k];
         let verif_e: T = { BODY }; verif_out.push(verif_e); verif_k += 1; }
       verif_out
     (rev+take+zip stop at the shortest of the three; map is lazy and in order; collect pushes in order). A, B are field paths; BODY is copied."""
  m = re.search(r'((?:self|this)(?:\s*\.\s*\w+)+)\s*\.\s*iter\(\)\s*\.\s*rev\(\)\s*\.\s*take\(\s*(\w+)\s*\)\s*\.\s*zip\(\s*((?:self|this)(?:\s*\.\s*\w+)+)\s*\.\s*iter\(\)\s*\)\s*\.\s*map\(\s*\|\s*\(\s*(\w+)\s*,\s*(\w+)\s*\)\s*\|\s*\{', text)
  if not m: raise Undecided('R13c: no rev().take().zip().map() chain')
  toks = rsitems.lex(text)
  kb = next(i for i, t in enumerate(toks) if t.end == m.end() and t.text == '{')
  kc = rsitems.match_close(toks, kb)
  body = text[toks[kb].end:toks[kc].start]
  rest = text[toks[kc].end:]
  mm = re.match(r'\s*\)\s*\.\s*collect::<Vec<(\w+)>>\(\)', rest)
  if not mm: raise Undecided('R13c: the chain does not end in collect::<Vec<T>>()')
  a = re.sub(r'\s+', '', m.group(1)); b = re.sub(r'\s+', '', m.group(3)); ty = mm.group(1)
  new = ('let verif_n = %s;\n    let mut verif_out: Vec<%s> = Vec::new();\n    let mut verif_k: usize = 0;\n'
         '    while verif_k < verif_n && verif_k < %s.len() && verif_k < %s.len() {\n      let %s = &%s[%s.len() - 1 - verif_k];\n      let %s = &%s[verif_k];\n'
         '      let verif_e: %s = {%s};\n      verif_out.push(verif_e);\n      verif_k += 1;\n    }\n    verif_out') % (m.group(2), ty, a, b, m.group(4), a, a, m.group(5), b, ty, body)
  return text[:m.start()] + new + rest[mm.end():]


def rw_extract_match(text: str, scrutinee: str, sig: str, var: str) -> str:
  """R18: a function that cannot be extracted whole but contains ONE match expression that matters: the function's text is replaced by
       SIG { match VAR { ARMS } }
  where ARMS is the text of the arms of `match SCRUTINEE {` (SCRUTINEE a regex) copied unchanged. Everything else of the function is dropped
  (and named in the unit's notes): the unit decides what the match does with the scrutinee's value, nothing about how that value is produced."""
  m = re.search(r'match\s+' + scrutinee + r'\s*\{', text)
  if not m: raise Undecided('R18: no `match %s {`' % scrutinee)
  if re.search(r'match\s+' + scrutinee + r'\s*\{', text[m.end():]): raise Undecided('R18: more than one such match')
  toks = rsitems.lex(text)
  kb = next(i for i, t in enumerate(toks) if t.end == m.end() and t.text == '{')
  kc = rsitems.match_close(toks, kb)
  arms = text[toks[kb].end:toks[kc].start]
  return '%s {\n    match %s {%s}\n  }\n' % (sig, var, arms)


def rw_extract_block(text: str, start: str, end: str, sig: str) -> str:
  """R18b: like R18 for a run of statements: the function's text is replaced by  SIG { STATEMENTS }  where STATEMENTS is the text from the first
  match of regex `start` up to and including the first match of regex `end` after it, copied unchanged; everything else of the function is dropped."""
  m = re.search(start, text)
  if not m: raise Undecided('R18b: start of the block not found')
  e = re.search(end, text[m.start():])
  if not e: raise Undecided('R18b: end of the block not found')
  block = text[m.start():m.start() + e.end()]
  return '%s {\n      %s\n  }\n' % (sig, block)


def rw_mut_self(text: str) -> str:
  """R1: `fn f(mut self, ...) { B }` -> `fn f(self, ...) { let mut this = self; B[self:=this] }`"""
  a = fn_anatomy(text)
  params = text[a.params_open:a.params_close]
  if not re.match(r'\(\s*mut\s+self\b', params):
    raise Undecided('R1: fn %s has no `mut self` receiver' % a.name)
  body = text[a.body_open + 1:a.body_close]
  toks = rsitems.lex(body)
  out = []
  for t in toks:
    out.append('this' if (t.kind == 'id' and t.text == 'self') else t.text)
  new_body = ' let mut this = self;' + ''.join(out)
  new_params = re.sub(r'\(\s*mut\s+self\b', '(self', params, count=1)
  return text[:a.params_open] + new_params + text[a.params_close:a.body_open + 1] + new_body + text[a.body_close:]


def rw_slice_match(text: str) -> str:
  """R2: desugar `match E { [P1, P2, ..] => B, ... _ => D }` (sole statement of a while body) into an
  if-let chain over `(&s[0], &s[1])` tuples with `continue`.  Arm order, patterns, bindings and arm
  bodies are copied unchanged."""
  a = fn_anatomy(text)
  if len(a.loops) < 1: raise Undecided('R2: no loop')
  kw, kwo, lbo, lbc = a.loops[0]
  body = text[lbo + 1:lbc]
  toks = rsitems.lex(body)
  s = rsitems.sig(toks)
  if not (toks[s[0]].kind == 'id' and toks[s[0]].text == 'match'):
    raise Undecided('R2: loop body does not start with match')
  # scrutinee up to '{'
  k = 1
  while not (toks[s[k]].kind == 'p' and toks[s[k]].text == '{'):
    if toks[s[k]].kind == 'p' and toks[s[k]].text in '([':
      close = rsitems.match_close(toks, s[k])
      while s[k] < close: k += 1
    k += 1
  mo_k = s[k]
  mc_k = rsitems.match_close(toks, mo_k)
  rest = [x for x in s if x > mc_k]
  if rest: raise Undecided('R2: match is not the sole statement of the loop body')
  scrut = body[toks[s[1]].start:toks[mo_k].start].strip()
  # arms
  arms = []
  k = mo_k + 1
  while k < mc_k:
    while k < mc_k and toks[k].kind in ('ws', 'lc', 'bc'): k += 1
    if k >= mc_k: break
    pat_start = toks[k].start
    # pattern until `=>` at depth 0
    while True:
      t = toks[k]
      if t.kind == 'p' and t.text in '([{':
        k = rsitems.match_close(toks, k) + 1; continue
      if t.kind == 'p' and t.text == '=' and toks[k + 1].kind == 'p' and toks[k + 1].text == '>':
        break
      k += 1
    pat = body[pat_start:toks[k].start].strip()
    k += 2
    while toks[k].kind in ('ws', 'lc', 'bc'): k += 1
    if toks[k].kind == 'p' and toks[k].text == '{':
      c = rsitems.match_close(toks, k)
      arm_body = body[toks[k].start:toks[c].end]
      k = c + 1
    else:
      b0 = toks[k].start
      while True:
        t = toks[k]
        if t.kind == 'p' and t.text in '([{':
          k = rsitems.match_close(toks, k) + 1; continue
        if (t.kind == 'p' and t.text == ',') or k >= mc_k: break
        k += 1
      arm_body = '{ ' + body[b0:toks[k].start].strip() + ' }'
    while k < mc_k and (toks[k].kind in ('ws', 'lc', 'bc') or (toks[k].kind == 'p' and toks[k].text == ',')): k += 1
    arms.append((pat, arm_body))
  if not arms or arms[-1][0] != '_': raise Undecided('R2: last arm is not `_`')
  out = ['\n    let verif_s = %s;\n' % scrut]
  for pat, arm_body in arms[:-1]:
    m = re.match(r'^\[(.*),\s*\.\.\s*\]$', pat, flags=re.S)
    if not m: raise Undecided('R2: arm pattern is not a `[.., ..]` prefix slice pattern: %s' % pat[:40])
    inner = m.group(1)
    # split inner at depth-0 commas
    ptoks = rsitems.lex(inner)
    parts, depth, last = [], 0, 0
    for t in ptoks:
      if t.kind == 'p' and t.text in '([{': depth += 1
      elif t.kind == 'p' and t.text in ')]}': depth -= 1
      elif t.kind == 'p' and t.text == ',' and depth == 0:
        parts.append(inner[last:t.start].strip()); last = t.end
    if inner[last:].strip(): parts.append(inner[last:].strip())
    n = len(parts)
    if n == 1:
      out.append('    if verif_s.len() >= 1 { if let %s = &verif_s[0] %s }\n' % (parts[0], _with_continue(arm_body)))
    else:
      tup_p = '(' + ', '.join(parts) + ')'
      tup_e = '(' + ', '.join('&verif_s[%d]' % i for i in range(n)) + ')'
      out.append('    if verif_s.len() >= %d { if let %s = %s %s }\n' % (n, tup_p, tup_e, _with_continue(arm_body)))
  out.append('    ' + arms[-1][1] + '\n  ')
  return text[:lbo + 1] + ''.join(out) + text[lbc:]


def _with_continue(arm_body: str) -> str:
  assert arm_body.startswith('{') and arm_body.endswith('}')
  inner = arm_body[1:-1].rstrip()
  if inner and not inner.endswith(';') and not inner.endswith('}'):
    inner += ';'
  return '{' + inner + ' continue; }'


def rw_derive(text: str, drop: List[str], add: List[str]) -> str:
  """R11: edit the derive list of an extracted type: drop derives that have no meaning for verification
  (Debug, VariantCount, ...) and add Structural where the derived PartialEq must have its meaning in specs"""
  m = re.search(r'#\[derive\(([^)]*)\)\]', text)
  if not m:
    if add: return '#[derive(%s)]\n' % ', '.join(add) + text
    return text
  ds = [d.strip() for d in m.group(1).split(',') if d.strip()]
  ds = [d for d in ds if d not in drop and d.split('::')[-1] not in drop]
  for a in add:
    if a not in ds: ds.append(a)
  return text[:m.start()] + ('#[derive(%s)]' % ', '.join(ds) if ds else '') + text[m.end():]


def rw_for_slice(text: str, nth: int, mutable: bool) -> str:
  """R13: `for PAT in NAME { BODY }` over a slice parameter NAME (`&[T]` / `&mut [T]`) becomes
       let mut verif_i: usize = 0;
       while verif_i < NAME.len() { let PAT = &[mut] NAME[verif_i]; BODY verif_i += 1; }
  Refuses unless NAME is a parameter whose type is a slice reference and BODY contains no `continue`."""
  a = fn_anatomy(text)
  fors = [l for l in a.loops if l[0] == 'for']
  if nth >= len(fors): raise Undecided('R13: fn %s has no for-loop #%d' % (a.name, nth))
  kw, kwo, lbo, lbc = fors[nth]
  head = text[kwo:lbo]
  m = re.match(r'^for\s+([A-Za-z_][A-Za-z0-9_]*)\s+in\s+([A-Za-z_][A-Za-z0-9_]*)\s*$', head)
  if not m: raise Undecided('R13: loop header is not `for IDENT in IDENT`: %r' % head)
  pat, name = m.group(1), m.group(2)
  params = text[a.params_open:a.params_close + 1]
  pm = re.search(r'\b%s\s*:\s*&\s*(mut\s+)?\[' % re.escape(name), params)
  if not pm:
    # a local explicitly typed as a slice reference (`let NAME: &[T] = ...;`) is as good as a parameter
    pm = re.search(r'\blet\s+%s\s*:\s*&\s*(mut\s+)?\[' % re.escape(name), text[a.body_open:kwo])
  if not pm: raise Undecided('R13: `%s` is not a slice-reference parameter or typed local' % name)
  if bool(pm.group(1)) != mutable: raise Undecided('R13: mutability of `%s` does not match the rule' % name)
  body = text[lbo + 1:lbc]
  if any(t.kind == 'id' and t.text == 'continue' for t in rsitems.lex(body)):
    raise Undecided('R13: loop body contains `continue`')
  new_head = 'let mut verif_i: usize = 0;\n  while verif_i < %s.len() ' % name
  b = body.rstrip()
  if b and not b.endswith(';') and not b.endswith('}'): b += ';'    # unit-typed tail expression of the loop body
  new_body = '{\n    let %s = &%s%s[verif_i];' % (pat, 'mut ' if mutable else '', name) + b + '\n    verif_i += 1;\n  }'
  return text[:kwo] + new_head + new_body + text[lbc + 1:]


def rw_for_zip(text: str, nth: int) -> str:
  """R13z: `for (A, B) in X.iter().zip(Y) { BODY }` over two slice parameters becomes an index loop over the
  shorter of the two (which is what zip does):
       let mut verif_i: usize = 0;
       while verif_i < X.len() && verif_i < Y.len() { let A = &X[verif_i]; let B = &Y[verif_i]; BODY verif_i += 1; }"""
  a = fn_anatomy(text)
  fors = [l for l in a.loops if l[0] == 'for']
  if nth >= len(fors): raise Undecided('R13z: fn %s has no for-loop #%d' % (a.name, nth))
  kw, kwo, lbo, lbc = fors[nth]
  head = text[kwo:lbo]
  m = re.match(r'^for\s+\(\s*(\w+)\s*,\s*(\w+)\s*\)\s+in\s+(\w+)\s*\.\s*iter\(\)\s*\.\s*zip\(\s*(\w+)\s*\)\s*$', head)
  if not m: raise Undecided('R13z: loop header is not `for (A, B) in X.iter().zip(Y)`: %r' % head)
  pa, pb, x, y = m.groups()
  params = text[a.params_open:a.params_close + 1]
  for nm in (x, y):
    if not re.search(r'\b%s\s*:\s*&\s*\[' % re.escape(nm), params):
      raise Undecided('R13z: `%s` is not a shared slice parameter' % nm)
  body = text[lbo + 1:lbc]
  if any(t.kind == 'id' and t.text == 'continue' for t in rsitems.lex(body)):
    raise Undecided('R13z: loop body contains `continue`')
  b = body.rstrip()
  if b and not b.endswith(';') and not b.endswith('}'): b += ';'
  new = ('let mut verif_i: usize = 0;\n    while verif_i < %s.len() && verif_i < %s.len() {\n      let %s = &%s[verif_i];\n      let %s = &%s[verif_i];'
         % (x, y, pa, x, pb, y)) + b + '\n      verif_i += 1;\n    }'
  return text[:kwo] + new + text[lbc + 1:]


_FOPS = {'+': 'verif_fadd', '-': 'verif_fsub', '*': 'verif_fmul', '/': 'verif_fdiv', '<': 'verif_flt', '<=': 'verif_fle', '>': 'verif_fgt', '>=': 'verif_fge'}


def rw_named_ops(text: str) -> str:
  """R14: operators that Verus gives no meaning in exec code are routed through named stubs, operands and their
  order kept exactly as written (so a swapped operand or a changed operator changes the verified term):
     A.to_num() OP B.to_num()                         -> verif_f<op>(A.to_num(), B.to_num())
     -A.to_num()                                      -> verif_fneg(A.to_num())
     (*A.to_obj().to_str()).cmp(&B.to_obj().to_str()) == Ordering::Less|Greater -> verif_str_less|greater(A.., B..)
     A == B / A != B on the identifiers left/right (Value's PartialEq)          -> verif_val_eq / verif_val_ne(A, B)"""
  t = re.sub(r'(\w+)\.to_num\(\)\s*(<=|>=|[-+*/<>])\s*(\w+)\.to_num\(\)',
             lambda m: '%s(%s.to_num(), %s.to_num())' % (_FOPS[m.group(2)], m.group(1), m.group(3)), text)
  t = re.sub(r'(?<![\w)])-(\w+)\.to_num\(\)', lambda m: 'verif_fneg(%s.to_num())' % m.group(1), t)
  t = re.sub(r'\(\*(\w+)\.to_obj\(\)\.to_str\(\)\)\s*\.cmp\(&(\w+)\.to_obj\(\)\.to_str\(\)\)\s*==\s*Ordering::(Less|Greater)',
             lambda m: 'verif_str_%s(%s.to_obj().to_str(), %s.to_obj().to_str())' % (m.group(3).lower(), m.group(1), m.group(2)), t)
  t = re.sub(r'\b(left|right)\s*(==|!=)\s*(left|right)\b',
             lambda m: '%s(%s, %s)' % ('verif_val_eq' if m.group(2) == '==' else 'verif_val_ne', m.group(1), m.group(3)), t)
  return t


def rw_format(text: str) -> str:
  """R8: `&format!(...)` / `format!(...)` -> `verif_fmt()` (message text is not verified)"""
  out, i = [], 0
  while True:
    m = re.search(r'&?\s*format!\s*\(', text[i:])
    if not m: out.append(text[i:]); break
    out.append(text[i:i + m.start()])
    j = i + m.end()
    depth = 1
    toks = [t for t in rsitems.lex(text[j:])]
    end = None
    for t in toks:
      if t.kind == 'p' and t.text in '([{': depth += 1
      elif t.kind == 'p' and t.text in ')]}':
        depth -= 1
        if depth == 0: end = j + t.end; break
    if end is None: raise Undecided('R8: unbalanced format!')
    out.append('verif_fmt()')
    i = end
  return ''.join(out)


def rw_iter_loops(text: str) -> str:
  """R13i: the three slice-iteration loop headers of the native signature gate become index loops (what the iterator
  adapters do on slices); refuses bodies with `continue`:
     for (A, B) in X.iter().zip(Y.iter()) {..}            -> i in 0..min(X.len(), Y.len()):  A = &X[i]; B = &Y[i]
     for (A, B) in X.iter().zip(Y.iter()).take(N) {..}    -> additionally i < N
     for A in X[N..].iter() {..}                          -> i in N..X.len():  A = &X[i]            (N <= X.len() is an obligation)"""
  out = text
  k = 0
  while True:
    a = fn_anatomy(out)
    fors = [l for l in a.loops if l[0] == 'for']
    if not fors: return out
    kw, kwo, lbo, lbc = fors[0]
    head = re.sub(r'\s+', ' ', out[kwo:lbo]).strip()
    body = out[lbo + 1:lbc]
    if any(t.kind == 'id' and t.text == 'continue' for t in rsitems.lex(body)):
      raise Undecided('R13i: loop body contains `continue`')
    b = body.rstrip()
    if b and not b.endswith(';') and not b.endswith('}'): b += ';'
    iv = 'verif_i%d' % k
    m1 = re.match(r'^for \((\w+), (\w+)\) in (\w+)\.iter\(\)\.zip\((\w+)\.iter\(\)\)(?:\.take\((.+)\))?$', head)
    m2 = re.match(r'^for (\w+) in (\w+)\[(.+)\.\.\]\.iter\(\)$', head)
    if m1:
      pa, pb, x, y, take = m1.groups()
      cond = '%s < %s.len() && %s < %s.len()' % (iv, x, iv, y) + (' && %s < (%s)' % (iv, take) if take else '')
      new = ('let mut %s: usize = 0;\n        while %s {\n          let %s = &%s[%s];\n          let %s = &%s[%s];' % (iv, cond, pa, x, iv, pb, y, iv)) + b + '\n          %s += 1;\n        }' % iv
    elif m2:
      pa, x, n = m2.groups()
      new = ('let mut %s: usize = %s;\n        while %s < %s.len() {\n          let %s = &%s[%s];' % (iv, n, iv, x, pa, x, iv)) + b + '\n          %s += 1;\n        }' % iv
    else:
      raise Undecided('R13i: unsupported loop header: %r' % head)
    out = out[:kwo] + new + out[lbc + 1:]
    k += 1


def rw_project_struct(text: str, keep: List[str]) -> str:
  """R10: keep only the named fields of a braced struct"""
  o = text.index('{')
  c = text.rindex('}')
  body = text[o + 1:c]
  toks = rsitems.lex(body)
  fields, depth, last = [], 0, 0
  for t in toks:
    if t.kind == 'p' and t.text in '([{<': depth += 1
    elif t.kind == 'p' and t.text in ')]}>': depth -= 1
    elif t.kind == 'p' and t.text == ',' and depth == 0:
      fields.append(body[last:t.end]); last = t.end
  if body[last:].strip(): fields.append(body[last:])
  kept = []
  seen = set()
  for f in fields:
    m = re.search(r'(?:pub(?:\([^)]*\))?\s+)?([A-Za-z_][A-Za-z0-9_]*)\s*:', re.sub(r'//[^\n]*', '', f))
    if m and m.group(1) in keep:
      kept.append(f if f.rstrip().endswith(',') else f.rstrip() + ',')
      seen.add(m.group(1))
  missing = [k for k in keep if k not in seen]
  if missing: raise Undecided('R10: fields not found: %s' % missing)
  return text[:o + 1] + ''.join(kept) + '\n' + text[c:]


def rw_pub_fields(text: str) -> str:
  """R7 (fields): make every field of a braced struct `pub`"""
  o = text.find('{')
  if o < 0:
    # tuple struct: struct Label(u32);
    k = re.search(r'\bstruct\b', text).start()
    return text[:k] + re.sub(r'\(\s*(?!pub\b)', '(pub ', text[k:], count=1)
  c = text.rindex('}')
  body = text[o + 1:c]
  toks = rsitems.lex(body)
  out, depth, at_start = [], 0, True
  for t in toks:
    if t.kind == 'p' and t.text in '([{<': depth += 1
    elif t.kind == 'p' and t.text in ')]}>': depth -= 1
    if at_start and t.kind == 'id' and depth == 0:
      if t.text != 'pub': out.append('pub ')
      at_start = False
    if t.kind == 'p' and t.text == ',' and depth == 0: at_start = True
    out.append(t.text)
  new = ''.join(out)
  new = re.sub(r'pub\s*\((crate|super)\)', 'pub', new)
  return text[:o + 1] + new + text[c:]


# ------------------------------------------------------------------------------------------------
# unit build

@dataclass
class Segment:
  start: int
  end: int
  kind: str       # prelude | spec | code | contract | proof | glue
  item: str       # item path ('' for prelude/spec)
  note: str = ''


@dataclass
class UnitBuild:
  name: str
  text: str
  path: str
  segments: List[Segment]
  items: List[dict]            # {path, file, sha256, lines}
  rewrites: List[RewriteLog]
  contracts: Dict[str, FnContract]
  assumptions: List[str]
  fn_tags: Dict[str, List[str]]   # item path -> property tags
  cfg: dict

  def locate(self, byte_off: int) -> Optional[Segment]:
    for s in self.segments:
      if s.start <= byte_off < s.end: return s
    return None


def load_unit_cfg(name: str) -> dict:
  p = os.path.join(VX, 'units', name, 'unit.py')
  spec = importlib.util.spec_from_file_location('unit_' + name, p)
  mod = importlib.util.module_from_spec(spec)
  spec.loader.exec_module(mod)
  cfg = dict(mod.UNIT)
  cfg['dir'] = os.path.dirname(p)
  return cfg


_ASSUME_PAT = re.compile(r'\b(assume\s*\(|admit\s*\(|external_body|assume_specification|external_fn_specification|'
                         r'verifier::external|external_type_specification|verifier::trusted|#\[verifier::exec_allows_no_decreases_clause\]|'
                         r'verifier::axiom|broadcast\s+axiom|axiom\s+fn)')


def scan_assumptions(label: str, text: str) -> List[str]:
  out = []
  for ln, line in enumerate(text.split('\n'), 1):
    code = line.split('//')[0]
    if _ASSUME_PAT.search(code):
      out.append('%s:%d: %s' % (label, ln, line.strip()[:160]))
  return out


def _strip_generics(name: str) -> str:
  # 'VecCursor<T>' -> 'VecCursor' ; 'Trace for Foo<T>' -> 'Trace for Foo'
  out, depth = [], 0
  for ch in name:
    if ch == '<': depth += 1
    elif ch == '>': depth -= 1
    elif depth == 0: out.append(ch)
  return re.sub(r'\s+', ' ', ''.join(out)).strip()


def splice_fn(text: str, c: Optional[FnContract], item_path: str) -> List[Tuple[str, str, str]]:
  """returns a list of (kind, note, text) pieces making up the function with the contract spliced in.
  No executable token of `text` is changed here."""
  if c is None:
    return [('code', '', text)]
  a = fn_anatomy(text)
  ins: List[Tuple[int, int, str, str, str]] = []   # (offset, order, kind, note, text)
  if c.ret:
    if a.arrow < 0:
      raise Undecided('%s: @ret given but function has no return type' % item_path)
    ty = text[a.ret_start:a.ret_end]
    # replace the type text by a named return: handled as delete+insert
    ins.append((a.ret_start, 0, 'retname', ty, '(%s: %s)' % (c.ret, ty)))
  if c.spec.strip():
    ins.append((a.body_open, 1, 'contract', 'spec', '\n' + c.spec + '\n'))
  for k, inv in sorted(c.loops.items(), key=lambda kv: str(kv[0])):
    if isinstance(k, str):
      # `@loop over TEXT`: the loop whose header (keyword .. body brace) contains TEXT. When that loop is gone the function is verified without
      # its invariant: what the loop established is then missing and the postcondition decides (an obligation that held now fails).
      mm = re.match(r'^over\s+(.*)$', k)
      if not mm: raise Undecided('%s: bad @loop key %r' % (item_path, k))
      want = re.sub(r'\s+', '', mm.group(1))
      hits = [l for l in a.loops if want in re.sub(r'\s+', '', text[l[1]:l[2]])]
      if len(hits) > 1: raise Undecided('%s: @loop %s matches %d loops' % (item_path, k, len(hits)))
      if hits: ins.append((hits[0][2], 1, 'contract', 'loop ' + k, '\n' + inv + '\n'))
      continue
    if k < 1 or k > len(a.loops):
      raise Undecided('%s: @loop %d but function has %d loop(s)' % (item_path, k, len(a.loops)))
    ins.append((a.loops[k - 1][2], 1, 'contract', 'loop %d' % k, '\n' + inv + '\n'))
  for anchor, ptxt in c.proofs:
    if anchor.rstrip().endswith('#*'):
      base = anchor.rstrip()[:-2].rstrip()
      k = 0
      while True:
        try:
          off = resolve_anchor(text, a, '%s #%d' % (base, k), item_path)
        except Undecided:
          if k == 0: raise
          break
        ins.append((off, 2, 'proof', '%s #%d' % (base, k), '\n' + ptxt + '\n'))
        k += 1
      continue
    off = resolve_anchor(text, a, anchor, item_path)
    ins.append((off, 2, 'proof', anchor, '\n' + ptxt + '\n'))
  ins.sort(key=lambda x: (x[0], x[1]))
  pieces: List[Tuple[str, str, str]] = []
  pos = 0
  for off, _o, kind, note, t in ins:
    if off < pos: raise Undecided('%s: overlapping splice points' % item_path)
    if kind == 'retname':
      pieces.append(('code', '', text[pos:off]))
      pieces.append(('glue', 'named return', t))
      pos = off + len(note)
    else:
      pieces.append(('code', '', text[pos:off]))
      pieces.append((kind, note, t))
      pos = off
  pieces.append(('code', '', text[pos:]))
  return pieces


def resolve_anchor(text: str, a: rsitems.FnAnatomy, anchor: str, item_path: str) -> int:
  """anchor grammar:
       body_start | body_end
       loop N body_start | loop N body_end
       before `code` [#k] | after `code` [#k]       (after = just past the next ';' following the match)
  """
  m = re.match(r'^loop\s+(\d+)\s+(body_start|body_end)$', anchor)
  if anchor == 'body_start': return a.body_open + 1
  if anchor == 'body_end': return a.body_close
  if m:
    k = int(m.group(1))
    if k < 1 or k > len(a.loops): raise Undecided('%s: anchor %s: no such loop' % (item_path, anchor))
    return a.loops[k - 1][2] + 1 if m.group(2) == 'body_start' else a.loops[k - 1][3]
  m = re.match(r'^(before|after)\s+`(.*)`\s*(?:#(\d+))?$', anchor, flags=re.S)
  if not m: raise Undecided('%s: bad anchor %r' % (item_path, anchor))
  try:
    s, e = find_code(text, m.group(2), int(m.group(3) or 0), a.body_open, a.body_close)
  except ScanError as ex:
    raise Undecided('%s: %s' % (item_path, ex))
  if m.group(1) == 'before': return s
  if text[:e].rstrip().endswith(';'): return e
  # after: past the next ';' at the same bracket depth
  toks = [t for t in rsitems.lex(text) if t.start >= e]
  depth = 0
  for t in toks:
    if t.kind == 'p' and t.text in '([{': depth += 1
    elif t.kind == 'p' and t.text in ')]}':
      depth -= 1
      if depth < 0: return t.start
    elif t.kind == 'p' and t.text == ';' and depth == 0:
      return t.end
  raise Undecided('%s: anchor %s: no statement end' % (item_path, anchor))


def build_unit(name: str, variant: Optional[str] = None, canary: bool = False) -> UnitBuild:
  cfg = load_unit_cfg(name)
  d = cfg['dir']
  cfile = 'contracts.vrs' if not variant else 'contracts.%s.vrs' % variant
  contracts = parse_contracts(os.path.join(d, 'contracts.vrs'))
  if variant:
    # a variant overrides / adds contracts on top of the base set
    over = parse_contracts(os.path.join(d, cfile))
    if not over and not cfg.get('generate'): raise Undecided('unit %s: variant %s has no contracts' % (name, variant))
    contracts.update(over)
  gen_prelude = ''
  if cfg.get('generate'):
    # contracts (and model structs) generated mechanically from the real struct definitions on every run
    import inspect as _inspect
    g = cfg['generate'](REPO, variant) if len(_inspect.signature(cfg['generate']).parameters) >= 2 else cfg['generate'](REPO)
    gdir = os.path.join(BUILD, 'vx', name + ('' if not variant else '.' + variant)); os.makedirs(gdir, exist_ok=True)
    gpath = os.path.join(gdir, 'generated.contracts.vrs')
    with open(gpath, 'w', encoding='utf-8') as f: f.write(g['contracts'])
    gen = parse_contracts(gpath)
    for k in gen:
      if k in contracts: raise Undecided('unit %s: generated contract collides with a written one: %s' % (name, k))
    contracts.update(gen)
    gen_prelude = g.get('prelude', '')
    gen_items = g.get('gen_items', [])
  for c in contracts.values():
    if c.effect:
      # O-06.7: on the completing path the handler's net effect on the operand stack is the ISA table's entry for its opcode
      clause = '    (r == ExecutionSignal::Ok) ==> final(self).fiber.stack@.len() == old(self).fiber.stack@.len() + eff(%s),' % c.effect
      sp = c.spec.rstrip()
      if re.search(r'\bensures\b', sp):
        c.spec = sp.rstrip(',') + ',\n' + clause
      else:
        c.spec = sp + '\n  ensures\n' + clause
  if 'generate' not in cfg: gen_items = []
  if canary:
    for c in contracts.values():
      if c.spec.strip() and not any('external_body' in at for at in c.attrs):
        c.proofs.insert(0, ('body_start', '  proof { assert(false); } // vacuity canary'))
  prelude = ''
  for pf in cfg.get('prelude_files', ['prelude.rs']):
    pp = os.path.normpath(os.path.join(d, pf))
    if os.path.exists(pp): prelude += open(pp, encoding='utf-8').read() + '\n'
  prelude += gen_prelude
  spec = open(os.path.join(d, 'spec.rs'), encoding='utf-8').read() if os.path.exists(os.path.join(d, 'spec.rs')) else ''
  for sf in cfg.get('spec_files', []):
    spec = open(os.path.normpath(os.path.join(d, sf)), encoding='utf-8').read() + '\n' + spec
  for sh in cfg.get('shared', []):
    spec = open(os.path.join(VX, 'shared', sh), encoding='utf-8').read() + '\n' + spec
  if variant and os.path.exists(os.path.join(d, 'spec.%s.rs' % variant)):
    spec += '\n' + open(os.path.join(d, 'spec.%s.rs' % variant), encoding='utf-8').read()

  bad = scan_assumptions('spec.rs', spec)
  allowed_spec_assumptions = cfg.get('spec_assumptions_allowed', [])
  bad = [b for b in bad if not any(a in b for a in allowed_spec_assumptions)]
  if bad:
    raise Undecided('unit %s: spec.rs may not contain assumptions: %s' % (name, bad))
  assumptions = scan_assumptions('%s/prelude.rs' % name, prelude)
  for c in contracts.values():
    if canary: break
    for anchor, ptext in c.proofs:
      assumptions += scan_assumptions('%s/%s @proof %s of %s' % (name, cfile, anchor[:40], c.path), ptext)

  rewrites: List[RewriteLog] = []
  items_meta: List[dict] = []
  fn_tags: Dict[str, List[str]] = {}
  used_contracts = set()

  chunks: List[Tuple[str, str, str, str]] = []   # (kind, item, note, text)
  head = cfg.get('header', '#![allow(unused)]\nuse vstd::prelude::*;\n')
  chunks.append(('glue', '', 'header', head + '\nverus! {\n\n'))
  chunks.append(('prelude', '', '', prelude + '\n'))
  chunks.append(('spec', '', '', spec + '\n'))

  def apply_rewrites(item_path: str, kind: str, text: str) -> str:
    new = text
    for rw in cfg.get('rewrites', []):
      rule, target = rw[0], rw[1]
      args = rw[2] if len(rw) > 2 else {}
      if not _target_matches(target, item_path, kind): continue
      before = new
      try:
        if 'pat' in args:
          # generic checked substitution; the rule id names the DESIGN.md table row
          new = rw_subst(new, args['pat'], args['rep'], count=args.get('count'), regex=args.get('regex', False),
                         min_count=args.get('min', 1 if not args.get('optional') else 0))
        elif rule == 'R1': new = rw_mut_self(new)
        elif rule == 'R4g': new = rw_option_tail(new)
        elif rule == 'R15': new = rw_trace_log(new)
        elif rule == 'R13r': new = rw_for_range(new)
        elif rule == 'R13f': new = rw_for_each_index(new)
        elif rule == 'R13c': new = rw_rev_take_zip_map(new)
        elif rule == 'R18b': new = rw_extract_block(new, args['start'], args['end'], args['sig'])
        elif rule == 'R18': new = rw_extract_match(new, args['scrutinee'], args['sig'], args['var'])
        elif rule == 'R17': new = rw_inline_scope(new)
        elif rule == 'R4n': new = rw_next_if_pred(new, args.get('fns', []), args.get('vars', []))
        elif rule == 'R16': new = rw_thread_heap(new, args['methods'], args.get('name', 'verif_heap'), args.get('ty', 'ListHeap'))
        elif rule == 'R13m': new = rw_range_map_collect(new)
        elif rule == 'R3d': new = rw_drop_cfg_debug(new)
        elif rule == 'R3c': new = rw_eval_cfg(new, args.get('features', []))
        elif rule == 'R2': new = rw_slice_match(new)
        elif rule == 'R10': new = rw_project_struct(new, args['keep'])
        elif rule == 'R10l': new = rw_project_literal(new, args['name'], args['keep'], args.get('extra', ''))
        elif rule == 'R14': new = rw_named_ops(new)
        elif rule == 'R8': new = rw_format(new)
        elif rule == 'R13i': new = rw_iter_loops(new)
        elif rule == 'R13z': new = rw_for_zip(new, args.get('nth', 0))
        elif rule == 'R13': new = rw_for_slice(new, args.get('nth', 0), args.get('mutable', False))
        elif rule == 'R7f': new = rw_pub_fields(new)
        elif rule == 'R11': new = rw_derive(new, args.get('drop', []), args.get('add', []))
        else:
          raise Undecided('unknown rewrite rule %s' % rule)
      except ScanError as ex:
        raise Undecided('rewrite %s on %s: %s' % (rule, item_path, ex))
      if new != before:
        rewrites.append(RewriteLog(rule, item_path, json.dumps(args)[:200], _diff(before, new, item_path)))
    return new

  files: Dict[str, RustFile] = {}
  for relfile, sels in cfg['items']:
    full = os.path.join(REPO, relfile)
    if full not in files:
      if not os.path.exists(full): raise Undecided('source file missing: %s' % relfile)
      try:
        files[full] = RustFile(full)
      except ScanError as ex:
        raise Undecided('%s: %s' % (relfile, ex))
    rf = files[full]
    for sel in sels:
      try:
        _emit_selection(rf, relfile, sel, contracts, used_contracts, chunks, items_meta, fn_tags, apply_rewrites, cfg)
      except ScanError as ex:
        raise Undecided('%s: %s' % (relfile, ex))

  # generated items: functions a unit's generator derives mechanically from the source (one per source function, with the source location and
  # hash of what it was derived from); text = complete Verus function, body_at = index just after the body's opening brace
  for gi in gen_items:
    t = gi['text']
    if canary: t = t[:gi['body_at']] + ' proof { assert(false); } // vacuity canary\n' + t[gi['body_at']:]
    chunks.append(('code', gi['path'], 'generated', t + '\n'))
    items_meta.append({'path': gi['path'], 'file': gi['file'], 'line': gi['line'], 'sha256': gi['sha256'], 'kind': 'fn'})
    fn_tags[gi['path']] = list(gi.get('tags', cfg.get('properties', [])))
    contracts[gi['path']] = FnContract(path=gi['path'], tags=fn_tags[gi['path']], spec=gi.get('spec', 'generated'))
    used_contracts.add(gi['path'])
  unused = set(contracts) - used_contracts
  if unused:
    raise Undecided('unit %s: contracts for items that were not extracted (lost anchor): %s' % (name, sorted(unused)))
  chunks.append(('glue', '', 'footer', '\n} // verus!\n\nfn main() {}\n'))

  text, segs = '', []
  for kind, item, note, t in chunks:
    b = len(text.encode('utf-8'))
    text += t
    segs.append(Segment(b, len(text.encode('utf-8')), kind, item, note))
  for c in contracts.values():
    for at in c.attrs:
      if _ASSUME_PAT.search(at):
        assumptions.append('%s/%s: %s on %s' % (name, cfile, at, c.path))
  out_dir = os.path.join(BUILD, 'vx', name + ('' if not variant else '.' + variant) + ('.canary' if canary else ''))
  os.makedirs(out_dir, exist_ok=True)
  path = os.path.join(out_dir, 'unit.rs')
  with open(path, 'w', encoding='utf-8') as f: f.write(text)
  with open(os.path.join(out_dir, 'rewrites.diff'), 'w', encoding='utf-8') as f:
    for r in rewrites: f.write('# %s on %s %s\n%s\n' % (r.rule, r.item, r.detail, r.diff))
  return UnitBuild(name=name + ('' if not variant else '.' + variant), text=text, path=path, segments=segs, items=items_meta,
                   rewrites=rewrites, contracts=contracts, assumptions=assumptions, fn_tags=fn_tags, cfg=cfg)


def _target_matches(target: str, item_path: str, kind: str) -> bool:
  if target == '*': return True
  if target.startswith('kind:'): return kind == target[5:]
  if target.endswith('*'): return item_path.startswith(target[:-1])
  return target == item_path


_EXTRA_TAGS: Dict[str, dict] = {}


def _emit_selection(rf: RustFile, relfile: str, sel, contracts, used, chunks, items_meta, fn_tags, apply_rewrites, cfg):
  _EXTRA_TAGS['cur'] = cfg.get('extra_tags', {})
  """sel: 'fn name' | 'struct Name' | 'enum Name' | 'const NAME' | 'macro name' | 'type Name'
          | ('impl Header', [methods] | None)  (methods None = all)"""
  default_tags = cfg.get('properties', [])
  if isinstance(sel, str):
    kind, name = sel.split(None, 1)
    nth = 0
    m = re.match(r'^(.*)\s+#(\d+)$', name)
    if m: name, nth = m.group(1), int(m.group(2))
    it = rf.find(kind, name, nth)
    path = name if kind == 'fn' else '%s %s' % (kind, name)
    _emit_item(it, kind, path, relfile, rf, contracts, used, chunks, items_meta, fn_tags, apply_rewrites, default_tags)
    return
  hdr, methods = sel
  assert hdr.startswith('impl')
  iname = hdr[4:].strip()
  imps = rf.find_all_impls(iname)
  if not imps: raise ScanError('impl `%s` not found' % iname)
  remaining = None if methods is None else list(methods)
  for imp in imps:
    chosen = [ch for ch in imp.children if ch.kind in ('fn', 'const', 'type') and (methods is None or ch.name in methods)]
    if not chosen: continue
    tname = _strip_generics(imp.name)
    header = apply_rewrites('impl ' + tname, 'implhdr', imp.header)
    chunks.append(('glue', 'impl ' + tname, 'impl header', header + '\n'))
    for ch in chosen:
      path = '%s::%s' % (tname, ch.name)
      _emit_item(ch, ch.kind, path, relfile, rf, contracts, used, chunks, items_meta, fn_tags, apply_rewrites, default_tags, indent='  ')
      if remaining is not None and ch.name in remaining: remaining.remove(ch.name)
    chunks.append(('glue', 'impl ' + tname, 'impl close', '}\n\n'))
  if remaining:
    raise ScanError('impl `%s`: method(s) not found: %s' % (iname, remaining))


def _emit_item(it, kind, path, relfile, rf, contracts, used, chunks, items_meta, fn_tags, apply_rewrites, default_tags, indent=''):
  text = it.text
  line0 = rf.src.count('\n', 0, it.start) + 1
  items_meta.append({'path': path, 'file': relfile, 'line': line0,
                     'sha256': hashlib.sha256(text.encode('utf-8')).hexdigest()[:16], 'bytes': len(text)})
  text = apply_rewrites(path, kind, text)
  c = contracts.get(path)
  if c is not None: used.add(path)
  if kind == 'fn':
    tags = list(c.tags if c and c.tags else default_tags)
    for pat, extra in _EXTRA_TAGS.get('cur', {}).items():
      if _target_matches(pat, path, kind):
        tags += [t for t in extra if t not in tags]
    fn_tags[path] = tags
    if c:
      for at in c.attrs:
        chunks.append(('glue', path, 'attr', indent + at + '\n'))
    for k, note, t in splice_fn(text, c, path):
      chunks.append((k, path, note, t))
    chunks.append(('glue', path, '', '\n\n'))
  else:
    if c:
      for at in c.attrs:
        chunks.append(('glue', path, 'attr', indent + at + '\n'))
    chunks.append(('code', path, '', text + '\n\n'))


# ------------------------------------------------------------------------------------------------
# running Verus

_VC_PATTERNS = [
  (r'postcondition not satisfied', 'post'),
  (r'precondition not satisfied', 'pre'),
  (r'precondition not met', 'pre'),
  (r'assertion failed', 'assert'),
  (r'possible arithmetic underflow/overflow', 'overflow'),
  (r'possible division by zero', 'divzero'),
  (r'possible bit shift underflow/overflow', 'overflow'),
  (r'invariant not satisfied (at end of loop body|before loop)', 'invariant'),
  (r'loop invariant not (preserved|satisfied)', 'invariant'),
  (r'invariant not satisfied', 'invariant'),
  (r'decreases not satisfied', 'decreases'),
  (r'could not prove termination', 'decreases'),
  (r'recommendation not met', 'recommends'),
  (r'unreachable\(\) (may be|is) reachable|reached unreachable', 'unreachable'),
  (r'cannot show .* is in bounds|index out of bounds', 'bounds'),
  (r'possible (truncation|cast) ', 'overflow'),
]
_RLIMIT = re.compile(r'[Rr]esource limit|rlimit|timed out|timeout')


@dataclass
class Failure:
  unit: str
  function: str          # item path of the function whose obligation failed
  kind: str              # post | pre | assert | overflow | invariant | ...
  clause: str            # text of the clause / expression that failed (primary span)
  at: str                # text at the secondary span (call site / loop / function end)
  message: str
  rendered: str
  where: str             # segment kind of the primary span: code | contract | proof | prelude | spec
  tags: List[str]

  def oid(self) -> str:
    return '%s/%s/%s' % (self.unit, self.function, self.kind)


@dataclass
class VerusResult:
  unit: str
  ok: bool
  verified: int
  errors: int
  failures: List[Failure]
  frontend_errors: List[str]
  rlimit: List[str]
  functions: List[dict]     # breakdown
  wall_s: float
  smt_ms: int
  cmd: str
  raw_stderr: str


def run_verus(ub: UnitBuild, extra_args: Optional[List[str]] = None, timeout: int = 900) -> VerusResult:
  out_dir = os.path.dirname(ub.path)
  cmd = ['verus', ub.path, '--output-json', '--time', '--error-format=json', '--crate-type=bin',
         '--crate-name', 'unit'] + (extra_args or ub.cfg.get('verus_args', []))
  t0 = time.time()
  try:
    p = subprocess.run(cmd, cwd=out_dir, capture_output=True, text=True, timeout=timeout)
  except subprocess.TimeoutExpired:
    raise Undecided('verus timed out after %ds on unit %s' % (timeout, ub.name))
  wall = time.time() - t0
  with open(os.path.join(out_dir, 'verus.stdout.json'), 'w') as f: f.write(p.stdout)
  with open(os.path.join(out_dir, 'verus.stderr.txt'), 'w') as f: f.write(p.stderr)
  try:
    js = json.loads(p.stdout)
  except Exception:
    js = None
  failures, fe, rl = [], [], []
  for line in p.stderr.split('\n'):
    line = line.strip()
    if not line.startswith('{'):
      continue
    try: d = json.loads(line)
    except Exception: continue
    if d.get('level') not in ('error',): continue
    msg = d.get('message', '')
    if msg.startswith('aborting due to'): continue
    kind = None
    for pat, k in _VC_PATTERNS:
      if re.search(pat, msg): kind = k; break
    if kind is None:
      if _RLIMIT.search(msg): rl.append(d.get('rendered', msg))
      else: fe.append(d.get('rendered', msg))
      continue
    spans = [_in_unit_span(sp, ub.path) for sp in d.get('spans', [])]
    spans = [sp for sp in spans if sp is not None]
    prim = [s for s in spans if s.get('is_primary')] or spans
    sec = [s for s in spans if not s.get('is_primary')]
    # the function whose proof failed: the span that lies inside an extracted fn's segments
    fn_path, where = '', ''
    for s in (prim + sec):
      seg = ub.locate(s['byte_start'])
      if seg and seg.item and seg.item in ub.fn_tags:
        fn_path = seg.item
        break
    if prim:
      seg = ub.locate(prim[0]['byte_start'])
      where = seg.kind if seg else '?'
    clause = ' '.join(t['text'].strip() for t in prim[0]['text'])[:300] if prim else ''
    at = ' '.join(t['text'].strip() for t in sec[0]['text'])[:200] if sec else ''
    if not fn_path:
      # failure inside spec.rs proof fn / prelude: attribute to the proof fn by name if we can
      fn_path = _enclosing_spec_fn(ub, prim[0]['byte_start']) if prim else '?'
    failures.append(Failure(unit=ub.name, function=fn_path, kind=kind, clause=clause, at=at, message=msg,
                            rendered=d.get('rendered', ''), where=where,
                            tags=ub.fn_tags.get(fn_path, ub.cfg.get('properties', []))))
  funcs = []
  verified = errors = 0
  smt_ms = 0
  if js:
    vr = js.get('verification-results', {})
    verified, errors = vr.get('verified', 0), vr.get('errors', 0)
    smt = js.get('times-ms', {}).get('smt', {})
    smt_ms = smt.get('smt-run', 0)
    for m in smt.get('smt-run-module-times', []):
      for fb in m.get('function-breakdown', []):
        funcs.append({'function': fb['function'], 'mode': fb.get('mode:', fb.get('mode', '')), 'smt_us': fb.get('time-micros', 0),
                      'rlimit': fb.get('rlimit', 0), 'success': fb.get('success', False)})
    if vr.get('encountered-vir-error') and not fe:
      fe.append('verus reported a VIR error (see verus.stderr.txt)')
  else:
    if not fe: fe.append('verus produced no JSON result (exit %d): %s' % (p.returncode, p.stderr[-600:]))
  ok = (p.returncode == 0 and js is not None and js['verification-results'].get('success') and not failures and not fe)
  return VerusResult(unit=ub.name, ok=bool(ok), verified=verified, errors=errors, failures=failures, frontend_errors=fe,
                     rlimit=rl, functions=funcs, wall_s=wall, smt_ms=smt_ms, cmd=' '.join(cmd), raw_stderr=p.stderr)


def run_canaries(ub0: UnitBuild, name: str, variant: Optional[str]) -> dict:
  """vacuity guard: `assert(false)` spliced at the start of every contracted function's body must FAIL;
  where it verifies the function's precondition is contradictory and its proof says nothing"""
  ub = build_unit(name, variant, canary=True)
  r = run_verus(ub, extra_args=ub.cfg.get('verus_args', []) + ['--multiple-errors', '1'])
  if r.frontend_errors:
    raise Undecided('canary build failed: %s' % r.frontend_errors[0][:300])
  want = [p for p, c in ub.contracts.items() if c.spec.strip() and not any('external_body' in at for at in c.attrs)
          and p in ub.fn_tags and p not in ub.cfg.get('no_canary', [])]
  failed = {f.function for f in r.failures if f.kind == 'assert' and 'false' in f.clause}
  vac = [p for p in want if p not in failed]
  return {'checked': len(want), 'vacuous': vac, 'cmd': r.cmd + '   # canary run: assert(false) at the start of every contracted body'}


def _in_unit_span(sp: dict, unit_path: str) -> Optional[dict]:
  """a span inside a macro expansion (debug_assert!, matches!, ...) is reported at the macro's definition;
  follow the expansion chain back to the call site in the unit file"""
  base = os.path.basename(unit_path)
  cur = sp
  for _ in range(8):
    if cur is None: return None
    if os.path.basename(cur.get('file_name', '')) == base: 
      if cur is not sp:
        cur = dict(cur); cur['is_primary'] = sp.get('is_primary', False)
      return cur
    exp = cur.get('expansion')
    cur = exp.get('span') if exp else None
  return None


def _enclosing_spec_fn(ub: UnitBuild, byte_off: int) -> str:
  b = ub.text.encode('utf-8')[:byte_off].decode('utf-8', 'ignore')
  ms = list(re.finditer(r'\b(?:proof|spec|exec)?\s*fn\s+([A-Za-z_][A-Za-z0-9_]*)', b))
  return 'spec:' + ms[-1].group(1) if ms else '?'


if __name__ == '__main__':
  import argparse
  ap = argparse.ArgumentParser()
  ap.add_argument('unit')
  ap.add_argument('--variant')
  ap.add_argument('--build-only', action='store_true')
  a = ap.parse_args()
  try:
    ub = build_unit(a.unit, a.variant)
  except Undecided as ex:
    print('UNDECIDED', ex); sys.exit(2)
  print('unit written to', ub.path, 'items:', len(ub.items), 'rewrites:', len(ub.rewrites))
  if a.build_only: sys.exit(0)
  r = run_verus(ub)
  print('ok=%s verified=%d errors=%d wall=%.1fs smt=%dms' % (r.ok, r.verified, r.errors, r.wall_s, r.smt_ms))
  for f in r.failures:
    print('FAIL', f.oid(), '|', f.clause, '|', f.at, '|', f.where)
  for e in r.frontend_errors: print('FRONTEND', e)
  for e in r.rlimit: print('RLIMIT', e)
  sys.exit(0 if r.ok else 1)
