// ---- instruction-set tables, written from the VM's decode side (vm/ops.rs + vm/mod.rs dispatch) -------------
// enc_len(i): 1 opcode byte + the operand bytes the interpreter reads for that opcode; 0 for pseudo
// instructions that emit nothing.  The real `SymbolicByteCode::len` and every `ByteCodeEncoder` arm are
// proved against this table, so table, length function and encoder cannot drift apart.
pub open spec fn enc_len(i: SymbolicByteCode) -> int {
  match i {
    SymbolicByteCode::Label(_) | SymbolicByteCode::ArgumentDelimiter => 0,
    // no operand
    SymbolicByteCode::Return | SymbolicByteCode::Negate | SymbolicByteCode::Add | SymbolicByteCode::Subtract
    | SymbolicByteCode::Multiply | SymbolicByteCode::Divide | SymbolicByteCode::Not | SymbolicByteCode::Nil
    | SymbolicByteCode::True | SymbolicByteCode::False | SymbolicByteCode::Channel | SymbolicByteCode::BufferedChannel
    | SymbolicByteCode::Receive | SymbolicByteCode::Send | SymbolicByteCode::Drop | SymbolicByteCode::Dup
    | SymbolicByteCode::EmptyBox | SymbolicByteCode::FillBox | SymbolicByteCode::PopHandler
    | SymbolicByteCode::FinishUnwind | SymbolicByteCode::ContinueUnwind | SymbolicByteCode::GetError
    | SymbolicByteCode::Raise | SymbolicByteCode::Inherit | SymbolicByteCode::Equal | SymbolicByteCode::NotEqual
    | SymbolicByteCode::Greater | SymbolicByteCode::GreaterEqual | SymbolicByteCode::Less | SymbolicByteCode::LessEqual => 1,
    // one byte operand (read_byte); CaptureIndex is a bare 2-byte operand of the preceding Closure
    SymbolicByteCode::Constant(_) | SymbolicByteCode::Launch(_) | SymbolicByteCode::DropN(_) | SymbolicByteCode::Box(_)
    | SymbolicByteCode::GetBox(_) | SymbolicByteCode::SetBox(_) | SymbolicByteCode::GetLocal(_) | SymbolicByteCode::SetLocal(_)
    | SymbolicByteCode::GetCapture(_) | SymbolicByteCode::SetCapture(_) | SymbolicByteCode::Call(_)
    | SymbolicByteCode::CaptureIndex(_) => 2,
    // one short operand (read_short)
    SymbolicByteCode::And(_) | SymbolicByteCode::Or(_) | SymbolicByteCode::ConstantLong(_) | SymbolicByteCode::List(_)
    | SymbolicByteCode::Tuple(_) | SymbolicByteCode::Map(_) | SymbolicByteCode::Interpolate(_) | SymbolicByteCode::IterNext(_)
    | SymbolicByteCode::IterCurrent(_) | SymbolicByteCode::Import(_) | SymbolicByteCode::Export(_)
    | SymbolicByteCode::LoadGlobal(_) | SymbolicByteCode::GetModSym(_) | SymbolicByteCode::SetModSym(_)
    | SymbolicByteCode::GetPropByName(_) | SymbolicByteCode::SetPropByName(_) | SymbolicByteCode::GetProp(_)
    | SymbolicByteCode::SetProp(_) | SymbolicByteCode::JumpIfFalse(_) | SymbolicByteCode::Jump(_) | SymbolicByteCode::Loop(_)
    | SymbolicByteCode::CheckHandler(_) | SymbolicByteCode::Closure(_) | SymbolicByteCode::Method(_)
    | SymbolicByteCode::Field(_) | SymbolicByteCode::StaticMethod(_) | SymbolicByteCode::Class(_)
    | SymbolicByteCode::GetSuper(_) => 3,
    // short + byte
    SymbolicByteCode::Invoke(_) | SymbolicByteCode::SuperInvoke(_) => 4,
    // bare 4-byte cache slot operands (read_slot) of the preceding instruction
    SymbolicByteCode::PropertySlot | SymbolicByteCode::InvokeSlot => 4,
    // two shorts
    SymbolicByteCode::ImportSym(_) | SymbolicByteCode::DeclareModSym(_) | SymbolicByteCode::PushHandler(_) => 5,
  }
}

// eff(i): the interpreter's net effect on the operand-stack depth when the instruction completes and
// falls through, read off the op_* handlers in vm/ops.rs (pops and pushes on the completing path).
pub open spec fn eff(i: SymbolicByteCode) -> int {
  match i {
    SymbolicByteCode::Return => -1,
    SymbolicByteCode::Negate | SymbolicByteCode::Not => 0,
    SymbolicByteCode::Add | SymbolicByteCode::Subtract | SymbolicByteCode::Multiply | SymbolicByteCode::Divide => -1,
    SymbolicByteCode::Equal | SymbolicByteCode::NotEqual | SymbolicByteCode::Greater | SymbolicByteCode::GreaterEqual
    | SymbolicByteCode::Less | SymbolicByteCode::LessEqual => -1,
    // and/or: fall through pops the left operand (the taken edge keeps it: see eff_taken)
    SymbolicByteCode::And(_) | SymbolicByteCode::Or(_) => -1,
    SymbolicByteCode::Constant(_) | SymbolicByteCode::ConstantLong(_) | SymbolicByteCode::Nil | SymbolicByteCode::True
    | SymbolicByteCode::False => 1,
    SymbolicByteCode::List(n) | SymbolicByteCode::Tuple(n) | SymbolicByteCode::Interpolate(n) => 1 - n as int,
    SymbolicByteCode::Map(n) => 1 - 2 * (n as int),
    // launch: callee and arguments move to the new fiber
    SymbolicByteCode::Launch(n) => -(n as int + 1),
    SymbolicByteCode::Channel => 1,
    SymbolicByteCode::BufferedChannel => 0,
    SymbolicByteCode::Receive => 0,
    // op_send pops the channel and leaves the sent value as the expression's result
    SymbolicByteCode::Send => -1,
    SymbolicByteCode::IterNext(_) | SymbolicByteCode::IterCurrent(_) => 0,
    SymbolicByteCode::Drop => -1,
    SymbolicByteCode::DropN(n) => -(n as int),
    SymbolicByteCode::Dup => 1,
    SymbolicByteCode::Import(_) | SymbolicByteCode::ImportSym(_) | SymbolicByteCode::LoadGlobal(_) => 1,
    SymbolicByteCode::Export(_) | SymbolicByteCode::DeclareModSym(_) | SymbolicByteCode::SetModSym(_) => 0,
    SymbolicByteCode::GetModSym(_) => 1,
    SymbolicByteCode::Box(_) => 0,
    SymbolicByteCode::EmptyBox => 1,
    SymbolicByteCode::FillBox => -1,
    SymbolicByteCode::GetBox(_) | SymbolicByteCode::GetLocal(_) | SymbolicByteCode::GetCapture(_) => 1,
    SymbolicByteCode::SetBox(_) | SymbolicByteCode::SetLocal(_) | SymbolicByteCode::SetCapture(_) => 0,
    SymbolicByteCode::GetPropByName(_) | SymbolicByteCode::GetProp(_) => 0,
    SymbolicByteCode::SetPropByName(_) | SymbolicByteCode::SetProp(_) => -1,
    SymbolicByteCode::JumpIfFalse(_) => -1,
    SymbolicByteCode::Jump(_) | SymbolicByteCode::Loop(_) => 0,
    SymbolicByteCode::PushHandler(_) | SymbolicByteCode::PopHandler | SymbolicByteCode::FinishUnwind
    | SymbolicByteCode::ContinueUnwind => 0,
    SymbolicByteCode::CheckHandler(_) => -1,
    SymbolicByteCode::GetError => 1,
    SymbolicByteCode::Raise => -1,
    SymbolicByteCode::Label(_) | SymbolicByteCode::ArgumentDelimiter => 0,
    // the callee slot is replaced by the result
    SymbolicByteCode::Call(n) => -(n as int),
    SymbolicByteCode::Invoke(p) => -(p.1 as int),
    // super invoke additionally pops the super class pushed for it
    SymbolicByteCode::SuperInvoke(p) => -(p.1 as int + 1),
    SymbolicByteCode::Closure(_) | SymbolicByteCode::Class(_) => 1,
    SymbolicByteCode::Method(_) | SymbolicByteCode::StaticMethod(_) => -1,
    SymbolicByteCode::Field(_) | SymbolicByteCode::Inherit => 0,
    SymbolicByteCode::GetSuper(_) => -1,
    SymbolicByteCode::CaptureIndex(_) | SymbolicByteCode::PropertySlot | SymbolicByteCode::InvokeSlot => 0,
  }
}

// ---- derived quantities over an instruction vector ---------------------------------------------------------
/// byte offset of instruction k in the encoding: the sum of the encoded lengths before it
pub open spec fn prefix_len(code: Seq<SymbolicByteCode>, k: int) -> int
  decreases k
{
  if k <= 0 { 0 } else { prefix_len(code, k - 1) + enc_len(code[k - 1]) }
}

pub proof fn lemma_prefix_len_bound(code: Seq<SymbolicByteCode>, k: int)
  requires 0 <= k <= code.len(),
  ensures 0 <= prefix_len(code, k) <= 5 * k,
  decreases k,
{
  if k > 0 { lemma_prefix_len_bound(code, k - 1); }
}

pub proof fn lemma_prefix_len_mono(code: Seq<SymbolicByteCode>, j: int, k: int)
  requires 0 <= j <= k <= code.len(),
  ensures prefix_len(code, j) <= prefix_len(code, k),
  decreases k - j,
{
  if j < k { lemma_prefix_len_mono(code, j, k - 1); }
}

/// linear stack simulation: 1 (the callee slot) plus the effects of the first k instructions
pub open spec fn lin_depth(code: Seq<SymbolicByteCode>, k: int) -> int
  decreases k
{
  if k <= 0 { 1 } else { lin_depth(code, k - 1) + eff(code[k - 1]) }
}

pub open spec fn count_labels(code: Seq<SymbolicByteCode>, k: int) -> int
  decreases k
{
  if k <= 0 { 0 } else { count_labels(code, k - 1) + if code[k - 1] is Label { 1int } else { 0int } }
}

pub proof fn lemma_count_labels_bound(code: Seq<SymbolicByteCode>, k: int)
  requires 0 <= k <= code.len(),
  ensures 0 <= count_labels(code, k) <= k,
  decreases k,
{
  if k > 0 { lemma_count_labels_bound(code, k - 1); }
}

/// the handler operand is the only thing the stack simulation rewrites
pub open spec fn same_but_handler_depth(a: SymbolicByteCode, b: SymbolicByteCode) -> bool {
  match a {
    SymbolicByteCode::PushHandler(p) => b matches SymbolicByteCode::PushHandler(q) && p.1 == q.1,
    _ => a == b,
  }
}
