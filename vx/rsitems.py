"""Brace/quote-aware Rust item scanner.

Locates items (fn, struct, enum, impl + its methods, const, macro_rules!, ...) in a Rust source file
*by path* and returns their exact source text, byte for byte.  It is not a Rust parser: it tokenises
just enough (comments, strings, raw strings, chars vs lifetimes, brackets) to find item boundaries,
function bodies and loops reliably.  Anything it cannot place raises ScanError, which the engine maps
to UNDECIDED (exit 2), never to a violation.
"""
from __future__ import annotations
import re
from dataclasses import dataclass, field
from typing import List, Optional, Tuple


class ScanError(Exception):
  pass


@dataclass
class Tok:
  kind: str   # ws, lc (line comment), bc (block comment), str, char, life, id, num, p (punct)
  text: str
  start: int
  end: int


_ID = re.compile(r'[A-Za-z_][A-Za-z0-9_]*')
_NUM = re.compile(r'[0-9][0-9A-Za-z_]*(\.[0-9][0-9A-Za-z_]*)?')
_WS = re.compile(r'\s+')


def lex(src: str) -> List[Tok]:
  toks: List[Tok] = []
  i, n = 0, len(src)
  while i < n:
    c = src[i]
    m = _WS.match(src, i)
    if m:
      toks.append(Tok('ws', m.group(), i, m.end())); i = m.end(); continue
    if src.startswith('//', i):
      j = src.find('\n', i)
      j = n if j < 0 else j
      toks.append(Tok('lc', src[i:j], i, j)); i = j; continue
    if src.startswith('/*', i):
      depth, j = 1, i + 2
      while j < n and depth:
        if src.startswith('/*', j): depth += 1; j += 2
        elif src.startswith('*/', j): depth -= 1; j += 2
        else: j += 1
      toks.append(Tok('bc', src[i:j], i, j)); i = j; continue
    # raw strings r"..", r#".."#, br#".."#
    m = re.match(r'(b?r)(#*)"', src[i:i + 40])
    if m and (i == 0 or not (src[i - 1].isalnum() or src[i - 1] == '_')):
      hashes = m.group(2)
      close = '"' + hashes
      j = src.find(close, i + len(m.group()))
      if j < 0: raise ScanError('unterminated raw string at %d' % i)
      j += len(close)
      toks.append(Tok('str', src[i:j], i, j)); i = j; continue
    if c == '"' or (c == 'b' and src.startswith('b"', i)):
      j = i + (2 if c == 'b' else 1)
      while j < n and src[j] != '"':
        j += 2 if src[j] == '\\' else 1
      j += 1
      toks.append(Tok('str', src[i:j], i, j)); i = j; continue
    if c == "'":
      # char literal or lifetime
      m = re.match(r"'(\\.[^']*|[^\\'])'", src[i:i + 16])
      if m:
        toks.append(Tok('char', m.group(), i, i + len(m.group()))); i += len(m.group()); continue
      m = re.match(r"'[A-Za-z_][A-Za-z0-9_]*", src[i:i + 64])
      if m:
        toks.append(Tok('life', m.group(), i, i + len(m.group()))); i += len(m.group()); continue
      raise ScanError("stray ' at %d" % i)
    m = _ID.match(src, i)
    if m:
      toks.append(Tok('id', m.group(), i, m.end())); i = m.end(); continue
    m = _NUM.match(src, i)
    if m:
      # do not swallow `0..n` ranges: a number followed by '..' keeps only the integer part
      txt = m.group()
      if '.' in txt and src.startswith('..', i + txt.index('.')):
        txt = txt[:txt.index('.')]
      toks.append(Tok('num', txt, i, i + len(txt))); i += len(txt); continue
    toks.append(Tok('p', c, i, i + 1)); i += 1
  return toks


_OPEN = {'(': ')', '[': ']', '{': '}'}
_CLOSE = {')', ']', '}'}


def sig(toks: List[Tok]) -> List[int]:
  """indices of significant (non-ws, non-comment) tokens"""
  return [k for k, t in enumerate(toks) if t.kind not in ('ws', 'lc', 'bc')]


def match_close(toks: List[Tok], k: int) -> int:
  """index of the token closing the bracket opened at token index k"""
  depth = 0
  for j in range(k, len(toks)):
    t = toks[j]
    if t.kind != 'p': continue
    if t.text in _OPEN: depth += 1
    elif t.text in _CLOSE:
      depth -= 1
      if depth == 0: return j
  raise ScanError('unbalanced bracket at byte %d' % toks[k].start)


@dataclass
class Item:
  kind: str             # fn struct enum impl const static type use mod trait macro union
  name: str             # identifier; for impl: normalised header, e.g. "VecCursor<T>" or "Trace for X"
  start: int            # byte offset of the first attribute / doc comment / keyword
  end: int              # byte offset one past the last byte
  text: str
  header: str = ''      # for impl: text up to and including '{'
  children: List['Item'] = field(default_factory=list)
  body_open: int = -1   # byte offset (absolute) of the body '{' for fn/impl
  generics: str = ''    # for impl: text between `impl` and the type, e.g. "<T: Copy>"


_ITEM_KW = {'fn', 'struct', 'enum', 'impl', 'const', 'static', 'type', 'use', 'mod', 'trait',
            'macro_rules', 'union', 'extern'}
_QUAL = {'pub', 'unsafe', 'async', 'default'}


def _norm(s: str) -> str:
  return re.sub(r'\s+', ' ', s).strip()


def parse_items(src: str, toks: List[Tok], lo: int, hi: int) -> List[Item]:
  """items among tokens [lo, hi) (token indices), at one nesting level"""
  items: List[Item] = []
  k = lo
  while k < hi:
    t = toks[k]
    if t.kind in ('ws', 'bc') or (t.kind == 'lc' and not t.text.startswith('///')):
      k += 1; continue
    start_k = k
    # attributes and doc comments
    while k < hi:
      t = toks[k]
      if t.kind in ('ws', 'bc', 'lc'):
        k += 1; continue
      if t.kind == 'p' and t.text == '#':
        j = k + 1
        while toks[j].kind in ('ws',): j += 1
        if toks[j].kind == 'p' and toks[j].text == '!':
          j += 1
          while toks[j].kind in ('ws',): j += 1
        if not (toks[j].kind == 'p' and toks[j].text == '['):
          raise ScanError('bad attribute at byte %d' % t.start)
        k = match_close(toks, j) + 1
        continue
      break
    if k >= hi: break
    # skip leading non-doc comments captured above: recompute start at first attr/doc/keyword
    first = start_k
    while toks[first].kind in ('ws', 'bc') or (toks[first].kind == 'lc' and not toks[first].text.startswith('///')):
      first += 1
    # qualifiers
    while k < hi:
      t = toks[k]
      if t.kind in ('ws', 'lc', 'bc'): k += 1; continue
      if t.kind == 'id' and t.text in _QUAL:
        k += 1
        # pub(crate) / pub(super) / pub(in path)
        j = k
        while j < hi and toks[j].kind == 'ws': j += 1
        if t.text == 'pub' and j < hi and toks[j].kind == 'p' and toks[j].text == '(':
          k = match_close(toks, j) + 1
        continue
      break
    if k >= hi: break
    t = toks[k]
    if t.kind == 'p' and t.text == ';':
      k += 1; continue
    if not (t.kind == 'id' and t.text in _ITEM_KW):
      # macro invocation at item level (e.g. `impl_trace!(..);`) or something unknown: skip to ; or balanced {}
      j = k
      while j < hi:
        tj = toks[j]
        if tj.kind == 'p' and tj.text in _OPEN:
          j = match_close(toks, j)
          if tj.text == '{': j += 1; break
        elif tj.kind == 'p' and tj.text == ';':
          j += 1; break
        j += 1
      k = j
      continue
    kw = t.text
    kw_k = k
    k += 1
    if kw == 'const':
      # const fn / const unsafe fn / const NAME
      j = k
      while toks[j].kind in ('ws', 'lc', 'bc'): j += 1
      if toks[j].kind == 'id' and toks[j].text in ('fn', 'unsafe', 'async', 'extern'):
        while not (toks[j].kind == 'id' and toks[j].text == 'fn'): j += 1
        kw = 'fn'; kw_k = j; k = j + 1
    if kw == 'extern':
      # extern "C" fn ... / extern crate x; / extern "C" { }
      j = k
      while toks[j].kind in ('ws', 'lc', 'bc', 'str'): j += 1
      if toks[j].kind == 'id' and toks[j].text == 'fn':
        kw = 'fn'; kw_k = j; k = j + 1
    # find name
    j = k
    while toks[j].kind in ('ws', 'lc', 'bc'): j += 1
    name = ''
    generics = ''
    if kw == 'macro_rules':
      while not toks[j].kind == 'id': j += 1
      name = toks[j].text
    elif kw == 'impl':
      pass
    elif kw in ('use', 'extern'):
      name = ''
    else:
      if toks[j].kind != 'id':
        raise ScanError('expected name after %s at byte %d' % (kw, toks[j].start))
      name = toks[j].text
    # find end
    end_k = None
    body_open = -1
    j = k
    if kw in ('const', 'static', 'type', 'use', 'extern'):
      while True:
        tj = toks[j]
        if tj.kind == 'p' and tj.text in _OPEN: j = match_close(toks, j)
        elif tj.kind == 'p' and tj.text == ';': end_k = j; break
        j += 1
        if j >= hi: raise ScanError('unterminated %s %s' % (kw, name))
    else:
      while True:
        if j >= hi: raise ScanError('unterminated %s %s' % (kw, name))
        tj = toks[j]
        if tj.kind == 'p' and tj.text == '{':
          body_open = tj.start
          end_k = match_close(toks, j)
          bo_k = j
          break
        if tj.kind == 'p' and tj.text in ('(', '['):
          j = match_close(toks, j)
        elif tj.kind == 'p' and tj.text == ';':
          end_k = j; break
        j += 1
      if kw == 'macro_rules' and body_open < 0:
        pass
      if kw == 'macro_rules' and body_open >= 0:
        pass
      if kw == 'struct' and body_open < 0:
        pass
    # macro_rules! name ( ... ); form
    start = toks[first].start
    end = toks[end_k].end
    it = Item(kind='macro' if kw == 'macro_rules' else kw, name=name, start=start, end=end,
              text=src[start:end], body_open=body_open)
    if kw == 'impl':
      hdr = src[toks[kw_k].end:body_open]
      it.header = src[start:body_open + 1]
      h = _norm(hdr)
      # split leading generics
      if h.startswith('<'):
        depth = 0
        for q, ch in enumerate(h):
          if ch == '<': depth += 1
          elif ch == '>':
            depth -= 1
            if depth == 0:
              generics = h[:q + 1]; h = h[q + 1:].strip(); break
      it.generics = generics
      # strip where clause from the name
      h = re.split(r'\bwhere\b', h)[0].strip()
      it.name = h
      it.children = parse_items(src, toks, bo_k + 1, end_k)
    elif kw in ('mod', 'trait') and body_open >= 0:
      it.children = parse_items(src, toks, bo_k + 1, end_k)
    items.append(it)
    k = end_k + 1
  return items


class RustFile:
  def __init__(self, path: str, src: Optional[str] = None):
    self.path = path
    self.src = open(path, encoding='utf-8').read() if src is None else src
    self.toks = lex(self.src)
    self.items = parse_items(self.src, self.toks, 0, len(self.toks))

  def find(self, kind: str, name: str, nth: int = 0) -> Item:
    """top-level item by kind and name; for impl, `name` is the normalised header after generics
    (e.g. 'VecCursor<T>'); optional generics disambiguation via 'impl<T: Copy> VecCursor<T>'"""
    cands = [it for it in self.items if it.kind == kind and self._name_matches(it, name)]
    if len(cands) <= nth:
      raise ScanError('%s: item `%s %s` (#%d) not found' % (self.path, kind, name, nth))
    return cands[nth]

  @staticmethod
  def _name_matches(it: Item, name: str) -> bool:
    if it.kind != 'impl':
      return it.name == name
    want = _norm(name)
    if want.startswith('<'):
      return _norm(it.generics + ' ' + it.name) == want or _norm(it.generics + it.name) == want.replace('> ', '>', 1)
    return it.name == want

  def find_all_impls(self, name: str) -> List[Item]:
    return [it for it in self.items if it.kind == 'impl' and self._name_matches(it, name)]

  def method(self, impl_name: str, fn_name: str) -> Tuple[Item, Item]:
    for imp in self.find_all_impls(impl_name):
      for ch in imp.children:
        if ch.kind == 'fn' and ch.name == fn_name:
          return imp, ch
    raise ScanError('%s: method `%s::%s` not found' % (self.path, impl_name, fn_name))


# ------------------------------------------------------------------------------------------------
# function anatomy: signature / body / loops — computed on an item's *text* (possibly rewritten)

@dataclass
class FnAnatomy:
  text: str
  toks: List[Tok]
  fn_k: int           # token index of `fn`
  name: str
  params_open: int    # byte offsets within text
  params_close: int
  arrow: int          # byte offset of '->' or -1
  ret_start: int      # start of return type text (after '->' and ws) or -1
  ret_end: int        # end of return type text (before where/body)
  where_start: int    # byte offset of 'where' or -1
  body_open: int      # byte offset of '{'
  body_close: int     # byte offset of matching '}'
  loops: List[Tuple[str, int, int, int]]   # (keyword, kw_offset, body_open_offset, body_close_offset)


def fn_anatomy(text: str) -> FnAnatomy:
  toks = lex(text)
  # find the `fn` keyword at depth 0 (skip attributes)
  k = 0
  n = len(toks)
  fn_k = -1
  while k < n:
    t = toks[k]
    if t.kind == 'p' and t.text == '#':
      j = k + 1
      while toks[j].kind == 'ws': j += 1
      k = match_close(toks, j) + 1
      continue
    if t.kind == 'id' and t.text == 'fn':
      fn_k = k; break
    if t.kind == 'p' and t.text == '(':
      k = match_close(toks, k) + 1; continue
    k += 1
  if fn_k < 0: raise ScanError('no fn keyword in item text')
  j = fn_k + 1
  while toks[j].kind != 'id': j += 1
  name = toks[j].text
  # generics: skip <...> tracking angle depth (no `->` inside generics except Fn bounds; handle by counting)
  j += 1
  while toks[j].kind in ('ws', 'lc', 'bc'): j += 1
  if toks[j].kind == 'p' and toks[j].text == '<':
    depth = 0
    while True:
      tj = toks[j]
      if tj.kind == 'p' and tj.text == '<': depth += 1
      elif tj.kind == 'p' and tj.text == '>':
        if not (toks[j - 1].kind == 'p' and toks[j - 1].text == '-'):
          depth -= 1
          if depth == 0: j += 1; break
      elif tj.kind == 'p' and tj.text == '(':
        j = match_close(toks, j)
      j += 1
  while toks[j].kind in ('ws', 'lc', 'bc'): j += 1
  if not (toks[j].kind == 'p' and toks[j].text == '('):
    raise ScanError('fn %s: parameter list not found' % name)
  po = j
  pc = match_close(toks, po)
  # after params: optional -> type, optional where, then body {
  j = pc + 1
  arrow = ret_start = ret_end = where_start = -1
  body_open_k = -1
  while j < n:
    tj = toks[j]
    if tj.kind == 'p' and tj.text == '-' and toks[j + 1].kind == 'p' and toks[j + 1].text == '>' and arrow < 0 and where_start < 0:
      arrow = tj.start
      q = j + 2
      while toks[q].kind == 'ws': q += 1
      ret_start = toks[q].start
      j = q; continue
    if tj.kind == 'id' and tj.text == 'where' and where_start < 0:
      where_start = tj.start
      if arrow >= 0 and ret_end < 0: ret_end = _rstrip_off(text, tj.start)
    if tj.kind == 'p' and tj.text in ('(', '['):
      j = match_close(toks, j) + 1; continue
    if tj.kind == 'p' and tj.text == '{':
      body_open_k = j
      if arrow >= 0 and ret_end < 0: ret_end = _rstrip_off(text, tj.start)
      break
    if tj.kind == 'p' and tj.text == ';':
      raise ScanError('fn %s has no body' % name)
    j += 1
  if body_open_k < 0: raise ScanError('fn %s: body not found' % name)
  body_close_k = match_close(toks, body_open_k)
  loops = []
  k = body_open_k + 1
  while k < body_close_k:
    t = toks[k]
    if t.kind == 'id' and t.text in ('while', 'for', 'loop'):
      # `for<'a>` HRTB is not a loop
      q = k + 1
      while toks[q].kind in ('ws', 'lc', 'bc'): q += 1
      if t.text == 'for' and toks[q].kind == 'p' and toks[q].text == '<':
        k += 1; continue
      # body: first '{' at bracket depth 0 after the keyword
      q = k + 1
      while True:
        tq = toks[q]
        if tq.kind == 'p' and tq.text in ('(', '['):
          q = match_close(toks, q)
        elif tq.kind == 'p' and tq.text == '{':
          break
        q += 1
        if q >= body_close_k: raise ScanError('fn %s: loop body not found' % name)
      loops.append((t.text, t.start, toks[q].start, toks[match_close(toks, q)].start))
    k += 1
  return FnAnatomy(text=text, toks=toks, fn_k=fn_k, name=name,
                   params_open=toks[po].start, params_close=toks[pc].start,
                   arrow=arrow, ret_start=ret_start, ret_end=ret_end, where_start=where_start,
                   body_open=toks[body_open_k].start, body_close=toks[body_close_k].start, loops=loops)


def _rstrip_off(text: str, off: int) -> int:
  while off > 0 and text[off - 1].isspace(): off -= 1
  return off


def find_code(text: str, needle: str, nth: int = 0, lo: int = 0, hi: Optional[int] = None) -> Tuple[int, int]:
  """find the nth occurrence of `needle` in text[lo:hi] comparing whitespace-insensitively and ignoring
  matches inside comments/strings; returns (start, end) byte offsets in text"""
  hi = len(text) if hi is None else hi
  toks = [t for t in lex(text) if t.kind not in ('ws', 'lc', 'bc') and lo <= t.start < hi]
  ntoks = [t.text for t in lex(needle) if t.kind not in ('ws', 'lc', 'bc')]
  if not ntoks: raise ScanError('empty anchor')
  found = 0
  for i in range(len(toks) - len(ntoks) + 1):
    if all(toks[i + d].text == ntoks[d] for d in range(len(ntoks))):
      if found == nth:
        return toks[i].start, toks[i + len(ntoks) - 1].end
      found += 1
  raise ScanError('anchor `%s` (#%d) not found' % (needle, nth))
