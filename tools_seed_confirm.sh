#!/bin/bash
# confirms every seeded change with a demo.lay in a scratch worktree: output differs with the patch, baseline output restored without
WT=/tmp/wt_confirm
cd /repo && git worktree remove --force $WT 2>/dev/null; git worktree add -q --detach $WT HEAD || exit 1
cd $WT && cargo build -p laythe --offline 2>/dev/null
for d in /verif/seeded/*/; do
  id=$(basename $d)
  [ -f $d/demo.lay ] || { echo "$id: no demo.lay (unit-test demo)"; continue; }
  base=$(timeout 30 $WT/target/debug/laythe $d/demo.lay 2>&1 | sed 's/0x[0-9a-f]*//g' | md5sum)
  if ! git -C $WT apply $d/patch.diff 2>/dev/null; then echo "$id: PATCH DOES NOT APPLY"; continue; fi
  if ! (cd $WT && cargo build -p laythe --offline 2>/dev/null); then echo "$id: BUILD FAILS"; git -C $WT checkout -- .; continue; fi
  with=$(timeout 30 $WT/target/debug/laythe $d/demo.lay 2>&1 | sed 's/0x[0-9a-f]*//g' | md5sum)
  git -C $WT checkout -- .
  if [ "$base" != "$with" ]; then echo "$id: CONFIRMED (demo output differs with the patch)"; else echo "$id: NOT CONFIRMED (same output)"; fi
done
cd $WT && cargo build -p laythe --offline 2>/dev/null
cd /repo && git worktree remove --force $WT
