#!/usr/bin/env python3
"""writes MANIFEST.json from registry.py + manifest_text.py (single source of truth), and validates it"""
import json, os, sys
HERE = os.path.dirname(os.path.abspath(__file__))
sys.path.insert(0, HERE)
import registry, manifest_text as T

checks = []
for pid in sorted(registry.PROPS):
  t = T.CHECKS[pid]
  checks.append({
    'property_id': pid,
    'quick_cmd': 'bin/check %s --tier quick' % pid,
    'thorough_cmd': 'bin/check %s --tier thorough' % pid,
    'evidence_file': '/verif/evidence/%s.json' % pid,
    'replay_cmd_template': 'bin/check %s --replay {path}' % pid,
    'engine': t['engine'],
    'level_claimed': {'category': registry.PROPS[pid]['level'], 'text': t['level_text'], 'design_ref': t['design_ref']},
    'level_note': t['level_note'],
    'technique': t['technique'],
  })
props = [json.loads(l)['id'] for l in open(os.path.join(HERE, 'properties.jsonl'))]
na = [{'property_id': p, 'reason': T.NOT_APPLICABLE[p]} for p in props if p not in registry.PROPS]
m = {
  'version': 1,
  'setup_cmd': 'bin/setup',
  'hooks': T.HOOKS,
  'engines': T.ENGINES,
  'checks': checks,
  'notes': T.NOTES,
  'not_applicable': na,
}
json.dump(m, open(os.path.join(HERE, 'MANIFEST.json'), 'w'), indent=1)
import subprocess
r = subprocess.run(['python3-vt', '-c', "import json,jsonschema;jsonschema.validate(json.load(open('%s/MANIFEST.json')), json.load(open('/root/.vp/MANIFEST.schema.json')));print('MANIFEST.json valid')" % HERE], capture_output=True, text=True)
print(r.stdout.strip() or r.stderr.strip()[-500:], '- %d checks, %d not_applicable' % (len(checks), len(na)))
