#!/bin/bash
# runs the quick check of every listed (default: every claimed) property on the current tree and summarises
cd /verif
props=${@:-$(python3 -c "import registry; print(' '.join(sorted(registry.PROPS)))")}
for p in $props; do
  out=$(bin/check $p 2>&1); rc=$?
  echo "$p exit=$rc $(echo "$out" | tail -1 | cut -c1-160)"
done
