"""property -> the machinery that decides it (Verus units, Kani harness groups)"""

PROPS = {}

PROPS['C07'] = dict(
  level='proof',
  verus=[dict(unit='chanq', min_functions=10)],
  kani=[],
  not_decided=['resumption of a blocked synchronous sender is the scheduler\'s (C08), not decided here'],
)

_VALUE_H = ['proofs::o14_1_num_roundtrip', 'proofs::o14_2_bool_nil', 'proofs::o14_3_num_eq_ieee', 'proofs::o14_4_num_eq_hash',
            'proofs::o14_5_num_vs_other', 'proofs::o14_6_falsey', 'proofs::canary_num_domain']
PROPS['C14'] = dict(
  level='proof',
  kani=[dict(crate='value', harnesses=_VALUE_H, features='', kind='complete', assumption_ids=['A-nan', 'A-kani']),
        dict(crate='value', harnesses=_VALUE_H, features='nan_boxing', kind='complete', assumption_ids=['A-nan', 'A-kani'])],
  not_decided=['"same output for every program" beyond Value itself: the rest of the runtime is representation-agnostic by typing; stated, not proved'],
)

PROPS['C12'] = dict(
  level='proof',
  verus=[dict(unit='peephole', min_functions=18)],
  not_decided=['A-invoke: the instruction-set meaning of Invoke/SuperInvoke is an axiom here (VM side: C03/C13)',
               'A-delim: Call(n>0) is preceded by ArgumentDelimiter (emitted by Compiler::call, outside reach)',
               'A-raw: locals/boxes/captures/module symbols modelled as a store separate from the operand stack'],
)
