"""property -> the machinery that decides it (Verus units, Kani harness groups)"""

PROPS = {}

PROPS['C07'] = dict(
  level='proof',
  verus=[dict(unit='chanq', min_functions=10), dict(unit='ops', min_functions=2), dict(unit='splitcopy', min_functions=1), dict(unit='launchc', min_functions=1), dict(unit='parserret', min_functions=1), dict(unit='literalc', min_functions=1), dict(unit='signalvm', min_functions=1), dict(unit='basicvm', min_functions=1), dict(unit='fiberstate', min_functions=4), dict(unit='createfiber', min_functions=1)],
  kani=[],
  not_decided=['resumption of a blocked synchronous sender is the scheduler\'s (C08), not decided here'],
)

_VALUE_H = ['proofs::o14_1_num_roundtrip', 'proofs::o14_2_bool_nil', 'proofs::o14_3_num_eq_ieee', 'proofs::o14_4_num_eq_hash',
            'proofs::o14_5_num_vs_other', 'proofs::o14_6_falsey', 'proofs::o14_7_eq_reflexive', 'proofs::canary_num_domain']
PROPS['C14'] = dict(
  level='proof',
  kani=[dict(crate='value', harnesses=_VALUE_H, features='', kind='complete', assumption_ids=['A-nan', 'A-kani']),
        dict(crate='value', harnesses=_VALUE_H, features='nan_boxing', kind='complete', assumption_ids=['A-nan', 'A-kani'])],
  not_decided=['"same output for every program" beyond Value itself: the rest of the runtime is representation-agnostic by typing; stated, not proved'],
)

PROPS['C12'] = dict(
  level='proof',
  verus=[dict(unit='peephole', min_functions=18), dict(unit='pipeline', min_functions=1), dict(unit='narrowc', min_functions=1)],
  not_decided=['A-invoke: the instruction-set meaning of Invoke/SuperInvoke is an axiom here (VM side: C03/C13)',
               'A-delim: Call(n>0) is preceded by ArgumentDelimiter — discharged for Compiler::call in the narrowc unit; Launch / invoke paths still assumed',
               'A-raw: locals/boxes/captures/module symbols modelled as a store separate from the operand stack'],
)

def _findings_variant(only):
  return dict(unit='peephole', variant='findings', only=only)
_FINDINGS_VARIANT = _findings_variant(['apply_stack_effects', 'spec:handler_depth_is_live_depth', 'spec:max_slots_covers_live_depth'])

PROPS['C06'] = dict(
  level='proof',
  verus=[dict(unit='peephole', min_functions=4), dict(unit='bytecode', min_functions=10), dict(unit='ops', min_functions=30), dict(unit='iterops', min_functions=2), dict(unit='mapops', min_functions=1), dict(unit='retops', min_functions=1), dict(unit='launchops', min_functions=1), dict(unit='compilerd', min_functions=2), dict(unit='funcc', min_functions=1), dict(unit='narrowc', min_functions=4), dict(unit='limitsc', min_functions=3), dict(unit='pipeline', min_functions=1), _FINDINGS_VARIANT, dict(unit='scopec', min_functions=6), dict(unit='dispatchvm', min_functions=1), dict(unit='operandvm', min_functions=3), dict(unit='rawstack', min_functions=6), dict(unit='popframe', min_functions=2)],
  not_decided=['O-06.9 constants/locals/captures/cache indices in range: carried by Compiler methods outside reach',
               'A-shape: labels unique and dense, jump direction (compiler output shape) — assumed BY NAME at the composition point of peephole_compile (pipeline unit), not scattered over callers',
               'A-fiber: push_frame/ensure_stack reserve max_slots above the arguments (raw-pointer code, unverified)',
               'eff table vs the real op_* handlers: see the ops unit (C01/C16) for the handlers it covers'],
)
PROPS['C15'] = dict(
  level='proof',
  verus=[dict(unit='peephole', min_functions=18), dict(unit='bytecode', min_functions=5), dict(unit='lines', min_functions=1), dict(unit='pipeline', min_functions=1), dict(unit='parserd', min_functions=5), dict(unit='resolverd', min_functions=2), dict(unit='scannerd', min_functions=9), dict(unit='narrowc', min_functions=4), dict(unit='limitsc', min_functions=4), dict(unit='resolvevar', min_functions=1), dict(unit='resolvestmt', min_functions=10), _findings_variant(['apply_stack_effects']), dict(unit='dispatchr', min_functions=3), dict(unit='blockr', min_functions=2), dict(unit='parsertok', min_functions=4)],
  not_decided=['Compiler totality, the scanner keyword trie (identifier_type: str slicing) and its constructor, all of the resolver except for_ / while_ (resolverd unit), all of the parser except its loop-depth bookkeeping (parserd unit: loop_, break_, continue_, function, lambda, fun_body); REPL continuation'],
)
PROPS['C18'] = dict(
  level='proof',
  verus=[dict(unit='bytecode', min_functions=10), dict(unit='peephole', min_functions=8), dict(unit='lines', min_functions=6), dict(unit='pipeline', min_functions=1), dict(unit='unwind', min_functions=2), dict(unit='scannerd', min_functions=6), dict(unit='parserd', min_functions=1), dict(unit='exitpath', min_functions=2), dict(unit='signalvm', min_functions=1), dict(unit='unwindvm', min_functions=1)],
  not_decided=['the text of each traceback line (which frame, ip and code offset it is computed from IS decided), the Exit native narrowing its argument to u16 (exit(70000), exit(-1)), process::exit in main.rs'],
)
PROPS['C04'] = dict(
  level='proof',
  verus=[dict(unit='peephole', min_functions=2), dict(unit='bytecode', min_functions=1), dict(unit='ops', min_functions=6), dict(unit='unwind', min_functions=6), dict(unit='hooks', min_functions=2), dict(unit='compilerd', min_functions=6), dict(unit='catchd', min_functions=1), _findings_variant(['spec:handler_depth_is_live_depth']), dict(unit='parsertry', min_functions=1), dict(unit='parserret', min_functions=1), dict(unit='unwindvm', min_functions=1)],
  not_decided=['PopHandler emission: return / break / continue / try itself ARE decided (compilerd unit); that statements are compiled at the try depth of their enclosing try blocks is the composition of those contracts over the AST (each step checked, the induction not)', 'A-hist: the pointers already collected for an error do not reach below the frame now searched (pause_unwind precondition)',
               'the raw-pointer stores of stack_unwind (ip, stack top, current frame) are one stub (vx/units/unwind/prelude.rs); Vm::stack_unwind / execute loop around it'],
)

PROPS['C01'] = dict(
  level='proof',
  verus=[dict(unit='ops', min_functions=20), dict(unit='native', min_functions=3), dict(unit='retops', min_functions=1), dict(unit='mapops', min_functions=1), dict(unit='iterops', min_functions=2), dict(unit='launchops', min_functions=1), dict(unit='funcc', min_functions=1), dict(unit='compilerd', min_functions=2), dict(unit='forc', min_functions=1), dict(unit='prattops', min_functions=8), dict(unit='prattloop', min_functions=1), dict(unit='calls', min_functions=4), dict(unit='scopec', min_functions=8), dict(unit='parserblk', min_functions=2), dict(unit='parserd', min_functions=6), dict(unit='limitsc', min_functions=2), dict(unit='parserret', min_functions=5), dict(unit='parserasg', min_functions=4), dict(unit='parserloop', min_functions=2), dict(unit='parserstmt', min_functions=1), dict(unit='parsertry', min_functions=1), dict(unit='launchc', min_functions=1), dict(unit='methodc', min_functions=2), dict(unit='literalc', min_functions=5), dict(unit='dispatchc', min_functions=3), dict(unit='dispatchvm', min_functions=1), dict(unit='basicvm', min_functions=1), dict(unit='operandvm', min_functions=3), dict(unit='rawstack', min_functions=6), dict(unit='popframe', min_functions=2), dict(unit='blockc', min_functions=2), dict(unit='parsertok', min_functions=4)],
  kani=[dict(crate='front', harnesses=['proofs::o01_p_infix_table', 'proofs::o01_p_infix_action', 'proofs::o01_p_prefix_action', 'proofs::o01_p_higher', 'proofs::o01_p_prefix_table'], kind='complete', assumption_ids=['A-kani']),
        dict(crate='value', harnesses=['proofs::o14_6_falsey', 'proofs::o14_3_num_eq_ieee'], features='', kind='complete', assumption_ids=['A-kani']),
        dict(crate='value', harnesses=['proofs::o14_6_falsey', 'proofs::o14_3_num_eq_ieee'], features='nan_boxing', kind='complete', assumption_ids=['A-kani'])],
  not_decided=['the statement and primary-expression parsers (parser.rs outside parse_precedence / prefix / infix / binary / and / or / unary / ternary / expr / stmt / block / expr_stmt / try_block / return_ / if_ / while_ / for_ / let_ / assign / method / function / lambda / fun_body), module-level declarations (declare_module_variable / define_module_variable), let_ and block themselves',
               'the frame layout behind push_frame / pop_frame (Fiber is a model: a frame is (function, captures, argument count))',
               'A-float: IEEE operators are named, uninterpreted functions of (left, right)'],
)
PROPS['C02'] = dict(
  level='proof',
  verus=[dict(unit='ops', min_functions=8), dict(unit='captures', min_functions=3), dict(unit='resolverd', min_functions=1), dict(unit='catchd', min_functions=1), dict(unit='limitsc', min_functions=2), dict(unit='resolvevar', min_functions=9), dict(unit='varcomp', min_functions=5), dict(unit='resolvestmt', min_functions=5), dict(unit='funcc', min_functions=1), dict(unit='forc', min_functions=1), dict(unit='dispatchr', min_functions=3), dict(unit='blockr', min_functions=2)],
  explanation='the VM half only: the box / capture handlers and op_closure; the resolver and compiler half of the capture protocol is outside reach',
  not_decided=['which variables the resolver marks as captured, which CaptureIndex operands the compiler emits (resolve_capture / add_capture), fresh variables per loop iteration / call as a COMPILER property (EmptyBox / Box placement), name resolution (innermost declaration)',
               'A-shape preconditions of the handlers: a Local operand names a frame slot that holds a box, an Enclosing operand an existing capture; A-enc: the capture operand decodes to what the encoder wrote'],
)
PROPS['C03'] = dict(
  level='proof',
  verus=[dict(unit='ops', min_functions=10), dict(unit='peephole', min_functions=2), dict(unit='klass', min_functions=4), dict(unit='calls', min_functions=1), dict(unit='ncall', min_functions=1), dict(unit='propcomp', min_functions=9), dict(unit='fieldsc', min_functions=1), dict(unit='classc', min_functions=1), dict(unit='compilerd', min_functions=1), dict(unit='splitcopy', min_functions=1), dict(unit='methodc', min_functions=2)],
  not_decided=['compile-time field numbering vs run-time Field order: emit_fields emits the Field instructions in the order find_known_field numbers them (fieldsc unit) and op_field / add_field give slots in arrival order (ops, klass); the initialiser is compiled before emit_fields and the methods after, with the new class current for exactly its members (classc unit), meta classes (meta_from_super), is_subclass (pointer recursion)',
               'A-heap: in the ops unit the class tables are abstract functions; that a field keeps its slot and a subclass extends its parent numbering is proved in the klass unit; A-slot'],
)
PROPS['C13'] = dict(
  level='proof',
  verus=[dict(unit='ops', min_functions=12), dict(unit='klass', min_functions=4), dict(unit='cachetrace', min_functions=1), dict(unit='propcomp', min_functions=6), dict(unit='fieldsc', min_functions=1), dict(unit='classc', min_functions=1), dict(unit='cacheidx', min_functions=1)],
  not_decided=['A-slot: every slot id in live code of a module is inside that module\'s cache and belongs to one site with one name (established by Vm::compile; false for REPL entries, see C19)',
               'A-classid: a class address identifies one class for as long as it sits in a cache: holds since fix ae3a806 made the caches roots (D21; the root-set obligation is in the gctrace unit, that InlineCache::trace reaches every entry in the cachetrace unit)'],
)
PROPS['C16'] = dict(
  level='proof',
  verus=[dict(unit='ops', min_functions=40), dict(unit='native', min_functions=4), dict(unit='calls', min_functions=6), dict(unit='ncall', min_functions=3), dict(unit='chanq', min_functions=10), dict(unit='unwind', min_functions=6), dict(unit='hooks', min_functions=3), dict(unit='iterops', min_functions=2), dict(unit='mapops', min_functions=1), dict(unit='fiberstack', min_functions=2), dict(unit='cacheidx', min_functions=1), dict(unit='natargs', min_functions=100), dict(unit='sigkind', min_functions=1), dict(unit='splitcopy', min_functions=1), dict(unit='signalvm', min_functions=1), dict(unit='fiberstate', min_functions=4)],
  kani=[dict(crate='value', harnesses=['proofs::o16_f64_cast_positive'], kind='complete', extra=['-Z', 'unstable-options', '--no-overflow-checks'], timeout=600, jobs=1, assumption_ids=['A-kani'])],
  not_decided=['the ~150 native bodies themselves (the signature gate and the fact that call_native runs a body only behind it ARE proved; that each body assumes no more than its declared signature is not), errors during handling; the front end (C15); debug-only assert_roots accounting (R3d)',
               'A-float: axiom_integral_cast_positive used by op_buffered_channel is discharged by the complete Kani harness o16_f64_cast_positive'],
)
_HEAP_COMPLETE = ['proofs::o20_2_next_aligned', 'proofs::o20_2_array_layout_str', 'proofs::o20_2_array_layout_tuple', 'proofs::o20_2_array_layout_instance',
                  'proofs::o20_2_vector_layout_list', 'proofs::o20_2_obj_layout_fixed']
_HEAP_BOUNDED = ['proofs::o20_1_alloc_drop_string', 'proofs::o20_1_alloc_drop_tuple', 'proofs::o20_1_alloc_drop_box', 'proofs::o20_1_alloc_drop_method',
                 'proofs::o20_1_alloc_drop_list', 'proofs::o20_1_alloc_drop_instance_block', 'proofs::o20_3_unique_vector_handle', 'proofs::o20_3_shared_vector_handle', 'proofs::o20_3_array_handle']
_GC_BOUNDED = ['proofs::o20_4_full_collection_exact', 'proofs::o20_4n_nursery_collection_exact', 'proofs::o20_4p_promoted_then_full_exact']
_GC_C05 = ['proofs::o05_4_marks_cleared', 'proofs::o05_4_temp_root_survives', 'proofs::o20_4_full_collection_exact', 'proofs::o05_5_inflight_obj_survives', 'proofs::o05_5_inflight_alloc_survives']
_GC_C09 = ['proofs::o09_intern_twice', 'proofs::o09_intern_across_collection']
PROPS['C20'] = dict(
  level='proof',
  verus=[dict(unit='gcglue', min_functions=7), dict(unit='ncall', min_functions=2), dict(unit='createfiber', min_functions=1)],
  kani=[dict(crate='heap', harnesses=_HEAP_COMPLETE, kind='complete', assumption_ids=['A-kani']),
        dict(crate='heap', harnesses=_HEAP_BOUNDED, kind='bounded', bound='string <= 3 bytes, tuple <= 3 elements, list/vector len <= 2 cap <= 4, array <= 3, unwind 8', assumption_ids=['A-kani', 'A-bound']),
        dict(crate='gc', harnesses=_GC_BOUNDED, kind='bounded', bound='one LyBox, one or two collections, unwind 4', timeout=2400, jobs=4,
             assumption_ids=['A-kani', 'A-bound', 'A-stub'])],
  not_decided=['the bodies of the three sweeps are bounded Kani only (the gcglue unit assumes their contracts: keep the marked, clear the marks, return the bytes left)', 'long-run boundedness (follows by arithmetic from exact accounting after every collection and a full collection at least every 10th; stated, not proved)',
               'gc_stress / gc_log_* builds (the default feature set is what is extracted, R3c)'],
)

PROPS['C05'] = dict(
  level='proof',
  verus=[dict(unit='gctrace', min_functions=34), dict(unit='klass', min_functions=2), dict(unit='gcglue', min_functions=8), dict(unit='cachetrace', min_functions=1), dict(unit='ncall', min_functions=2)],
  kani=[dict(crate='trace', harnesses=['proofs::o05_2_dispatch_%s' % k for k in ['channel', 'class', 'closure', 'enumerator', 'fun', 'instance', 'list', 'method', 'native', 'string', 'lybox', 'tuple']],
             kind='bounded', bound='12 of 13 object kinds (Map excluded: generic impl cannot be stubbed), one raw object per kind, unwind 15', timeout=1200, jobs=4, mem_gb=12, assumption_ids=['A-kani', 'A-stub', 'A-bound']),
        dict(crate='gc', harnesses=_GC_C05, kind='bounded', bound='one LyBox, one or two collections, unwind 4', timeout=2400, jobs=3, assumption_ids=['A-kani', 'A-stub', 'A-bound'])],
  explanation='Verus: every trace body reaches every GC-typed field of its struct (contracts generated from the real struct definitions), mark-guarded handles and the 13-kind dispatch; Kani (bounded): the real dispatch and the real Allocator sweep',
  not_decided=['natives\' push_root discipline (temporary roots around allocations in natives and in the compiler), "same output under every collection schedule"',
               'the tri-colour invariant over the whole heap (marked objects have their children traced before the sweep) is an induction over the object graph, not stated',
               'A-alias: Class.init aliases an entry of Class.methods (exempted field in gctrace): proved as an invariant of add_method / inherit in the klass unit under the premise that the name "init" is interned once (C09)', 'ChannelWaiter.waiter (Box<dyn TraceAny>) and Value::trace itself (two cfg variants) are leaves of the model'],
)
PROPS['C09'] = dict(
  level='proof',
  verus=[dict(unit='intern', min_functions=3), dict(unit='gcglue', min_functions=1)],
  kani=[dict(crate='gc', harnesses=['proofs::o09_intern_evicts_unrooted', 'proofs::o09_intern_keeps_rooted', 'proofs::o09_intern_promoted_survives_nursery'], kind='bounded', tier='thorough',
             bound='one 2-byte string, one full collection, unwind 10 (12-15 min each in CBMC: hashbrown; o09_intern_twice did not finish in 40 min and is not registered)', timeout=3000, jobs=3, mem_gb=16,
             assumption_ids=['A-kani', 'A-stub', 'A-bound'])],
  not_decided=['that every string-producing native and op goes through manage_str', 'Value equality/hash of strings is identity (C14 covers Value): identity == content only for interned strings',
               'A-std: the hashbrown table behaves as a mathematical map keyed by string content (vx/units/intern/prelude.rs)'],
)
PROPS['C10'] = dict(
  level='proof',
  verus=[dict(unit='listops', min_functions=6), dict(unit='gctrace', min_functions=1)],
  kani=[dict(crate='coll', harnesses=['proofs::o10r_value_identity_no_growth'], kind='bounded', bound='two lists of one element', timeout=900, jobs=1, assumption_ids=['A-kani', 'A-bound']),
        dict(crate='coll', harnesses=['proofs::o10_push_grows', 'proofs::o10_value_identity_across_growth'], kind='bounded', bound='one list len 1 cap 1, one push', timeout=1800, jobs=2, mem_gb=16,
             assumption_ids=['A-kani', 'A-stub', 'A-bound']),
        dict(crate='coll', harnesses=['proofs::o10_stale_pop', 'proofs::o10_stale_index_set'], kind='bounded', bound='forwarded list, relocated len <= 3, cap 3', timeout=1800, jobs=2, mem_gb=16,
             assumption_ids=['A-kani', 'A-bound']),
        dict(crate='coll', harnesses=['proofs::o10_stale_push', 'proofs::o10_stale_remove', 'proofs::o10_stale_insert'], kind='bounded', bound='forwarded list, relocated len <= 3, cap 3, every index 0..4, no second growth',
             tier='thorough', timeout=2400, jobs=3, mem_gb=20, assumption_ids=['A-kani', 'A-bound'])],
  explanation='Verus: the real List operations against a sequence model through any handle, with growth and forwarding (unbounded); Kani (bounded) on the real raw vector representation; Value identity across growth is a known finding',
  not_decided=['which aliases scan_roots rewrites; maps, instances and other mutable objects (they never relocate: identity is the address)'],
)
PROPS['C11'] = dict(
  level='proof',
  kani=[dict(crate='lib', harnesses=['proofs::o11_determine_index', 'proofs::o11_list_determine_index'], kind='complete', extra=['-Z', 'unstable-options', '--no-overflow-checks'], timeout=900, jobs=2, assumption_ids=['A-kani']),
        dict(crate='coll', harnesses=['proofs::o11_pop'], kind='bounded', bound='list len <= 2, cap 3', timeout=900, jobs=1, assumption_ids=['A-kani', 'A-bound']),
        dict(crate='coll', harnesses=['proofs::o11_remove', 'proofs::o11_insert'], kind='bounded', bound='list len <= 3, cap 3, every index 0..4', tier='thorough', timeout=1800, jobs=2, assumption_ids=['A-kani', 'A-bound'])],
  verus=[dict(unit='listops', min_functions=6), dict(unit='native', min_functions=1), dict(unit='ncall', min_functions=1), dict(unit='natargs', min_functions=100), dict(unit='iteradapt', min_functions=3), dict(unit='sigkind', min_functions=1), dict(unit='strlen', min_functions=2)],
  explanation='Verus proof of the real List push / pop / insert / remove against the sequence model (unbounded, with growth); loop-free Kani proof of index normalisation over every f64 (receiver length <= 8), bounded Kani checks of List buffer edits against a sequence model, Verus proof of the native signature gate',
  not_decided=['iterator adaptors, string natives, map natives, tuple/list natives other than index normalisation (callbacks, Hooks, str)'],
)
PROPS['C17'] = dict(
  level='proof',
  verus=[dict(unit='module', min_functions=7), dict(unit='imports', min_functions=3), dict(unit='ops', min_functions=3), dict(unit='importpath', min_functions=1), dict(unit='findmod', min_functions=1)],
  not_decided=['once-only execution of a module body needs import_module / load_missing_module (file system, PathBuf, compile) which are NOT under contract: the handlers are proved against an uninterpreted loader answer',
               'import path resolution (full_import_path string building: two paths must not collide), module_instance construction, the package tree',
               'A-std: hashbrown map/set behave as mathematical map/set (stubs in vx/units/module/prelude.rs)'],
)
