//! C14 — both value representations implement the same language.
//! The same harness bodies are verified twice: default features (tagged enum) and `--features nan_boxing`.
//! Every harness here is loop-free over full-domain symbolic inputs, i.e. a complete proof (no unwinding bound).
#![allow(unused)]
use laythe_core::value::{Value, ValueKind, VALUE_FALSE, VALUE_NIL, VALUE_TRUE, VALUE_UNDEFINED, Nil};
use std::hash::{Hash, Hasher};

/// quiet-NaN tag used by the boxed representation (laythe_core::value::boxed::QNAN is private).
/// A-nan: numbers that reach a Value never have all of these bits set (hardware arithmetic produces
/// 0x7ff8_0000_0000_0000 / 0xfff8_0000_0000_0000 as its NaN; payload bit 50 stays clear).
pub const QNAN: u64 = 0x7ffc_0000_0000_0000;

/// a hasher that records exactly what was fed to it (so "equal hashes" means "equal hash input")
#[derive(Default, Clone, Copy, PartialEq, Eq)]
pub struct Rec { pub acc: u64, pub n: u32 }
impl Hasher for Rec {
  fn finish(&self) -> u64 { self.acc }
  fn write(&mut self, bytes: &[u8]) {
    // loop-free: Value::hash only ever writes 1-, 4- or 8-byte integers (u8/u32/u64/isize/usize)
    let mut b = [0u8; 8];
    let l = if bytes.len() < 8 { bytes.len() } else { 8 };
    if l > 0 { b[0] = bytes[0]; }
    if l > 1 { b[1] = bytes[1]; }
    if l > 2 { b[2] = bytes[2]; }
    if l > 3 { b[3] = bytes[3]; }
    if l > 4 { b[4] = bytes[4]; }
    if l > 5 { b[5] = bytes[5]; }
    if l > 6 { b[6] = bytes[6]; }
    if l > 7 { b[7] = bytes[7]; }
    self.acc = self.acc.rotate_left(13) ^ u64::from_le_bytes(b) ^ (l as u64) << 56;
    self.n += 1;
  }
}
pub fn rec_hash(v: &Value) -> Rec { let mut h = Rec::default(); v.hash(&mut h); h }

pub fn any_num_bits() -> u64 {
  #[cfg(kani)]
  { let bits: u64 = kani::any(); kani::assume((bits & QNAN) != QNAN); bits }
  #[cfg(not(kani))]
  { 0 }
}

pub fn kinds_true(v: &Value) -> u32 {
  (v.is_nil() as u32) + (v.is_bool() as u32) + (v.is_num() as u32) + (v.is_obj() as u32) + (v.is_undefined() as u32)
}

// ---- the contracts, as executable predicates, so that native replay runs the same text ----

/// O-14.1 every number round-trips bit for bit and is a number and nothing else
pub fn c_num_roundtrip(bits: u64) -> bool {
  let v = Value::from(f64::from_bits(bits));
  v.is_num() && kinds_true(&v) == 1 && v.to_num().to_bits() == bits && v.kind() == ValueKind::Number
}

/// O-14.3 numbers compare by IEEE rules
pub fn c_num_eq_ieee(a: u64, b: u64) -> bool {
  let (fa, fb) = (f64::from_bits(a), f64::from_bits(b));
  (Value::from(fa) == Value::from(fb)) == (fa == fb)
}

/// O-14.4 equal values feed equal input to a hasher (map keys behave identically)
pub fn c_num_eq_hash(a: u64, b: u64) -> bool {
  let (va, vb) = (Value::from(f64::from_bits(a)), Value::from(f64::from_bits(b)));
  !(va == vb) || rec_hash(&va) == rec_hash(&vb)
}

/// O-14.5 a number never equals a non-number
pub fn c_num_vs_other(a: u64) -> bool {
  let v = Value::from(f64::from_bits(a));
  v != VALUE_NIL && v != VALUE_TRUE && v != VALUE_FALSE && v != VALUE_UNDEFINED
    && VALUE_NIL != v && VALUE_TRUE != v && VALUE_FALSE != v
}

/// O-14.2 booleans and nil round-trip; the kind predicates partition
pub fn c_bool_nil(b: bool) -> bool {
  let v = Value::from(b);
  let n = Value::from(Nil());
  v.is_bool() && kinds_true(&v) == 1 && v.to_bool() == b && v.is_false() == !b && v.kind() == ValueKind::Bool
    && n.is_nil() && kinds_true(&n) == 1 && n.kind() == ValueKind::Nil && !n.is_false()
    && n == VALUE_NIL && v == (if b { VALUE_TRUE } else { VALUE_FALSE })
    && v != n && Value::from(!b) != v && Value::from(b) == v
    && kinds_true(&VALUE_UNDEFINED) == 1 && VALUE_UNDEFINED.is_undefined() && VALUE_UNDEFINED.kind() == ValueKind::Undefined
    && VALUE_UNDEFINED != v && VALUE_UNDEFINED != n
    && rec_hash(&v) == rec_hash(&Value::from(b)) && rec_hash(&n) == rec_hash(&VALUE_NIL)
}

/// O-14.6 falsiness: only nil and false (laythe_core::utils::is_falsey is `is_nil() || is_false()`)
pub fn c_falsey_num(a: u64) -> bool {
  let v = Value::from(f64::from_bits(a));
  !laythe_core::utils::is_falsey(v)
}
pub fn c_falsey_consts() -> bool {
  laythe_core::utils::is_falsey(VALUE_NIL) && laythe_core::utils::is_falsey(VALUE_FALSE)
    && !laythe_core::utils::is_falsey(VALUE_TRUE)
}

/// O-14.7 equality is reflexive on every value that is not a NaN (the runtime tests `== VALUE_UNDEFINED`, `== VALUE_NIL`, ...)
pub fn c_eq_reflexive(a: u64) -> bool {
  let f = f64::from_bits(a);
  let v = Value::from(f);
  VALUE_NIL == VALUE_NIL && VALUE_TRUE == VALUE_TRUE && VALUE_FALSE == VALUE_FALSE && VALUE_UNDEFINED == VALUE_UNDEFINED
    && (v == v) == !f.is_nan()
    && rec_hash(&VALUE_UNDEFINED) == rec_hash(&VALUE_UNDEFINED)
}

/// A-float (used as an axiom by the Verus ops unit for op_buffered_channel): an f64 with no fractional part that is not below
/// 1.0 casts to a usize >= 1 (NaN and the infinities have a non-zero `fract()` in the sense of `!= 0.0`)
pub fn c_f64_cast_positive(bits: u64) -> bool {
  let c = f64::from_bits(bits);
  if !(c.fract() != 0.0) && !(c < 1.0) { (c as usize) >= 1 } else { true }
}

#[cfg(kani)]
mod proofs {
  use super::*;

  #[kani::proof]
  fn o16_f64_cast_positive() { assert!(c_f64_cast_positive(kani::any())); }

  #[kani::proof]
  fn o14_1_num_roundtrip() { assert!(c_num_roundtrip(any_num_bits())); }

  #[kani::proof]
  fn o14_3_num_eq_ieee() { assert!(c_num_eq_ieee(any_num_bits(), any_num_bits())); }

  #[kani::proof]
  fn o14_4_num_eq_hash() { assert!(c_num_eq_hash(any_num_bits(), any_num_bits())); }

  #[kani::proof]
  fn o14_5_num_vs_other() { assert!(c_num_vs_other(any_num_bits())); }

  #[kani::proof]
  fn o14_2_bool_nil() { assert!(c_bool_nil(kani::any())); }

  #[kani::proof]
  fn o14_6_falsey() { assert!(c_falsey_num(any_num_bits())); assert!(c_falsey_consts()); }

  #[kani::proof]
  fn o14_7_eq_reflexive() { assert!(c_eq_reflexive(any_num_bits())); }

  /// vacuity guard: the number domain assumed above is inhabited by the special values the property names
  #[kani::proof]
  fn canary_num_domain() {
    let bits = any_num_bits();
    kani::cover!(bits == 0x8000_0000_0000_0000, "-0.0");
    kani::cover!(bits == 0x7ff8_0000_0000_0000, "f64::NAN");
    kani::cover!(bits == 0xfff8_0000_0000_0000, "-NaN");
    kani::cover!(bits == 0x7ff0_0000_0000_0000, "inf");
    kani::cover!(bits == 1, "subnormal");
  }
}
