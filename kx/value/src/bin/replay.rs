//! native replay of a Kani counterexample against the real laythe_core (ordinary rustc, no Kani):
//! `replay <contract> <u64 args...>`; exit 0 = the contract holds on this input, 1 = it does not.
use kx_value::*;
fn main() {
  let a: Vec<String> = std::env::args().collect();
  let n = |i: usize| -> u64 { a.get(i).map(|s| s.parse::<u64>().expect("u64 argument")).unwrap_or(0) };
  let ok = match a.get(1).map(|s| s.as_str()).unwrap_or("") {
    "o14_1_num_roundtrip" => c_num_roundtrip(n(2)),
    "o14_3_num_eq_ieee" | "o14_3r_num_eq_ieee_residual" => c_num_eq_ieee(n(2), n(3)),
    "o14_4_num_eq_hash" => c_num_eq_hash(n(2), n(3)),
    "o14_5_num_vs_other" => c_num_vs_other(n(2)),
    "o16_f64_cast_positive" => c_f64_cast_positive(n(2)),
    "o14_2_bool_nil" => c_bool_nil(n(2) != 0),
    "o14_7_eq_reflexive" => c_eq_reflexive(n(2)),
    "o14_6_falsey" => c_falsey_num(n(2)) && c_falsey_consts(),
    other => { eprintln!("unknown contract {other}"); std::process::exit(2) },
  };
  println!("contract {} on {:?}: {}", a[1], &a[2..], if ok { "HOLDS" } else { "VIOLATED" });
  std::process::exit(if ok { 0 } else { 1 });
}
