//! C20 — heap blocks are released with the layout they were obtained with; layout arithmetic is exact.
//! Calls the real laythe_core functions through the `verif` re-exports.
#![allow(unused)]
use laythe_core::managed::{AllocObjResult, AllocateObj};
use laythe_core::object::{InstanceHeader, LyBox, LyStr, Method, ObjHeader, Tuple};
use laythe_core::value::{Value, VALUE_NIL};
use laythe_core::verif::{
  get_array_len_offset, get_array_offset, get_offset, get_vector_cap_offset, get_vector_len_offset, get_vector_offset,
  make_array_layout, make_obj_layout, make_vector_layout, max_array_align, max_vector_align, next_aligned,
};
use std::mem::{align_of, size_of};

// ---- O-20.2 layout arithmetic: contracts as executable predicates (native replay runs the same text) ----

/// next_aligned(n, a) for a power-of-two a is the least multiple of a that is >= n
pub fn c_next_aligned(n: usize, shift: usize) -> bool {
  let a = 1usize << (shift % 10);
  if n > usize::MAX / 2 { return true; }
  let r = next_aligned(n, a);
  r >= n && r - n < a && r % a == 0
}

macro_rules! array_layout_contract {
  ($name:ident, $h:ty, $t:ty) => {
    /// make_array_layout::<H,T>(len): size is exactly offset + len * size_of::<T>(), the element area is aligned
    /// for T and starts after the header and the length word, and the layout's alignment covers H, usize and T
    pub fn $name(len: usize) -> bool {
      let off = get_array_offset::<$h, $t>();
      let lo = get_array_len_offset::<$h>();
      if len > (isize::MAX as usize - off - 64) / size_of::<$t>().max(1) { return true; }
      let l = make_array_layout::<$h, $t>(len);
      l.size() == off + len * size_of::<$t>()
        && off % align_of::<$t>() == 0
        && lo >= size_of::<$h>() && lo % align_of::<usize>() == 0
        && off >= lo + size_of::<usize>()
        && l.align() >= align_of::<$h>() && l.align() >= align_of::<$t>() && l.align() >= align_of::<usize>()
        && l.align() == max_array_align::<$h, $t>()
    }
  };
}
array_layout_contract!(c_array_layout_str, ObjHeader, u8);
array_layout_contract!(c_array_layout_tuple, ObjHeader, Value);
array_layout_contract!(c_array_layout_instance, InstanceHeader, Value);

/// make_vector_layout::<ObjHeader, Value>(cap) for lists
pub fn c_vector_layout_list(cap: usize) -> bool {
  let off = get_vector_offset::<ObjHeader, Value>();
  let lo = get_vector_len_offset::<ObjHeader>();
  let co = get_vector_cap_offset::<ObjHeader>();
  if cap > (isize::MAX as usize - off - 64) / size_of::<Value>() { return true; }
  let l = make_vector_layout::<ObjHeader, Value>(cap);
  l.size() == off + cap * size_of::<Value>()
    && off % align_of::<Value>() == 0
    && lo >= size_of::<ObjHeader>() && co >= lo + size_of::<usize>() && off >= co + size_of::<usize>()
    && l.align() == max_vector_align::<ObjHeader, Value>() && l.align() >= align_of::<Value>()
}

/// make_obj_layout::<ObjHeader, T>() for fixed-size kinds: [header | pad | T]
pub fn c_obj_layout_fixed() -> bool {
  fn one<T>() -> bool {
    let l = make_obj_layout::<ObjHeader, T>();
    let off = get_offset::<ObjHeader, T>();
    l.size() == off + size_of::<T>() && off % align_of::<T>() == 0 && off >= size_of::<ObjHeader>()
      && l.align() >= align_of::<T>() && l.align() >= align_of::<ObjHeader>()
  }
  one::<LyBox>() && one::<Method>() && one::<laythe_core::object::Closure>() && one::<laythe_core::object::Fun>()
    && one::<laythe_core::object::Class>() && one::<laythe_core::object::Channel>()
    && one::<laythe_core::object::Map<Value, Value>>() && one::<laythe_core::object::Enumerator>()
    && one::<laythe_core::object::Native>()
}

// ---- O-20.1 allocate / size / release per object kind ----
const STRS: [&str; 5] = ["", "a", "ab", "abc", "\u{e9}x"];

/// a string of `which` bytes: allocated size is what the handle reports, and the handle is released with that layout
pub fn c_alloc_drop_string(which: usize) -> bool {
  let s = STRS[which % STRS.len()];
  let r: AllocObjResult<LyStr> = s.alloc();
  let ok = r.handle.size() == r.size && r.size == get_array_offset::<ObjHeader, u8>() + s.len() && &*r.reference == s;
  drop(r.handle);     // under Kani: __rust_dealloc asserts the layout matches the allocation
  ok
}

pub fn c_alloc_drop_tuple(len: usize) -> bool {
  let vals = [VALUE_NIL, Value::from(1.0), Value::from(true)];
  let n = len % 4;
  let slice: &[Value] = &vals[..n];
  let r: AllocObjResult<Tuple> = slice.alloc();
  let ok = r.handle.size() == r.size && r.size == get_array_offset::<ObjHeader, Value>() + n * size_of::<Value>() && r.reference.len() == n;
  drop(r.handle);
  ok
}

pub fn c_alloc_drop_box() -> bool {
  let r = LyBox::new(Value::from(2.0)).alloc();
  let ok = r.handle.size() == r.size && r.size == make_obj_layout::<ObjHeader, LyBox>().size();
  drop(r.handle);
  ok
}

pub fn c_alloc_drop_method() -> bool {
  let r = Method::new(VALUE_NIL, Value::from(3.0)).alloc();
  let ok = r.handle.size() == r.size && r.size == make_obj_layout::<ObjHeader, Method>().size();
  drop(r.handle);
  ok
}

/// a list with `len` elements and capacity `cap`: the degraded ObjectHandle reports the allocation size (capacity based),
/// and releases it with the allocation layout
pub fn c_alloc_drop_list(len: usize, cap: usize) -> bool {
  use laythe_core::verif::{RawSharedVector, VecBuilder};
  let vals = [VALUE_NIL, Value::from(1.0)];
  let n = len % 3;
  let c = n + cap % 3;
  if c == 0 { return true; }
  let r: AllocObjResult<RawSharedVector<Value, ObjHeader>> = VecBuilder::new(&vals[..n], c).alloc();
  let expect = make_vector_layout::<ObjHeader, Value>(c).size();
  let ok = r.handle.size() == expect && r.size == expect && r.reference.len() == n;
  drop(r.handle);
  ok
}

/// an instance of a class without fields: [InstanceHeader | len]
pub fn c_alloc_drop_instance(k: usize) -> bool {
  use laythe_core::object::{Class, Instance};
  let name = { let r: AllocObjResult<LyStr> = "c".alloc(); std::mem::forget(r.handle); r.reference };
  // a class without fields: adding one goes through hashbrown, which is beyond CBMC here (timed out at 40 min)
  let class = { let r = Class::bare(name).alloc(); std::mem::forget(r.handle); r.reference };
  let n = class.fields();
  let r: AllocObjResult<Instance> = class.alloc();
  let expect = make_array_layout::<InstanceHeader, Value>(n).size();
  let ok = r.handle.size() == expect && r.size == expect && n == 0;
  drop(r.handle);
  ok
}

/// an instance block [InstanceHeader | len | n Values] built WITHOUT a class object (the header only stores the class pointer; neither
/// size() nor drop dereference it): the degraded ObjectHandle reports the allocation size and releases it with the instance layout
pub fn c_alloc_drop_instance_block(len: usize) -> bool {
  use laythe_core::object::Class;
  use laythe_core::verif::ArrayHandle;
  use laythe_core::{ObjRef, ObjectRef};
  let vals = [VALUE_NIL, Value::from(1.0), Value::from(true)];
  let n = len % 4;
  // a block of zeroes stands in for the class object: only its address is stored in the instance header
  let buf: &'static mut [u64; 32] = Box::leak(Box::new([0u64; 32]));
  let fake_class: ObjRef<Class> = ObjectRef::new(std::ptr::NonNull::new(buf.as_mut_ptr() as *mut u8).unwrap()).to_class();
  let handle = ArrayHandle::<Value, InstanceHeader>::from_slice(&vals[..n], InstanceHeader::new(fake_class));
  let expect = make_array_layout::<InstanceHeader, Value>(n).size();
  let ok0 = handle.size() == expect;
  let obj = handle.degrade();
  let ok = ok0 && obj.size() == expect;
  drop(obj);
  ok
}

/// O-20.3 the handles of the runtime's own collections report the size of their allocation (capacity based) and release it
/// with that layout
pub fn c_unique_vector_handle(len: usize, cap: usize) -> bool {
  use laythe_core::managed::Header;
  use laythe_core::verif::RawUniqueVectorHandle;
  let vals = [1usize, 2];
  let n = len % 3;
  let c = n + cap % 3;
  if c == 0 { return true; }
  let h = RawUniqueVectorHandle::<usize, Header>::from_slice(&vals[..n], c, Header::new());
  let ok = h.size() == make_vector_layout::<Header, usize>(c).size();
  drop(h);
  ok
}

pub fn c_shared_vector_handle(len: usize, cap: usize) -> bool {
  use laythe_core::managed::Header;
  use laythe_core::verif::RawSharedVectorHandle;
  let vals = [1usize, 2];
  let n = len % 3;
  let c = n + cap % 3;
  if c == 0 { return true; }
  let h = RawSharedVectorHandle::<usize, Header>::from_slice(&vals[..n], c, Header::new());
  let ok = h.size() == make_vector_layout::<Header, usize>(c).size();
  drop(h);
  ok
}

pub fn c_array_handle(len: usize) -> bool {
  use laythe_core::managed::Header;
  use laythe_core::verif::ArrayHandle;
  let vals = [1u16, 2, 3];
  let n = len % 4;
  let h = ArrayHandle::<u16, Header>::from_slice(&vals[..n], Header::new());
  let ok = h.size() == make_array_layout::<Header, u16>(n).size();
  drop(h);
  ok
}

#[cfg(kani)]
mod proofs {
  use super::*;

  #[kani::proof]
  fn o20_2_next_aligned() { assert!(c_next_aligned(kani::any(), kani::any())); }
  #[kani::proof]
  fn o20_2_array_layout_str() { assert!(c_array_layout_str(kani::any())); }
  #[kani::proof]
  fn o20_2_array_layout_tuple() { assert!(c_array_layout_tuple(kani::any())); }
  #[kani::proof]
  fn o20_2_array_layout_instance() { assert!(c_array_layout_instance(kani::any())); }
  #[kani::proof]
  fn o20_2_vector_layout_list() { assert!(c_vector_layout_list(kani::any())); }
  #[kani::proof]
  fn o20_2_obj_layout_fixed() { assert!(c_obj_layout_fixed()); }

  #[kani::proof]
  #[kani::unwind(8)]
  fn o20_1_alloc_drop_string() { assert!(c_alloc_drop_string(kani::any())); }
  #[kani::proof]
  #[kani::unwind(8)]
  fn o20_1_alloc_drop_tuple() { assert!(c_alloc_drop_tuple(kani::any())); }
  #[kani::proof]
  #[kani::unwind(8)]
  fn o20_1_alloc_drop_list() { assert!(c_alloc_drop_list(kani::any(), kani::any())); }
  #[kani::proof]
  #[kani::unwind(8)]
  fn o20_1_alloc_drop_instance_block() { assert!(c_alloc_drop_instance_block(kani::any())); }
  #[kani::proof]
  #[kani::unwind(8)]
  fn o20_3_unique_vector_handle() { assert!(c_unique_vector_handle(kani::any(), kani::any())); }
  #[kani::proof]
  #[kani::unwind(8)]
  fn o20_3_shared_vector_handle() { assert!(c_shared_vector_handle(kani::any(), kani::any())); }
  #[kani::proof]
  #[kani::unwind(8)]
  fn o20_3_array_handle() { assert!(c_array_handle(kani::any())); }
  #[kani::proof]
  #[kani::unwind(10)]
  fn o20_1_alloc_drop_instance() { assert!(c_alloc_drop_instance(kani::any())); }

  #[kani::proof]
  #[kani::unwind(4)]
  fn o20_1_alloc_drop_box() { assert!(c_alloc_drop_box()); }
  #[kani::proof]
  #[kani::unwind(4)]
  fn o20_1_alloc_drop_method() { assert!(c_alloc_drop_method()); }
}
