//! native replay against the real laythe_core: `replay <contract> <u64 args...>`; exit 0 = holds, 1 = violated
use kx_heap::*;
use std::alloc::{GlobalAlloc, Layout, System};

/// a global allocator that remembers the layout of every block in a header in front of it and aborts the
/// replay when a block is released with a different size or alignment (what Kani's __rust_dealloc model checks)
struct Checking;
const PAD: usize = 64;
unsafe impl GlobalAlloc for Checking {
  unsafe fn alloc(&self, l: Layout) -> *mut u8 {
    let pad = PAD.max(l.align());
    let p = System.alloc(Layout::from_size_align_unchecked(l.size() + pad, pad));
    if p.is_null() { return p; }
    *(p as *mut usize) = l.size();
    *((p as *mut usize).add(1)) = l.align();
    p.add(pad)
  }
  unsafe fn dealloc(&self, p: *mut u8, l: Layout) {
    let pad = PAD.max(l.align());
    // the header position depends on the alignment used at allocation; a wrong alignment shows as garbage here
    let base = p.sub(pad);
    let (size, align) = (*(base as *mut usize), *((base as *mut usize).add(1)));
    if size != l.size() || align != l.align() {
      let msg = b"LAYOUT MISMATCH: block released with a layout different from the one it was obtained with\n";
      libc_write(msg);
      std::process::exit(1);
    }
    System.dealloc(base, Layout::from_size_align_unchecked(l.size() + pad, pad));
  }
}
fn libc_write(msg: &[u8]) { use std::io::Write; let _ = std::io::stdout().write_all(msg); }
#[global_allocator]
static A: Checking = Checking;
fn main() {
  let a: Vec<String> = std::env::args().collect();
  let n = |i: usize| -> usize { a.get(i).map(|s| s.parse::<u64>().expect("u64 argument") as usize).unwrap_or(0) };
  let ok = match a.get(1).map(|s| s.as_str()).unwrap_or("") {
    "o20_2_next_aligned" => c_next_aligned(n(2), n(3)),
    "o20_2_array_layout_str" => c_array_layout_str(n(2)),
    "o20_2_array_layout_tuple" => c_array_layout_tuple(n(2)),
    "o20_2_array_layout_instance" => c_array_layout_instance(n(2)),
    "o20_2_vector_layout_list" => c_vector_layout_list(n(2)),
    "o20_2_obj_layout_fixed" => c_obj_layout_fixed(),
    "o20_1_alloc_drop_string" => c_alloc_drop_string(n(2)),
    "o20_1_alloc_drop_tuple" => c_alloc_drop_tuple(n(2)),
    "o20_1_alloc_drop_list" => c_alloc_drop_list(n(2), n(3)),
    "o20_1_alloc_drop_instance_block" => c_alloc_drop_instance_block(n(2) as usize),
    "o20_1_alloc_drop_instance" => c_alloc_drop_instance(n(2)),
    "o20_3_unique_vector_handle" => c_unique_vector_handle(n(2), n(3)),
    "o20_3_shared_vector_handle" => c_shared_vector_handle(n(2), n(3)),
    "o20_3_array_handle" => c_array_handle(n(2)),
    "o20_1_alloc_drop_box" => c_alloc_drop_box(),
    "o20_1_alloc_drop_method" => c_alloc_drop_method(),
    other => { eprintln!("unknown contract {other}"); std::process::exit(2) },
  };
  println!("contract {} on {:?}: {}", a[1], &a[2..], if ok { "HOLDS" } else { "VIOLATED" });
  std::process::exit(if ok { 0 } else { 1 });
}
