use kx_gc::*;
fn main() {
  let a: Vec<String> = std::env::args().collect();
  let n = |i: usize| -> u64 { a.get(i).map(|s| s.parse::<u64>().expect("u64 argument")).unwrap_or(0) };
  let ok = match a.get(1).map(|s| s.as_str()).unwrap_or("") {
    "o20_4_full_collection_exact" => { let r = collect_one_box(n(2) != 0, 9); r.0 && r.1 && r.2 && r.3 },
    "o20_4n_nursery_collection_exact" => { let r = collect_one_box(n(2) != 0, 0); r.0 && r.1 && r.2 && r.3 },
    "o20_4p_promoted_then_full_exact" => collect_promoted_then_full(),
    "o09_intern_evicts_unrooted" => intern_evicts_unrooted(),
    "o09_intern_keeps_rooted" => intern_keeps_rooted(),
    "o09_intern_twice" => intern_twice(),
    "o09_intern_across_collection" => intern_across_collection(n(2) != 0),
    "o05_4_marks_cleared" => collect_twice(0),
    "o05_4_temp_root_survives" => temp_root_survives(9),
    "o09_intern_promoted_survives_nursery" => intern_promoted_survives_nursery(),
    "o05_5_inflight_obj_survives" => inflight_obj_survives(),
    "o05_5_inflight_alloc_survives" => inflight_alloc_survives(),
    other => { eprintln!("unknown contract {other}"); std::process::exit(2) },
  };
  println!("contract {} on {:?}: {}", a[1], &a[2..], if ok { "HOLDS" } else { "VIOLATED" });
  std::process::exit(if ok { 0 } else { 1 });
}
