//! C20 (accounting), C05 (sweep keeps exactly the marked objects), C09 (intern table) on the real Allocator.
//! All harnesses here are BOUNDED (fixed small heaps, #[kani::unwind]); they are reported as bounded, never as proved.
#![allow(unused)]
use laythe_core::managed::{Trace, TraceRoot};
use laythe_core::object::{LyBox, LyStr};
use laythe_core::value::{Value, VALUE_NIL};
use laythe_core::{Allocator, ObjRef, NO_GC};
use std::mem::ManuallyDrop;

/// explicit root set: the harness decides which objects the "program" can still reach
pub struct Roots<const N: usize> { pub boxes: [Option<ObjRef<LyBox>>; N], pub strs: [Option<LyStr>; N] }
impl<const N: usize> TraceRoot for Roots<N> {
  fn trace(&self) {
    for b in self.boxes.iter() { if let Some(b) = b { b.trace(); } }
    for s in self.strs.iter() { if let Some(s) = s { s.trace(); } }
  }
  fn trace_debug(&self, _log: &mut dyn std::io::Write) { self.trace() }
  fn can_collect(&self) -> bool { true }
}

/// O-20.4 / O-05.4: one box, rooted or not, one collection at collection count `gc_before + 1`
/// (gc_before = 9 gives the every-10th full sweep, 0 the nursery sweep).
/// Returns (accounting exact, threshold = 2 x live, exactly the rooted object kept, kept object intact)
pub fn collect_one_box(rooted: bool, gc_before: u8) -> (bool, bool, bool, bool) {
  let mut gc = ManuallyDrop::new(Allocator::default());
  gc.verif_set_gc_count(gc_before as u128);
  let a = gc.manage_obj(LyBox::new(Value::from(1.0)), &NO_GC);
  let before = gc.verif_stats();
  let roots = Roots::<1> { boxes: [if rooted { Some(a) } else { None }], strs: [None] };
  gc.collect_garbage(&roots);
  let st = gc.verif_stats();
  let kept = rooted as usize;
  let exact = st.bytes_allocated == st.owned_bytes && before.bytes_allocated == before.owned_bytes;
  let threshold = st.next_gc == 2 * st.bytes_allocated;
  let kept_ok = st.obj_len + st.nursery_obj_len == kept && st.nursery_obj_len == 0;
  let intact = !rooted || a.value == Value::from(1.0);
  (exact, threshold, kept_ok, intact)
}

/// O-20.4 an object promoted by an earlier collection is still counted by the next FULL sweep that keeps it
pub fn collect_promoted_then_full() -> bool {
  let mut gc = ManuallyDrop::new(Allocator::default());
  let a = gc.manage_obj(LyBox::new(Value::from(1.0)), &NO_GC);
  let roots = Roots::<1> { boxes: [Some(a)], strs: [None] };
  gc.collect_garbage(&roots);              // nursery sweep: `a` is promoted
  let mid = gc.verif_stats();
  gc.verif_set_gc_count(9);
  gc.collect_garbage(&roots);              // full sweep: `a` is retained in the old heap
  let st = gc.verif_stats();
  mid.obj_len == 1 && st.obj_len == 1 && st.bytes_allocated == st.owned_bytes && st.owned_bytes > 0 && st.next_gc == 2 * st.bytes_allocated
}

/// O-05.4 marks are cleared by a sweep: an object kept by one collection is freed by the next full one when unrooted
pub fn collect_twice(gc_before: u8) -> bool {
  let mut gc = ManuallyDrop::new(Allocator::default());
  gc.verif_set_gc_count(gc_before as u128);
  let a = gc.manage_obj(LyBox::new(Value::from(1.0)), &NO_GC);
  gc.collect_garbage(&Roots::<1> { boxes: [Some(a)], strs: [None] });
  let mid = gc.verif_stats();
  gc.verif_set_gc_count(9);
  gc.collect_garbage(&Roots::<1> { boxes: [None], strs: [None] });
  let end = gc.verif_stats();
  mid.obj_len == 1 && end.obj_len == 0 && end.bytes_allocated == 0
}

/// O-05.4 a temporary root survives a collection although the program's roots do not reach it
pub fn temp_root_survives(gc_before: u8) -> bool {
  let mut gc = ManuallyDrop::new(Allocator::default());
  gc.verif_set_gc_count(gc_before as u128);
  let a = gc.manage_obj(LyBox::new(Value::from(1.0)), &NO_GC);
  gc.push_root(a);
  gc.collect_garbage(&Roots::<1> { boxes: [None], strs: [None] });
  let st = gc.verif_stats();
  gc.pop_roots(1);
  st.obj_len == 1 && a.value == Value::from(1.0) && gc.temp_roots() == 0
}

/// O-05.5 the object being allocated is rooted for the collection its own allocation triggers (threshold path of
/// Allocator::allocate_obj / allocate): a first collection of an empty heap leaves next_gc == 0, so the next allocation collects.
pub fn inflight_obj_survives() -> bool {
  let mut gc = ManuallyDrop::new(Allocator::default());
  let none = Roots::<1> { boxes: [None], strs: [None] };
  gc.collect_garbage(&none);
  let armed = gc.verif_stats().next_gc == 0;
  let a = gc.manage_obj(LyBox::new(Value::from(1.0)), &none);      // collects inside allocate_obj; `a` is reachable from nothing else
  let st = gc.verif_stats();
  armed && st.gc_count == 2 && st.obj_len + st.nursery_obj_len == 1 && a.value == Value::from(1.0)
}
pub fn inflight_alloc_survives() -> bool {
  use laythe_core::object::ChannelWaiter;
  let mut gc = ManuallyDrop::new(Allocator::default());
  let none = Roots::<1> { boxes: [None], strs: [None] };
  gc.collect_garbage(&none);
  let armed = gc.verif_stats().next_gc == 0;
  let w: laythe_core::Ref<ChannelWaiter> = gc.manage(ChannelWaiter::new(true), &none);   // collects inside allocate
  let st = gc.verif_stats();
  armed && st.gc_count == 2 && st.heap_len == 1 && w.is_runnable()
}

// ---- C09: the intern table ----
fn same_obj(a: LyStr, b: LyStr) -> bool { std::ptr::eq(&*a as *const str as *const u8, &*b as *const str as *const u8) }

/// interning the same content twice yields the same object, with one table entry keyed by its own bytes
pub fn intern_twice() -> bool {
  let mut gc = ManuallyDrop::new(Allocator::default());
  let a = gc.manage_str("ab", &NO_GC);
  let b = gc.manage_str("ab", &NO_GC);
  let st = gc.verif_stats();
  same_obj(a, b) && &*a == "ab" && st.intern_len == 1 && st.nursery_obj_len == 1 && gc.verif_intern_consistent()
    && gc.has_str("ab").map_or(false, |s| same_obj(s, a)) && gc.has_str("a").is_none()
}

/// created, dropped, collected, recreated: an unrooted string leaves the table BEFORE its bytes are released, and
/// interning equal content afterwards yields a fresh string that is found by content; a rooted one stays the same object
pub fn intern_across_collection(rooted: bool) -> bool {
  let mut gc = ManuallyDrop::new(Allocator::default());
  gc.verif_set_gc_count(9);
  let x = gc.manage_str("ab", &NO_GC);
  gc.collect_garbage(&Roots::<1> { boxes: [None], strs: [if rooted { Some(x) } else { None }] });
  let st = gc.verif_stats();
  let found = gc.has_str("ab");
  let ok1 = if rooted { st.intern_len == 1 && found.map_or(false, |s| same_obj(s, x)) && &*x == "ab" } else { st.intern_len == 0 && found.is_none() };
  let y = gc.manage_str("ab", &NO_GC);
  let st2 = gc.verif_stats();
  ok1 && &*y == "ab" && st2.intern_len == 1 && gc.verif_intern_consistent() && gc.has_str("ab").map_or(false, |s| same_obj(s, y))
    && (!rooted || same_obj(x, y))
}

/// cheaper halves of intern_across_collection (which exceeds 45 min in CBMC): eviction of an unrooted string / retention of a rooted one
pub fn intern_evicts_unrooted() -> bool {
  let mut gc = ManuallyDrop::new(Allocator::default());
  gc.verif_set_gc_count(9);
  let _x = gc.manage_str("ab", &NO_GC);
  gc.collect_garbage(&Roots::<1> { boxes: [None], strs: [None] });
  let st = gc.verif_stats();
  st.intern_len == 0 && st.obj_len == 0 && st.bytes_allocated == 0
}
pub fn intern_keeps_rooted() -> bool {
  let mut gc = ManuallyDrop::new(Allocator::default());
  gc.verif_set_gc_count(9);
  let x = gc.manage_str("ab", &NO_GC);
  gc.collect_garbage(&Roots::<1> { boxes: [None], strs: [Some(x)] });
  let st = gc.verif_stats();
  st.intern_len == 1 && st.obj_len == 1 && &*x == "ab" && gc.verif_intern_consistent()
}

/// a live string that was PROMOTED by an earlier collection stays interned across a later NURSERY collection (the old generation is
/// only unmarked there: the intern sweep must see the marks before that loop runs)
pub fn intern_promoted_survives_nursery() -> bool {
  let mut gc = ManuallyDrop::new(Allocator::default());
  let x = gc.manage_str("ab", &NO_GC);
  let roots = Roots::<1> { boxes: [None], strs: [Some(x)] };
  gc.collect_garbage(&roots);                      // collection 1 (nursery): x is promoted
  let mid = gc.verif_stats();
  gc.collect_garbage(&roots);                      // collection 2 (nursery): x lives in the old generation
  let st = gc.verif_stats();
  mid.obj_len == 1 && mid.intern_len == 1 && st.intern_len == 1 && st.obj_len == 1 && &*x == "ab" && gc.verif_intern_consistent()
}

#[cfg(kani)]
mod proofs {
  use super::*;
  use laythe_core::verif::ObjectHandle;

  /// A-stub: releasing a block (layout agreement) is proved per kind in kx/heap (O-20.1); here the release is a no-op
  fn drop_stub(_h: &mut ObjectHandle) {}

  /// A-stub: per-kind tracing and the dispatch are proved in kx/trace (O-05.1/.2); boxes here hold numbers, so tracing the
  /// payload of a box reaches no further object
  fn no_children(_o: &laythe_core::ObjectRef) {}

  #[kani::proof]
  #[kani::unwind(4)]
  #[kani::stub(<ObjectHandle as std::ops::Drop>::drop, drop_stub)]
  #[kani::stub(<laythe_core::ObjectRef as Trace>::trace, no_children)]
  fn o20_4_full_collection_exact() {
    let (exact, threshold, kept, intact) = collect_one_box(kani::any(), 9);
    assert!(exact, "after a full collection allocated() is the sum of the sizes of the retained objects");
    assert!(threshold, "next_gc is twice the live size");
    assert!(kept, "exactly the rooted objects are retained");
    assert!(intact);
  }

  #[kani::proof]
  #[kani::unwind(4)]
  #[kani::stub(<ObjectHandle as std::ops::Drop>::drop, drop_stub)]
  #[kani::stub(<laythe_core::ObjectRef as Trace>::trace, no_children)]
  fn o20_4n_nursery_collection_exact() {
    let (exact, threshold, kept, intact) = collect_one_box(kani::any(), 0);
    assert!(exact, "after a nursery collection allocated() is the sum of the sizes of the retained objects");
    assert!(threshold);
    assert!(kept);
    assert!(intact);
  }

  #[kani::proof]
  #[kani::unwind(10)]
  #[kani::stub(<ObjectHandle as std::ops::Drop>::drop, drop_stub)]
  fn o09_intern_twice() { assert!(intern_twice()); }

  #[kani::proof]
  #[kani::unwind(10)]
  #[kani::stub(<ObjectHandle as std::ops::Drop>::drop, drop_stub)]
  #[kani::stub(<laythe_core::ObjectRef as Trace>::trace, no_children)]
  fn o09_intern_evicts_unrooted() { assert!(intern_evicts_unrooted()); }

  #[kani::proof]
  #[kani::unwind(10)]
  #[kani::stub(<ObjectHandle as std::ops::Drop>::drop, drop_stub)]
  #[kani::stub(<laythe_core::ObjectRef as Trace>::trace, no_children)]
  fn o09_intern_keeps_rooted() { assert!(intern_keeps_rooted()); }

  #[kani::proof]
  #[kani::unwind(10)]
  #[kani::stub(<ObjectHandle as std::ops::Drop>::drop, drop_stub)]
  #[kani::stub(<laythe_core::ObjectRef as Trace>::trace, no_children)]
  fn o09_intern_promoted_survives_nursery() { assert!(intern_promoted_survives_nursery()); }

  #[kani::proof]
  #[kani::unwind(10)]
  #[kani::stub(<ObjectHandle as std::ops::Drop>::drop, drop_stub)]
  #[kani::stub(<laythe_core::ObjectRef as Trace>::trace, no_children)]
  fn o09_intern_across_collection() { assert!(intern_across_collection(kani::any())); }

  #[kani::proof]
  #[kani::unwind(4)]
  #[kani::stub(<ObjectHandle as std::ops::Drop>::drop, drop_stub)]
  #[kani::stub(<laythe_core::ObjectRef as Trace>::trace, no_children)]
  fn o20_4p_promoted_then_full_exact() { assert!(collect_promoted_then_full()); }

  #[kani::proof]
  #[kani::unwind(4)]
  #[kani::stub(<ObjectHandle as std::ops::Drop>::drop, drop_stub)]
  #[kani::stub(<laythe_core::ObjectRef as Trace>::trace, no_children)]
  fn o05_4_marks_cleared() { assert!(collect_twice(0)); }

  #[kani::proof]
  #[kani::unwind(4)]
  #[kani::stub(<ObjectHandle as std::ops::Drop>::drop, drop_stub)]
  #[kani::stub(<laythe_core::ObjectRef as Trace>::trace, no_children)]
  fn o05_4_temp_root_survives() { assert!(temp_root_survives(9)); }

  #[kani::proof]
  #[kani::unwind(4)]
  #[kani::stub(<ObjectHandle as std::ops::Drop>::drop, drop_stub)]
  #[kani::stub(<laythe_core::ObjectRef as Trace>::trace, no_children)]
  fn o05_5_inflight_obj_survives() { assert!(inflight_obj_survives()); }

  #[kani::proof]
  #[kani::unwind(4)]
  #[kani::stub(<ObjectHandle as std::ops::Drop>::drop, drop_stub)]
  #[kani::stub(<laythe_core::ObjectRef as Trace>::trace, no_children)]
  fn o05_5_inflight_alloc_survives() { assert!(inflight_alloc_survives()); }
}
