"""Kani runner: builds a harness crate under /verif/kx/<crate> against the real crates in /repo (path
dependencies), runs the listed harnesses, parses per-harness results, and on failure extracts the
concrete counterexample (Kani concrete playback) and replays it natively against the real code.
"""
from __future__ import annotations
import json, os, re, resource, shutil, subprocess, sys, time
from dataclasses import dataclass, field
from typing import Dict, List, Optional

KX = os.path.dirname(os.path.abspath(__file__))
VERIF = os.path.dirname(KX)
REPO = os.environ.get('VERIF_REPO', '/repo')
BUILD = os.path.join(VERIF, '.build')


@dataclass
class HarnessResult:
  crate: str
  features: str
  harness: str
  status: str               # SUCCESSFUL | FAILED | UNWIND | TIMEOUT | ERROR | MISSING
  checks: int = 0
  failed: int = 0
  failed_checks: List[str] = field(default_factory=list)
  covers: str = ''
  time_s: float = 0.0
  stubs: List[str] = field(default_factory=list)
  playback: Optional[dict] = None

  def oid(self) -> str:
    return 'kani:%s%s/%s' % (self.crate, ('[' + self.features + ']') if self.features else '', self.harness)


def _env(crate: str, features: str) -> dict:
  env = dict(os.environ)
  env['CARGO_NET_OFFLINE'] = 'true'
  env['CARGO_TARGET_DIR'] = os.path.join(BUILD, 'kani', crate + ('-' + features.replace(',', '_') if features else ''))
  env.pop('RUSTUP_TOOLCHAIN', None)
  return env


def crate_dir(crate: str) -> str:
  """the harness crates name /repo in their path dependencies; when VERIF_REPO points elsewhere (scratch
  mutation testing) a patched copy of the crate manifest is used"""
  src = os.path.join(KX, crate)
  if REPO == '/repo':
    shutil.copyfile(os.path.join(REPO, 'Cargo.lock'), os.path.join(src, 'Cargo.lock'))
    return src
  dst = os.path.join(BUILD, 'kx-alt', crate)
  if os.path.exists(dst): shutil.rmtree(dst)
  shutil.copytree(src, dst, ignore=shutil.ignore_patterns('target', 'Cargo.lock'))
  man = open(os.path.join(dst, 'Cargo.toml')).read().replace('/repo/', REPO.rstrip('/') + '/')
  open(os.path.join(dst, 'Cargo.toml'), 'w').write(man)
  shutil.copyfile(os.path.join(REPO, 'Cargo.lock'), os.path.join(dst, 'Cargo.lock'))
  return dst


def _limit_mem(gb: int):
  def f():
    lim = gb * 1024 * 1024 * 1024
    resource.setrlimit(resource.RLIMIT_AS, (lim, lim))
  return f


def run_group(crate: str, harnesses: List[str], features: str = '', jobs: int = 8, timeout: int = 1800,
              extra: Optional[List[str]] = None, playback: bool = True, mem_gb: int = 24) -> List[HarnessResult]:
  d = crate_dir(crate)
  env = _env(crate, features)
  cmd = ['cargo', 'kani', '-Z', 'function-contracts', '-Z', 'stubbing', '--output-format=terse', '-j', str(jobs)]
  if features: cmd += ['--features', features]
  for h in harnesses: cmd += ['--harness', h]
  if extra: cmd += extra
  log_dir = os.path.join(BUILD, 'kani-logs'); os.makedirs(log_dir, exist_ok=True)
  log = os.path.join(log_dir, '%s%s.log' % (crate, '-' + features if features else ''))
  t0 = time.time()
  timed_out = False
  with open(log, 'w') as f:
    import signal
    proc = subprocess.Popen(cmd, cwd=d, env=env, stdout=f, stderr=subprocess.STDOUT, preexec_fn=_limit_mem(mem_gb), start_new_session=True)
    try:
      rc = proc.wait(timeout=timeout)
    except subprocess.TimeoutExpired:
      timed_out = True; rc = -9
      try: os.killpg(proc.pid, signal.SIGKILL)      # only this run's process group (cargo, kani-driver, cbmc)
      except ProcessLookupError: pass
      proc.wait()
  out = open(log, errors='replace').read()
  res = parse_kani(out, crate, features)
  by = {r.harness: r for r in res}
  final = []
  for h in harnesses:
    r = by.get(h) or next((x for x in res if x.harness.endswith('::' + h) or x.harness == h), None)
    if r is None:
      st = 'TIMEOUT' if timed_out else ('ERROR' if rc != 0 else 'MISSING')
      r = HarnessResult(crate, features, h, st)
      if st == 'ERROR':
        r.failed_checks = [l for l in out.split('\n') if l.startswith('error')][:5]
    final.append(r)
  for r in final:
    if r.status == 'FAILED' and playback:
      try:
        r.playback = concrete_playback(crate, features, r.harness, d, env, mem_gb=mem_gb, timeout=min(timeout, 900), extra=extra)
      except Exception as ex:   # playback is best effort; the failure itself stands
        r.playback = {'error': str(ex)}
  return final


_RE_CHECK = re.compile(r'^(?:Thread (\d+): )?Checking harness (\S+?)\.\.\.')
_RE_THREAD = re.compile(r'^Thread (\d+): *$')


def parse_kani(out: str, crate: str, features: str) -> List[HarnessResult]:
  cur: Dict[Optional[str], str] = {}
  results: List[HarnessResult] = []
  block_thread: Optional[str] = None
  acc: Dict[Optional[str], HarnessResult] = {}
  stubs: List[str] = []
  lines = out.split('\n')
  active: Optional[HarnessResult] = None
  for i, line in enumerate(lines):
    m = _RE_CHECK.match(line)
    if m:
      th, h = m.group(1), m.group(2)
      cur[th] = h
      if th is None:
        active = HarnessResult(crate, features, h, 'ERROR')
      continue
    m = _RE_THREAD.match(line)
    if m:
      th = m.group(1)
      active = HarnessResult(crate, features, cur.get(th, '?'), 'ERROR')
      continue
    if active is None: continue
    m = re.match(r'^\s*\*\* (\d+) of (\d+) failed', line)
    if m:
      active.failed, active.checks = int(m.group(1)), int(m.group(2)); continue
    m = re.match(r'^\s*\*\* (\d+) of (\d+) cover properties satisfied', line)
    if m:
      active.covers = '%s/%s' % (m.group(1), m.group(2)); continue
    if line.startswith('Failed Checks:'):
      active.failed_checks.append(line[len('Failed Checks:'):].strip()); continue
    if line.startswith(' File:') and active.failed_checks:
      active.failed_checks[-1] += ' @ ' + line.strip(); continue
    m = re.match(r'^VERIFICATION:- (\w+)', line)
    if m:
      st = m.group(1)
      if st == 'FAILED' and active.failed_checks and all('unwinding assertion' in c for c in active.failed_checks):
        st = 'UNWIND'
      if st == 'FAILED' and active.failed == 0 and not active.failed_checks:
        # CBMC reported no failing check (solver ran out of memory / was killed): undecided, never an alarm
        st = 'ERROR'; active.failed_checks = ['verifier ended without a failing check (resource limit)']
      active.status = st
      continue
    m = re.match(r'^Verification Time: ([0-9.]+)s', line)
    if m:
      active.time_s = float(m.group(1))
      results.append(active)
      active = None
  return results


def concrete_playback(crate: str, features: str, harness: str, d: str, env: dict, mem_gb: int = 16, timeout: int = 900, extra=None) -> dict:
  cmd = ['cargo', 'kani', '-Z', 'function-contracts', '-Z', 'stubbing', '-Z', 'concrete-playback', '--concrete-playback=print',
         '--output-format=terse', '--harness', harness]
  if features: cmd += ['--features', features]
  if extra: cmd += extra
  import signal
  proc = subprocess.Popen(cmd, cwd=d, env=env, stdout=subprocess.PIPE, stderr=subprocess.STDOUT, text=True, preexec_fn=_limit_mem(mem_gb), start_new_session=True)
  try:
    out, _ = proc.communicate(timeout=timeout)
  except subprocess.TimeoutExpired:
    try: os.killpg(proc.pid, signal.SIGKILL)
    except ProcessLookupError: pass
    proc.wait()
    return {'values': None, 'note': 'concrete playback exceeded %d s' % timeout}
  m = re.search(r'```\n(.*?)```', out, flags=re.S)
  if not m: return {'values': None, 'note': 'Kani printed no concrete playback test'}
  test_src = m.group(1)
  vals = []
  for vm in re.finditer(r'//\s*(-?\d+)(?:ul|l|u|)?\s*\n\s*vec!\[([0-9, ]*)\]', test_src):
    raw = [int(x) for x in vm.group(2).split(',') if x.strip()]
    vals.append({'decimal': vm.group(1), 'bytes': raw, 'le_u64': int.from_bytes(bytes(raw), 'little')})
  return {'values': vals, 'kani_test': test_src}


def native_replay(crate: str, features: str, contract: str, args: List[str], timeout: int = 900) -> dict:
  """build the harness crate's `replay` binary with the repository's ordinary toolchain and run
  `replay <contract> <args...>` against the real code; exit 0 = contract holds on that input"""
  d = crate_dir(crate)
  env = dict(os.environ)
  env['CARGO_NET_OFFLINE'] = 'true'
  env['CARGO_TARGET_DIR'] = os.path.join(BUILD, 'native', crate + ('-' + features.replace(',', '_') if features else ''))
  env.pop('RUSTUP_TOOLCHAIN', None)
  cmd = ['cargo', 'run', '--offline', '--quiet', '--bin', 'replay']
  if features: cmd += ['--features', features]
  cmd += ['--', contract] + [str(a) for a in args]
  p = subprocess.run(cmd, cwd=d, env=env, capture_output=True, text=True, timeout=timeout)
  return {'cmd': ' '.join(cmd), 'exit': p.returncode, 'stdout': p.stdout[-2000:], 'stderr': p.stderr[-2000:]}


if __name__ == '__main__':
  import argparse
  ap = argparse.ArgumentParser()
  ap.add_argument('crate'); ap.add_argument('--features', default=''); ap.add_argument('--harness', action='append', default=[])
  a = ap.parse_args()
  hs = a.harness
  for r in run_group(a.crate, hs, a.features):
    print(r.oid(), r.status, '%d/%d' % (r.failed, r.checks), r.covers, r.failed_checks, json.dumps(r.playback)[:400] if r.playback else '')
