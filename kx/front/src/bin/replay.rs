use kx_front::*;
fn main() {
  let a: Vec<String> = std::env::args().collect();
  let n = |i: usize| -> u64 { a.get(i).map(|s| s.parse::<u64>().expect("u64 argument")).unwrap_or(0) };
  let ok = match a.get(1).map(|s| s.as_str()).unwrap_or("") {
    "o01_p_infix_table" => c_infix_table(n(2) as usize),
    "o01_p_infix_action" => c_infix_action(n(2) as usize),
    "o01_p_prefix_action" => c_prefix_action(n(2) as usize),
    "o01_p_higher" => c_higher(n(2) as u8),
    "o01_p_prefix_table" => c_prefix_table(),
    other => { eprintln!("unknown contract {other}"); std::process::exit(2) },
  };
  println!("contract {} on {:?}: {}", a[1], &a[2..], if ok { "HOLDS" } else { "VIOLATED" });
  std::process::exit(if ok { 0 } else { 1 });
}
