//! C01 — operator precedence and associativity as the Pratt tables of the real parser encode them (O-01.P).
//! Loop-free over every token kind: a complete proof about the tables (how `parse_precedence` uses them is not decided).
#![allow(unused)]
use laythe_vm::compiler::parser_verif::{has_infix, has_prefix, higher, infix_action, infix_precedence, prefix_action, TokenKind};

// precedence levels of laythe.bnf, loosest first (Assign < Ternary < LogicOr < LogicAnd < Equality < Comparison <
// Addition < Multiplication < Unary < Call < Primary)
pub const NONE: u8 = 0; pub const ASSIGNMENT: u8 = 1; pub const TERNARY: u8 = 2; pub const OR: u8 = 3; pub const AND: u8 = 4;
pub const EQUALITY: u8 = 5; pub const COMPARISON: u8 = 6; pub const TERM: u8 = 7; pub const FACTOR: u8 = 8; pub const UNARY: u8 = 9;
pub const CALL: u8 = 10; pub const PRIMARY: u8 = 11;

pub const KINDS: [TokenKind; 69] = [
  TokenKind::LeftParen, TokenKind::RightParen, TokenKind::LeftBrace, TokenKind::RightBrace, TokenKind::LeftBracket, TokenKind::RightBracket,
  TokenKind::Comma, TokenKind::Dot, TokenKind::Minus, TokenKind::Plus, TokenKind::QuestionMark, TokenKind::Colon, TokenKind::Semicolon,
  TokenKind::Pipe, TokenKind::Slash, TokenKind::Star, TokenKind::PlusEqual, TokenKind::MinusEqual, TokenKind::SlashEqual, TokenKind::StarEqual,
  TokenKind::RightArrow, TokenKind::LeftArrow, TokenKind::Export, TokenKind::Import, TokenKind::As, TokenKind::Amp, TokenKind::Bang,
  TokenKind::BangEqual, TokenKind::Equal, TokenKind::EqualEqual, TokenKind::Greater, TokenKind::GreaterEqual, TokenKind::Less, TokenKind::LessEqual,
  TokenKind::Identifier, TokenKind::InstanceAccess, TokenKind::String, TokenKind::StringStart, TokenKind::StringSegment, TokenKind::StringEnd,
  TokenKind::Number, TokenKind::And, TokenKind::Class, TokenKind::Else, TokenKind::False, TokenKind::For, TokenKind::Fun, TokenKind::If,
  TokenKind::In, TokenKind::Nil, TokenKind::Or, TokenKind::Return, TokenKind::Break, TokenKind::Continue, TokenKind::Super, TokenKind::Self_,
  TokenKind::Static, TokenKind::True, TokenKind::Let, TokenKind::While, TokenKind::Try, TokenKind::Catch, TokenKind::Raise, TokenKind::Trait,
  TokenKind::Type, TokenKind::Channel, TokenKind::Launch, TokenKind::Error, TokenKind::Eof,
];

/// the binding power laythe.bnf gives a token in infix position (0 = not an infix operator)
pub fn spec_infix(kind: TokenKind) -> u8 {
  match kind {
    TokenKind::Or => OR,
    TokenKind::And => AND,
    TokenKind::EqualEqual | TokenKind::BangEqual => EQUALITY,
    TokenKind::Greater | TokenKind::GreaterEqual | TokenKind::Less | TokenKind::LessEqual => COMPARISON,
    TokenKind::Minus | TokenKind::Plus => TERM,
    TokenKind::Slash | TokenKind::Star => FACTOR,
    TokenKind::LeftParen | TokenKind::LeftBracket | TokenKind::Dot => CALL,
    TokenKind::QuestionMark => TERNARY,
    _ => NONE,
  }
}

/// O-01.P for one token kind: binding power per the grammar; a token binds as infix iff it has an infix action
pub fn c_infix_table(i: usize) -> bool {
  let kind = KINDS[i % KINDS.len()];
  infix_precedence(kind) == spec_infix(kind) && has_infix(kind) == (spec_infix(kind) != NONE)
}

/// left associativity of binary operators is obtained by parsing the right operand one level tighter:
/// `higher` is the successor on the precedence order and is total below Primary
pub fn c_higher(p: u8) -> bool {
  p >= PRIMARY || higher(p) == p + 1
}

/// tokens that may start an expression per the grammar have a prefix action; operators that cannot, do not
pub fn c_prefix_table() -> bool {
  has_prefix(TokenKind::Minus) && has_prefix(TokenKind::Bang) && has_prefix(TokenKind::LeftArrow)
    && has_prefix(TokenKind::LeftParen) && has_prefix(TokenKind::LeftBracket) && has_prefix(TokenKind::LeftBrace)
    && has_prefix(TokenKind::Number) && has_prefix(TokenKind::String) && has_prefix(TokenKind::Identifier)
    && has_prefix(TokenKind::True) && has_prefix(TokenKind::False) && has_prefix(TokenKind::Nil) && has_prefix(TokenKind::Self_)
    && has_prefix(TokenKind::Super) && has_prefix(TokenKind::Pipe)
    && !has_prefix(TokenKind::Plus) && !has_prefix(TokenKind::Star) && !has_prefix(TokenKind::Slash) && !has_prefix(TokenKind::EqualEqual)
    && !has_prefix(TokenKind::BangEqual) && !has_prefix(TokenKind::Less) && !has_prefix(TokenKind::And)
    && !has_prefix(TokenKind::RightParen) && !has_prefix(TokenKind::Eof) && !has_prefix(TokenKind::Semicolon)
}

// parse actions by name, as the hook numbers them
pub const I_NONE: u8 = 0; pub const I_AND: u8 = 1; pub const I_BINARY: u8 = 2; pub const I_TERNARY: u8 = 3; pub const I_CALL: u8 = 4;
pub const I_DOT: u8 = 5; pub const I_INDEX: u8 = 6; pub const I_OR: u8 = 7;
pub const P_NONE: u8 = 0; pub const P_CHANNEL: u8 = 1; pub const P_GROUPING: u8 = 2; pub const P_INTERPOLATION: u8 = 3; pub const P_LAMBDA: u8 = 4;
pub const P_LIST: u8 = 5; pub const P_LITERAL: u8 = 6; pub const P_MAP: u8 = 7; pub const P_NUMBER: u8 = 8; pub const P_SELF: u8 = 9;
pub const P_STRING: u8 = 10; pub const P_SUPER: u8 = 11; pub const P_UNARY: u8 = 12; pub const P_INSTANCE_ACCESS: u8 = 13; pub const P_VARIABLE: u8 = 14;

/// what a token in infix position means per the grammar: `and` / `or` are the short-circuit operators, the ten arithmetic / comparison
/// operators are binary operators, `?` starts a ternary, `(` a call, `[` an index, `.` a property access
pub fn spec_infix_action(kind: TokenKind) -> u8 {
  match kind {
    TokenKind::Or => I_OR,
    TokenKind::And => I_AND,
    TokenKind::EqualEqual | TokenKind::BangEqual | TokenKind::Greater | TokenKind::GreaterEqual | TokenKind::Less | TokenKind::LessEqual
    | TokenKind::Minus | TokenKind::Plus | TokenKind::Slash | TokenKind::Star => I_BINARY,
    TokenKind::QuestionMark => I_TERNARY,
    TokenKind::LeftParen => I_CALL,
    TokenKind::LeftBracket => I_INDEX,
    TokenKind::Dot => I_DOT,
    _ => I_NONE,
  }
}

/// what a token that starts an expression means per the grammar (`-`, `!`, `<-` are the prefix operators; `|` and `||` start a lambda)
pub fn spec_prefix_action(kind: TokenKind) -> u8 {
  match kind {
    TokenKind::Minus | TokenKind::Bang | TokenKind::LeftArrow => P_UNARY,
    TokenKind::LeftParen => P_GROUPING,
    TokenKind::LeftBracket => P_LIST,
    TokenKind::LeftBrace => P_MAP,
    TokenKind::Pipe | TokenKind::Or => P_LAMBDA,
    TokenKind::Identifier => P_VARIABLE,
    TokenKind::InstanceAccess => P_INSTANCE_ACCESS,
    TokenKind::String => P_STRING,
    TokenKind::StringStart => P_INTERPOLATION,
    TokenKind::Number => P_NUMBER,
    TokenKind::True | TokenKind::False | TokenKind::Nil => P_LITERAL,
    TokenKind::Self_ => P_SELF,
    TokenKind::Super => P_SUPER,
    TokenKind::Channel => P_CHANNEL,
    _ => P_NONE,
  }
}

/// O-01.P for one token kind: the parse action the tables dispatch is the one the grammar gives the token — in particular Parser::binary
/// is reached exactly for the ten binary operator tokens and Parser::unary exactly for the three prefix operators (the preconditions of
/// the Verus contracts on those two functions)
pub fn c_infix_action(i: usize) -> bool {
  let kind = KINDS[i % KINDS.len()];
  infix_action(kind) == spec_infix_action(kind)
}
pub fn c_prefix_action(i: usize) -> bool {
  let kind = KINDS[i % KINDS.len()];
  prefix_action(kind) == spec_prefix_action(kind)
}

#[cfg(kani)]
mod proofs {
  use super::*;
  #[kani::proof]
  fn o01_p_infix_table() { let i: usize = kani::any(); kani::assume(i < 69); assert!(c_infix_table(i)); }
  #[kani::proof]
  fn o01_p_infix_action() { let i: usize = kani::any(); kani::assume(i < 69); assert!(c_infix_action(i)); }
  #[kani::proof]
  fn o01_p_prefix_action() { let i: usize = kani::any(); kani::assume(i < 69); assert!(c_prefix_action(i)); }
  #[kani::proof]
  fn o01_p_higher() { assert!(c_higher(kani::any())); }
  #[kani::proof]
  fn o01_p_prefix_table() { assert!(c_prefix_table()); }
}
