use kx_coll::*;
fn main() {
  let a: Vec<String> = std::env::args().collect();
  let n = |i: usize| -> usize { a.get(i).map(|s| s.parse::<u64>().expect("u64 argument") as usize).unwrap_or(0) };
  let ok = match a.get(1).map(|s| s.as_str()).unwrap_or("") {
    "o10_push_grows" => c_push_grows(n(2)),
    "o10_value_identity_across_growth" => c_value_identity_across_growth(),
    "o10r_value_identity_no_growth" => c_value_identity_no_growth(),
    "o11_pop" => c_pop(n(2)),
    "o11_remove" => c_remove(n(2), n(3)),
    "o11_insert" => c_insert(n(2), n(3)),
    "o10_stale_pop" => c_stale_pop(n(2)),
    "o10_stale_index_set" => c_stale_index_set(n(2), n(3)),
    "o10_stale_insert" => c_stale_insert(n(2), n(3)),
    "o10_stale_remove" => c_stale_remove(n(2), n(3)),
    "o10_stale_push" => c_stale_push_no_growth(n(2)),
    other => { eprintln!("unknown contract {other}"); std::process::exit(2) },
  };
  println!("contract {} on {:?}: {}", a[1], &a[2..], if ok { "HOLDS" } else { "VIOLATED" });
  std::process::exit(if ok { 0 } else { 1 });
}
