//! C10 (identity across growth) and C11 (List buffer edits against a sequence model) on the real laythe_core List.
//! All harnesses are BOUNDED (small lists, #[kani::unwind]).
#![allow(unused)]
use laythe_core::hooks::{GcContext, GcHooks};
use laythe_core::managed::{Trace, TraceRoot};
use laythe_core::object::List;
use laythe_core::value::{Value, VALUE_NIL};
use laythe_core::{Allocator, IndexedResult, VecBuilder};
use std::cell::{RefCell, RefMut};
use std::mem::ManuallyDrop;

/// a minimal allocation context: never collects, never dropped (NoContext's drop glue is what makes Kani explode)
pub struct Ctx { gc: RefCell<ManuallyDrop<Allocator>> }
impl TraceRoot for Ctx {
  fn trace(&self) {}
  fn trace_debug(&self, _log: &mut dyn std::io::Write) {}
  fn can_collect(&self) -> bool { false }
}
impl GcContext for Ctx {
  fn gc(&self) -> RefMut<'_, Allocator> { RefMut::map(self.gc.borrow_mut(), |m| &mut **m) }
}
pub fn ctx() -> &'static Ctx { Box::leak(Box::new(Ctx { gc: RefCell::new(ManuallyDrop::new(Allocator::default())) })) }

/// a context for operations that must not allocate: asking it for the allocator is a contract violation (panic)
pub struct NoGrow;
impl TraceRoot for NoGrow {
  fn trace(&self) {}
  fn trace_debug(&self, _log: &mut dyn std::io::Write) {}
  fn can_collect(&self) -> bool { false }
}
impl GcContext for NoGrow {
  fn gc(&self) -> RefMut<'_, Allocator> { panic!("this operation must not allocate") }
}
static NO_GROW: NoGrow = NoGrow;

/// allocator-free construction of a list (the handle is leaked; only the reference is used)
pub fn mk_free(len: usize, cap: usize) -> List {
  use laythe_core::managed::AllocateObj;
  let vals = [num(0), num(1), num(2)];
  let r = VecBuilder::new(&vals[..len], cap).alloc();
  std::mem::forget(r.handle);
  List::new(r.reference)
}

fn num(i: usize) -> Value { Value::from(i as f64 + 10.0) }
fn is(v: Value, i: usize) -> bool { v.is_num() && v.to_num() == i as f64 + 10.0 }

/// a list [10, 11, .. ] of length `len` with capacity `cap`
pub fn mk(hooks: &GcHooks, len: usize, cap: usize) -> List {
  let vals = [num(0), num(1), num(2)];
  List::new(hooks.manage_obj(VecBuilder::new(&vals[..len], cap)))
}

/// C10/C11 push beyond capacity: the old handle forwards; every alias sees the new element, contents preserved
pub fn c_push_grows(len: usize) -> bool {
  let hooks = GcHooks::new(ctx());
  let n = 1;                             // one element, capacity 1: the push must grow (kept concrete: the allocator is costly)
  let cap = 1;
  let mut list = mk(&hooks, n, cap);
  let alias = list;
  list.push(num(n), &hooks);
  let grown = n + 1 > cap;
  let mut ok = alias.has_moved() == grown && list.has_moved() == grown && alias.len() == n + 1 && list.len() == n + 1 && alias == list;
  let mut i = 0;
  while i <= n { ok = ok && is(alias[i], i) && is(list[i], i); i += 1; }
  ok
}

/// C10 property: two handles of one list are the same VALUE however they were obtained (old handle vs the handle
/// of the relocated vector, which is what scan_roots writes into stack slots)
pub fn c_value_identity_across_growth() -> bool {
  let hooks = GcHooks::new(ctx());
  let mut list = mk(&hooks, 1, 1);
  let old = list;
  list.push(num(1), &hooks);
  let new = match old.state() { laythe_core::object::ListLocation::Forwarded(l) => l, laythe_core::object::ListLocation::Here(_) => old };
  old == new && Value::from(old) == Value::from(new)
}

/// C10 residual: a list that never grew is equal as a value exactly to itself
pub fn c_value_identity_no_growth() -> bool {
  let a = mk_free(1, 2);
  let b = mk_free(1, 2);
  Value::from(a) == Value::from(a) && Value::from(a) != Value::from(b) && a == a && a != b
}

/// C11 pop / remove / insert against the sequence model, receiver unchanged on OutOfBounds
pub fn c_pop(len: usize) -> bool {
  let n = len % 3;
  let mut list = mk_free(n, 3);
  let r = list.pop();
  if n == 0 { r.is_none() && list.len() == 0 }
  else { r.map_or(false, |v| is(v, n - 1)) && list.len() == n - 1 && (n < 2 || is(list[0], 0)) }
}

pub fn c_remove(len: usize, index: usize) -> bool {
  let n = (len % 4).min(3); let idx = index % 5;
  let mut list = mk_free(n, 3);
  let r = list.remove(idx);
  if idx >= n {
    matches!(r, IndexedResult::OutOfBounds) && list.len() == n && (0..n).all(|i| is(list[i], i))
  } else {
    matches!(r, IndexedResult::Ok(v) if is(v, idx)) && list.len() == n - 1
      && (0..n - 1).all(|i| is(list[i], if i < idx { i } else { i + 1 }))
  }
}

pub fn c_insert(len: usize, index: usize) -> bool {
  let hooks = GcHooks::new(&NO_GROW);
  let n = len % 3; let idx = index % 4;
  let mut list = mk_free(n, 3);               // capacity 3: no insertion here needs to grow (growth: o10_push_grows)
  let alias = list;
  let r = list.insert(idx, num(7), &hooks);
  if idx > n {
    matches!(r, IndexedResult::OutOfBounds) && alias.len() == n && (0..n).all(|i| is(alias[i], i))
  } else {
    matches!(r, IndexedResult::Ok(())) && alias.len() == n + 1
      && (0..n + 1).all(|i| if i < idx { is(alias[i], i) } else if i == idx { is(alias[i], 7) } else { is(alias[i], i - 1) })
  }
}

/// a relocated list built without the allocator: `old` (len 1, cap 1) forwards to `new` (len n, cap 3), exactly the
/// state List::grow leaves behind (write_len(new) + mark_moved(cap))
pub fn mk_forwarded(n: usize) -> (List, List) {
  use laythe_core::managed::AllocateObj;
  let new = mk_free(n, 3);
  let vals = [num(9)];
  let r = VecBuilder::new(&vals[..1], 1).alloc();
  std::mem::forget(r.handle);
  let mut raw = r.reference;
  unsafe { raw.write_len(new); }
  raw.mark_moved(1);
  (List::new(raw), new)
}

fn still_forwards(old: List, new: List) -> bool {
  old.has_moved() && !new.has_moved() && matches!(old.state(), laythe_core::object::ListLocation::Forwarded(l) if l == new)
}

/// C10: every operation through a stale (forwarding) handle acts on the relocated list and leaves the forwarding intact
pub fn c_stale_pop(len: usize) -> bool {
  let n = len % 3;
  let (mut old, new) = mk_forwarded(n);
  let r = old.pop();
  still_forwards(old, new) && old.len() == new.len()
    && if n == 0 { r.is_none() && new.len() == 0 } else { r.map_or(false, |v| is(v, n - 1)) && new.len() == n - 1 && (n < 2 || is(new[0], 0)) }
}

pub fn c_stale_index_set(len: usize, index: usize) -> bool {
  let n = 1 + len % 3; let idx = index % n;
  let (mut old, new) = mk_forwarded(n);
  old[idx] = num(7);
  still_forwards(old, new) && new.len() == n && old.len() == n
    && (0..n).all(|i| if i == idx { is(new[i], 7) && is(old[i], 7) } else { is(new[i], i) })
}

pub fn c_stale_insert(len: usize, index: usize) -> bool {
  let hooks = GcHooks::new(&NO_GROW);
  let n = len % 3; let idx = index % 4;
  let (mut old, new) = mk_forwarded(n);
  let r = old.insert(idx, num(7), &hooks);
  still_forwards(old, new) && old.len() == new.len()
    && if idx > n { matches!(r, IndexedResult::OutOfBounds) && new.len() == n && (0..n).all(|i| is(new[i], i)) }
       else { matches!(r, IndexedResult::Ok(())) && new.len() == n + 1
              && (0..n + 1).all(|i| if i < idx { is(new[i], i) } else if i == idx { is(new[i], 7) } else { is(new[i], i - 1) }) }
}

pub fn c_stale_remove(len: usize, index: usize) -> bool {
  let n = (len % 4).min(3); let idx = index % 5;
  let (mut old, new) = mk_forwarded(n);
  let r = old.remove(idx);
  still_forwards(old, new) && old.len() == new.len()
    && if idx >= n { matches!(r, IndexedResult::OutOfBounds) && new.len() == n && (0..n).all(|i| is(new[i], i)) }
       else { matches!(r, IndexedResult::Ok(v) if is(v, idx)) && new.len() == n - 1 && (0..n - 1).all(|i| is(new[i], if i < idx { i } else { i + 1 })) }
}

pub fn c_stale_push_no_growth(len: usize) -> bool {
  let hooks = GcHooks::new(&NO_GROW);
  let n = len % 3;
  let (mut old, new) = mk_forwarded(n);
  old.push(num(7), &hooks);
  still_forwards(old, new) && new.len() == n + 1 && old.len() == n + 1 && is(new[n], 7) && (0..n).all(|i| is(new[i], i))
}

#[cfg(kani)]
mod proofs {
  use super::*;
  use laythe_core::verif::ObjectHandle;
  fn drop_stub(_h: &mut ObjectHandle) {}

  /// A-stub: contract of Allocator::manage_obj — "returns a reference to a fresh object built from the given data"
  /// (the real one additionally registers the handle and may collect; both are C05/C20 matter).
  /// With the real body these two harnesses exceed 28 GB in CBMC.
  fn manage_obj_stub<R, T, C>(_gc: &mut Allocator, data: T, _context: &C) -> R
  where
    R: 'static + Trace + Copy + std::fmt::Pointer + laythe_core::managed::DebugHeap,
    T: laythe_core::managed::AllocateObj<R>,
    C: TraceRoot + ?Sized,
  {
    let r = data.alloc();
    std::mem::forget(r.handle);
    r.reference
  }

  #[kani::proof] #[kani::unwind(6)] #[kani::stub(Allocator::manage_obj, manage_obj_stub)]
  fn o10_push_grows() { assert!(c_push_grows(kani::any())); }
  #[kani::proof] #[kani::unwind(6)] #[kani::stub(Allocator::manage_obj, manage_obj_stub)]
  fn o10_value_identity_across_growth() { assert!(c_value_identity_across_growth()); }
  #[kani::proof] #[kani::unwind(6)] #[kani::stub(<ObjectHandle as std::ops::Drop>::drop, drop_stub)]
  fn o10r_value_identity_no_growth() { assert!(c_value_identity_no_growth()); }
  #[kani::proof] #[kani::unwind(6)] #[kani::stub(<ObjectHandle as std::ops::Drop>::drop, drop_stub)]
  fn o11_pop() { assert!(c_pop(kani::any())); }
  #[kani::proof] #[kani::unwind(6)] #[kani::stub(<ObjectHandle as std::ops::Drop>::drop, drop_stub)]
  fn o11_remove() { assert!(c_remove(kani::any(), kani::any())); }
  #[kani::proof] #[kani::unwind(6)] #[kani::stub(<ObjectHandle as std::ops::Drop>::drop, drop_stub)]
  fn o11_insert() { assert!(c_insert(kani::any(), kani::any())); }
  #[kani::proof] #[kani::unwind(6)] #[kani::stub(<ObjectHandle as std::ops::Drop>::drop, drop_stub)]
  fn o10_stale_pop() { assert!(c_stale_pop(kani::any())); }
  #[kani::proof] #[kani::unwind(6)] #[kani::stub(<ObjectHandle as std::ops::Drop>::drop, drop_stub)]
  fn o10_stale_index_set() { assert!(c_stale_index_set(kani::any(), kani::any())); }
  #[kani::proof] #[kani::unwind(6)] #[kani::stub(<ObjectHandle as std::ops::Drop>::drop, drop_stub)]
  fn o10_stale_insert() { assert!(c_stale_insert(kani::any(), kani::any())); }
  #[kani::proof] #[kani::unwind(6)] #[kani::stub(<ObjectHandle as std::ops::Drop>::drop, drop_stub)]
  fn o10_stale_remove() { assert!(c_stale_remove(kani::any(), kani::any())); }
  #[kani::proof] #[kani::unwind(6)] #[kani::stub(<ObjectHandle as std::ops::Drop>::drop, drop_stub)]
  fn o10_stale_push() { assert!(c_stale_push_no_growth(kani::any())); }
}
