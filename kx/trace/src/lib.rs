//! C05 — per-kind tracing (O-05.1) and the tracing dispatch (O-05.2) on the real laythe_core.
//! Modularity through Kani stubbing: when a `trace` body is checked, the callee `<ObjectRef as Trace>::trace` is replaced
//! by its contract "marks the object" (shallow); when the dispatch is checked, the per-kind bodies are replaced by flags.
#![allow(unused, static_mut_refs)]
#![recursion_limit = "512"]
use laythe_core::managed::{AllocateObj, Mark, Marked, Trace};
use laythe_core::object::{LyBox, Method, ObjHeader, ObjectKind, Tuple};
use laythe_core::value::{Value, VALUE_NIL};
use laythe_core::{ObjRef, ObjectRef};
use std::mem::ManuallyDrop;

/// a fresh, unmarked box that is never released (the harness only inspects marks)
pub fn fresh_box() -> ObjRef<LyBox> {
  let r = LyBox::new(VALUE_NIL).alloc();
  let _leak = ManuallyDrop::new(r.handle);
  r.reference
}

#[cfg(kani)]
mod proofs {
  use super::*;
  use laythe_core::object::{Channel, Class, Closure, Enumerator, Fun, Instance, List, LyStr, Map, Native};

  /// contract of the callee: tracing an object reference marks that object (transitivity is the induction, O-05.3)
  fn shallow(o: &ObjectRef) { o.mark(); }

  // O-05.1 (a kind's trace body reaches EVERY child) is NOT decided here: every child is held as a `Value`, and CBMC loses
  // pointer provenance when an ObjectRef is stored in the Value enum (f64 / pointer overlay) and read back — a harness
  // `let v = Value::Obj(o); if let Value::Obj(o2) = v { assert!(!o2.marked()) }` fails on a fresh object. Tool limit, see DESIGN.md.

  // ---- O-05.2: the dispatch sends every kind to its own trace body, exactly once, and stops at marked objects ----
  static mut FLAGS: [u8; 13] = [0; 13];
  fn kind_index(k: ObjectKind) -> usize {
    match k {
      ObjectKind::Channel => 0, ObjectKind::Class => 1, ObjectKind::Closure => 2, ObjectKind::Enumerator => 3, ObjectKind::Fun => 4,
      ObjectKind::Instance => 5, ObjectKind::List => 6, ObjectKind::Map => 7, ObjectKind::Method => 8, ObjectKind::Native => 9,
      ObjectKind::String => 10, ObjectKind::LyBox => 11, ObjectKind::Tuple => 12,
    }
  }
  fn kind_of(i: usize) -> ObjectKind {
    match i {
      0 => ObjectKind::Channel, 1 => ObjectKind::Class, 2 => ObjectKind::Closure, 3 => ObjectKind::Enumerator, 4 => ObjectKind::Fun,
      5 => ObjectKind::Instance, 6 => ObjectKind::List, 7 => ObjectKind::Map, 8 => ObjectKind::Method, 9 => ObjectKind::Native,
      10 => ObjectKind::String, 11 => ObjectKind::LyBox, _ => ObjectKind::Tuple,
    }
  }
  fn f_channel(_s: &Channel) { unsafe { FLAGS[0] += 1 } }
  fn f_class(_s: &Class) { unsafe { FLAGS[1] += 1 } }
  fn f_closure(_s: &Closure) { unsafe { FLAGS[2] += 1 } }
  fn f_enumerator(_s: &Enumerator) { unsafe { FLAGS[3] += 1 } }
  fn f_fun(_s: &Fun) { unsafe { FLAGS[4] += 1 } }
  fn f_instance(_s: &Instance) { unsafe { FLAGS[5] += 1 } }
  fn f_list(_s: &List) { unsafe { FLAGS[6] += 1 } }
  fn f_map(_s: &Map<Value, Value>) { unsafe { FLAGS[7] += 1 } }
  fn f_method(_s: &Method) { unsafe { FLAGS[8] += 1 } }
  fn f_native(_s: &Native) { unsafe { FLAGS[9] += 1 } }
  fn f_string(_s: &LyStr) { unsafe { FLAGS[10] += 1 } }
  fn f_box(_s: &LyBox) { unsafe { FLAGS[11] += 1 } }
  fn f_tuple(_s: &Tuple) { unsafe { FLAGS[12] += 1 } }

  fn dispatch_kind(i: usize) {
    // a raw object of kind i: a real header followed by zeroed payload (the stubbed bodies never read it)
    let layout = std::alloc::Layout::from_size_align(256, 16).unwrap();
    let ptr = unsafe { std::alloc::alloc_zeroed(layout) };
    unsafe { std::ptr::write(ptr as *mut ObjHeader, ObjHeader::new(kind_of(i))); }
    let obj = ObjectRef::new(std::ptr::NonNull::new(ptr).unwrap());
    assert!(obj.kind() == kind_of(i) && !obj.marked());
    obj.trace();
    let mut total = 0;
    let mut j = 0;
    while j < 13 { total += unsafe { FLAGS[j] } as usize; j += 1; }
    assert!(unsafe { FLAGS[i] } == 1 && total == 1, "kind i is traced by its own body, exactly once");
    // already marked: nothing is traced again (termination on cycles)
    if obj.marked() {
      obj.trace();
      let mut total2 = 0;
      let mut j = 0;
      while j < 13 { total2 += unsafe { FLAGS[j] } as usize; j += 1; }
      assert!(total2 == 1);
    }
  }

  #[kani::proof]
  #[kani::unwind(15)]
  #[kani::stub(<Channel as Trace>::trace, f_channel)]
  #[kani::stub(<Class as Trace>::trace, f_class)]
  #[kani::stub(<Closure as Trace>::trace, f_closure)]
  #[kani::stub(<Enumerator as Trace>::trace, f_enumerator)]
  #[kani::stub(<Fun as Trace>::trace, f_fun)]
  #[kani::stub(<Instance as Trace>::trace, f_instance)]
  #[kani::stub(<List as Trace>::trace, f_list)]
  #[kani::stub(<Method as Trace>::trace, f_method)]
  #[kani::stub(<Native as Trace>::trace, f_native)]
  #[kani::stub(<LyStr as Trace>::trace, f_string)]
  #[kani::stub(<LyBox as Trace>::trace, f_box)]
  #[kani::stub(<Tuple as Trace>::trace, f_tuple)]
  fn o05_2_dispatch_channel() { dispatch_kind(0); }

  #[kani::proof]
  #[kani::unwind(15)]
  #[kani::stub(<Channel as Trace>::trace, f_channel)]
  #[kani::stub(<Class as Trace>::trace, f_class)]
  #[kani::stub(<Closure as Trace>::trace, f_closure)]
  #[kani::stub(<Enumerator as Trace>::trace, f_enumerator)]
  #[kani::stub(<Fun as Trace>::trace, f_fun)]
  #[kani::stub(<Instance as Trace>::trace, f_instance)]
  #[kani::stub(<List as Trace>::trace, f_list)]
  #[kani::stub(<Method as Trace>::trace, f_method)]
  #[kani::stub(<Native as Trace>::trace, f_native)]
  #[kani::stub(<LyStr as Trace>::trace, f_string)]
  #[kani::stub(<LyBox as Trace>::trace, f_box)]
  #[kani::stub(<Tuple as Trace>::trace, f_tuple)]
  fn o05_2_dispatch_class() { dispatch_kind(1); }

  #[kani::proof]
  #[kani::unwind(15)]
  #[kani::stub(<Channel as Trace>::trace, f_channel)]
  #[kani::stub(<Class as Trace>::trace, f_class)]
  #[kani::stub(<Closure as Trace>::trace, f_closure)]
  #[kani::stub(<Enumerator as Trace>::trace, f_enumerator)]
  #[kani::stub(<Fun as Trace>::trace, f_fun)]
  #[kani::stub(<Instance as Trace>::trace, f_instance)]
  #[kani::stub(<List as Trace>::trace, f_list)]
  #[kani::stub(<Method as Trace>::trace, f_method)]
  #[kani::stub(<Native as Trace>::trace, f_native)]
  #[kani::stub(<LyStr as Trace>::trace, f_string)]
  #[kani::stub(<LyBox as Trace>::trace, f_box)]
  #[kani::stub(<Tuple as Trace>::trace, f_tuple)]
  fn o05_2_dispatch_closure() { dispatch_kind(2); }

  #[kani::proof]
  #[kani::unwind(15)]
  #[kani::stub(<Channel as Trace>::trace, f_channel)]
  #[kani::stub(<Class as Trace>::trace, f_class)]
  #[kani::stub(<Closure as Trace>::trace, f_closure)]
  #[kani::stub(<Enumerator as Trace>::trace, f_enumerator)]
  #[kani::stub(<Fun as Trace>::trace, f_fun)]
  #[kani::stub(<Instance as Trace>::trace, f_instance)]
  #[kani::stub(<List as Trace>::trace, f_list)]
  #[kani::stub(<Method as Trace>::trace, f_method)]
  #[kani::stub(<Native as Trace>::trace, f_native)]
  #[kani::stub(<LyStr as Trace>::trace, f_string)]
  #[kani::stub(<LyBox as Trace>::trace, f_box)]
  #[kani::stub(<Tuple as Trace>::trace, f_tuple)]
  fn o05_2_dispatch_enumerator() { dispatch_kind(3); }

  #[kani::proof]
  #[kani::unwind(15)]
  #[kani::stub(<Channel as Trace>::trace, f_channel)]
  #[kani::stub(<Class as Trace>::trace, f_class)]
  #[kani::stub(<Closure as Trace>::trace, f_closure)]
  #[kani::stub(<Enumerator as Trace>::trace, f_enumerator)]
  #[kani::stub(<Fun as Trace>::trace, f_fun)]
  #[kani::stub(<Instance as Trace>::trace, f_instance)]
  #[kani::stub(<List as Trace>::trace, f_list)]
  #[kani::stub(<Method as Trace>::trace, f_method)]
  #[kani::stub(<Native as Trace>::trace, f_native)]
  #[kani::stub(<LyStr as Trace>::trace, f_string)]
  #[kani::stub(<LyBox as Trace>::trace, f_box)]
  #[kani::stub(<Tuple as Trace>::trace, f_tuple)]
  fn o05_2_dispatch_fun() { dispatch_kind(4); }

  #[kani::proof]
  #[kani::unwind(15)]
  #[kani::stub(<Channel as Trace>::trace, f_channel)]
  #[kani::stub(<Class as Trace>::trace, f_class)]
  #[kani::stub(<Closure as Trace>::trace, f_closure)]
  #[kani::stub(<Enumerator as Trace>::trace, f_enumerator)]
  #[kani::stub(<Fun as Trace>::trace, f_fun)]
  #[kani::stub(<Instance as Trace>::trace, f_instance)]
  #[kani::stub(<List as Trace>::trace, f_list)]
  #[kani::stub(<Method as Trace>::trace, f_method)]
  #[kani::stub(<Native as Trace>::trace, f_native)]
  #[kani::stub(<LyStr as Trace>::trace, f_string)]
  #[kani::stub(<LyBox as Trace>::trace, f_box)]
  #[kani::stub(<Tuple as Trace>::trace, f_tuple)]
  fn o05_2_dispatch_instance() { dispatch_kind(5); }

  #[kani::proof]
  #[kani::unwind(15)]
  #[kani::stub(<Channel as Trace>::trace, f_channel)]
  #[kani::stub(<Class as Trace>::trace, f_class)]
  #[kani::stub(<Closure as Trace>::trace, f_closure)]
  #[kani::stub(<Enumerator as Trace>::trace, f_enumerator)]
  #[kani::stub(<Fun as Trace>::trace, f_fun)]
  #[kani::stub(<Instance as Trace>::trace, f_instance)]
  #[kani::stub(<List as Trace>::trace, f_list)]
  #[kani::stub(<Method as Trace>::trace, f_method)]
  #[kani::stub(<Native as Trace>::trace, f_native)]
  #[kani::stub(<LyStr as Trace>::trace, f_string)]
  #[kani::stub(<LyBox as Trace>::trace, f_box)]
  #[kani::stub(<Tuple as Trace>::trace, f_tuple)]
  fn o05_2_dispatch_list() { dispatch_kind(6); }

  #[kani::proof]
  #[kani::unwind(15)]
  #[kani::stub(<Channel as Trace>::trace, f_channel)]
  #[kani::stub(<Class as Trace>::trace, f_class)]
  #[kani::stub(<Closure as Trace>::trace, f_closure)]
  #[kani::stub(<Enumerator as Trace>::trace, f_enumerator)]
  #[kani::stub(<Fun as Trace>::trace, f_fun)]
  #[kani::stub(<Instance as Trace>::trace, f_instance)]
  #[kani::stub(<List as Trace>::trace, f_list)]
  #[kani::stub(<Method as Trace>::trace, f_method)]
  #[kani::stub(<Native as Trace>::trace, f_native)]
  #[kani::stub(<LyStr as Trace>::trace, f_string)]
  #[kani::stub(<LyBox as Trace>::trace, f_box)]
  #[kani::stub(<Tuple as Trace>::trace, f_tuple)]
  fn o05_2_dispatch_method() { dispatch_kind(8); }

  #[kani::proof]
  #[kani::unwind(15)]
  #[kani::stub(<Channel as Trace>::trace, f_channel)]
  #[kani::stub(<Class as Trace>::trace, f_class)]
  #[kani::stub(<Closure as Trace>::trace, f_closure)]
  #[kani::stub(<Enumerator as Trace>::trace, f_enumerator)]
  #[kani::stub(<Fun as Trace>::trace, f_fun)]
  #[kani::stub(<Instance as Trace>::trace, f_instance)]
  #[kani::stub(<List as Trace>::trace, f_list)]
  #[kani::stub(<Method as Trace>::trace, f_method)]
  #[kani::stub(<Native as Trace>::trace, f_native)]
  #[kani::stub(<LyStr as Trace>::trace, f_string)]
  #[kani::stub(<LyBox as Trace>::trace, f_box)]
  #[kani::stub(<Tuple as Trace>::trace, f_tuple)]
  fn o05_2_dispatch_native() { dispatch_kind(9); }

  #[kani::proof]
  #[kani::unwind(15)]
  #[kani::stub(<Channel as Trace>::trace, f_channel)]
  #[kani::stub(<Class as Trace>::trace, f_class)]
  #[kani::stub(<Closure as Trace>::trace, f_closure)]
  #[kani::stub(<Enumerator as Trace>::trace, f_enumerator)]
  #[kani::stub(<Fun as Trace>::trace, f_fun)]
  #[kani::stub(<Instance as Trace>::trace, f_instance)]
  #[kani::stub(<List as Trace>::trace, f_list)]
  #[kani::stub(<Method as Trace>::trace, f_method)]
  #[kani::stub(<Native as Trace>::trace, f_native)]
  #[kani::stub(<LyStr as Trace>::trace, f_string)]
  #[kani::stub(<LyBox as Trace>::trace, f_box)]
  #[kani::stub(<Tuple as Trace>::trace, f_tuple)]
  fn o05_2_dispatch_string() { dispatch_kind(10); }

  #[kani::proof]
  #[kani::unwind(15)]
  #[kani::stub(<Channel as Trace>::trace, f_channel)]
  #[kani::stub(<Class as Trace>::trace, f_class)]
  #[kani::stub(<Closure as Trace>::trace, f_closure)]
  #[kani::stub(<Enumerator as Trace>::trace, f_enumerator)]
  #[kani::stub(<Fun as Trace>::trace, f_fun)]
  #[kani::stub(<Instance as Trace>::trace, f_instance)]
  #[kani::stub(<List as Trace>::trace, f_list)]
  #[kani::stub(<Method as Trace>::trace, f_method)]
  #[kani::stub(<Native as Trace>::trace, f_native)]
  #[kani::stub(<LyStr as Trace>::trace, f_string)]
  #[kani::stub(<LyBox as Trace>::trace, f_box)]
  #[kani::stub(<Tuple as Trace>::trace, f_tuple)]
  fn o05_2_dispatch_lybox() { dispatch_kind(11); }

  #[kani::proof]
  #[kani::unwind(15)]
  #[kani::stub(<Channel as Trace>::trace, f_channel)]
  #[kani::stub(<Class as Trace>::trace, f_class)]
  #[kani::stub(<Closure as Trace>::trace, f_closure)]
  #[kani::stub(<Enumerator as Trace>::trace, f_enumerator)]
  #[kani::stub(<Fun as Trace>::trace, f_fun)]
  #[kani::stub(<Instance as Trace>::trace, f_instance)]
  #[kani::stub(<List as Trace>::trace, f_list)]
  #[kani::stub(<Method as Trace>::trace, f_method)]
  #[kani::stub(<Native as Trace>::trace, f_native)]
  #[kani::stub(<LyStr as Trace>::trace, f_string)]
  #[kani::stub(<LyBox as Trace>::trace, f_box)]
  #[kani::stub(<Tuple as Trace>::trace, f_tuple)]
  fn o05_2_dispatch_tuple() { dispatch_kind(12); }

}
