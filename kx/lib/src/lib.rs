//! C11 — index normalisation of list / tuple natives (laythe_lib determine_index), loop-free over every f64 and every length
#![allow(unused)]
use laythe_core::value::{Value, VALUE_NIL};

static NILS: [Value; 8] = [VALUE_NIL; 8];
use laythe_lib::global::verif::{verif_list_determine_index, verif_tuple_determine_index};
use laythe_core::{managed::AllocateObj, object::List, VecBuilder};

/// negative indices count from the end; fractional, NaN, infinite or out-of-range indices are an error; a returned
/// index is always inside the receiver.  Receivers of length 0..=8 (the function only reads the length).
pub fn c_determine_index(len: usize, bits: u64) -> bool {
  let len = len % 9;
  let idx = f64::from_bits(bits);
  let r = verif_tuple_determine_index(&NILS[..len], idx);
  let li = len as i128;
  let integral = idx.is_finite() && idx.fract() == 0.0;
  let k = idx as i128;                       // exact for integral values below 2^127
  let in_range = integral && -li <= k && k < li;
  match r {
    Ok(i) => in_range && i < len && (i as i128) == (if k >= 0 { k } else { li + k }),
    Err(_) => !in_range,
  }
}

/// the same contract for the list variant (receiver built without the allocator, length 0..=3, capacity 3)
pub fn c_list_determine_index(len: usize, bits: u64) -> bool {
  let len = len % 4;
  let idx = f64::from_bits(bits);
  let r = VecBuilder::new(&NILS[..len], 3).alloc();
  std::mem::forget(r.handle);
  let list = List::new(r.reference);
  let r = verif_list_determine_index(&list, idx);
  let li = len as i128;
  let integral = idx.is_finite() && idx.fract() == 0.0;
  let k = idx as i128;
  let in_range = integral && -li <= k && k < li;
  match r {
    Ok(i) => in_range && i < len && (i as i128) == (if k >= 0 { k } else { li + k }),
    Err(_) => !in_range,
  }
}

#[cfg(kani)]
mod proofs {
  use super::*;
  fn fmt_stub(_args: std::fmt::Arguments<'_>) -> String { String::new() }

  #[kani::proof]
  #[kani::unwind(6)]
  #[kani::stub(alloc::fmt::format, fmt_stub)]
  fn o11_determine_index() { assert!(c_determine_index(kani::any(), kani::any())); }

  #[kani::proof]
  #[kani::unwind(6)]
  #[kani::stub(alloc::fmt::format, fmt_stub)]
  fn o11_list_determine_index() { assert!(c_list_determine_index(kani::any(), kani::any())); }
}
extern crate alloc;
