use kx_lib::*;
fn main() {
  let a: Vec<String> = std::env::args().collect();
  let n = |i: usize| -> u64 { a.get(i).map(|s| s.parse::<u64>().expect("u64 argument")).unwrap_or(0) };
  let ok = match a.get(1).map(|s| s.as_str()).unwrap_or("") {
    "o11_determine_index" => c_determine_index(n(2) as usize, n(3)),
    "o11_list_determine_index" => c_list_determine_index(n(2) as usize, n(3)),
    other => { eprintln!("unknown contract {other}"); std::process::exit(2) },
  };
  println!("contract {} on {:?}: {}", a[1], &a[2..], if ok { "HOLDS" } else { "VIOLATED" });
  std::process::exit(if ok { 0 } else { 1 });
}
